// Driver for ZoneRegistrar / ZoneManager lookups (property C10; DESIGN.md P1).
// The registrar's comparators are template parameters: it is instantiated here
// with logging comparators so that the *sequence of probed entries* is observed
// without touching the code under test. A probe budget turns non-termination
// into a reported result; each query runs in a forked child so that an
// out-of-bounds read (ASan) is attributed to its query.
//
// stdin:  R <basic|extended> <i1,i2,...|->     registry = these entries of the shipped registry, in this order
//         N <hex of name>                       lookup by name (+ manager createForZoneName)
//         I <decimal id>                        lookup by id   (+ createForZoneId)
//         X <index>                             lookup by index (+ createForZoneIndex)
//         M <basic|extended> <listA>;<listB>;.. several registrars alive in ONE process, every lookup alternating between them
// stdout: one JSON line per query
#include <stdio.h>
#include <stdlib.h>
#include <string.h>
#include <string>
#include <vector>
#include <unistd.h>
#include <sys/wait.h>
#include "drv_common.h"
using namespace ace_time;

Print VerifSerial;
extern "C" unsigned long millis() { return 0; }

static std::vector<const char*> g_names;   // name pointer of every registry entry
static std::vector<int> g_probes;
static long g_budget = 0;
struct BudgetExceeded {};

static int index_of(const char* p) {
  for (size_t i = 0; i < g_names.size(); i++) if (g_names[i] == p) return (int) i;
  return -1;
}
int logging_strcmp_P(const char* a, const char* b) {
  g_probes.push_back(index_of(b));
  if ((long) g_probes.size() > g_budget) throw BudgetExceeded();
  return strcmp(a, b);
}
int logging_strcmp_PP(const char* a, const char* b) { return ace_common::strcmp_PP(a, b); }

template <typename ZI, typename ZRB, typename ZIB, typename ZONE, typename CACHE>
struct World {
  typedef ZoneRegistrar<ZI, ZRB, ZIB, logging_strcmp_P, logging_strcmp_PP> Reg;
  struct Mgr : public ZoneManagerImpl<ZI, Reg, CACHE> {
    Mgr(uint16_t n, const ZI* const* r) : ZoneManagerImpl<ZI, Reg, CACHE>(n, r) {}
  };
  const ZI** arr;
  int n;
  World(const ZI* const* shipped, const std::vector<int>& idx) {
    n = (int) idx.size();
    arr = (const ZI**) malloc(sizeof(const ZI*) * n + (n ? 0 : 1));  // exact size: ASan sees any read beyond
    g_names.clear();
    for (int i = 0; i < n; i++) { arr[i] = shipped[idx[i]]; g_names.push_back((const char*) ZONE(arr[i]).name()); }
  }
  void describe_tz(const TimeZone& tz, std::string& out) {
    char b[64];
    if (tz.isError()) { out += "\"tz\":\"error\""; return; }
    Print p; tz.printTo(p);
    snprintf(b, sizeof b, "\"tzid\":%lu,", (unsigned long) tz.getZoneId());
    out += b; out += "\"tz\":" + jstr(p.buf.c_str());
  }
  void query(char kind, const std::string& arg) {
    g_probes.clear();
    g_budget = n + 20;
    std::string out = "{";
    char b[96];
    try {
      Reg reg((uint16_t) n, arr);
      Mgr mgr((uint16_t) n, arr);
      snprintf(b, sizeof b, "\"sorted\":%d,", (int) reg.isSorted()); out += b;
      if (kind == 'N') {
        g_probes.clear();
        uint16_t r = reg.findIndexForName(arg.c_str());
        std::vector<int> pr = g_probes;
        g_probes.clear();
        const ZI* zi = reg.getZoneInfoForName(arg.c_str());
        g_probes.clear();
        snprintf(b, sizeof b, "\"res\":%u,\"info_ok\":%d,", (unsigned) r, (int) ((r == Reg::kInvalidIndex) ? (zi == nullptr) : (r < n && zi == arr[r]))); out += b;
        out += "\"probes\":[";
        for (size_t i = 0; i < pr.size(); i++) { snprintf(b, sizeof b, "%s%d", i ? "," : "", pr[i]); out += b; }
        out += "],";
        TimeZone tz = mgr.createForZoneName(arg.c_str());
        g_probes.clear();
        describe_tz(tz, out);
        snprintf(b, sizeof b, ",\"mgr_index\":%u", (unsigned) mgr.indexForZoneName(arg.c_str())); out += b;
      } else if (kind == 'I') {
        uint32_t id = (uint32_t) strtoul(arg.c_str(), nullptr, 10);
        uint16_t r = reg.findIndexForId(id);
        const ZI* zi = reg.getZoneInfoForId(id);
        snprintf(b, sizeof b, "\"res\":%u,\"info_ok\":%d,", (unsigned) r, (int) ((r == Reg::kInvalidIndex) ? (zi == nullptr) : (r < n && zi == arr[r]))); out += b;
        TimeZone tz = mgr.createForZoneId(id);
        describe_tz(tz, out);
        snprintf(b, sizeof b, ",\"mgr_index\":%u", (unsigned) mgr.indexForZoneId(id)); out += b;
      } else {
        uint16_t ix = (uint16_t) atoi(arg.c_str());
        const ZI* zi = reg.getZoneInfoForIndex(ix);
        snprintf(b, sizeof b, "\"res\":%d,", (int) (zi == nullptr ? 65535 : (ix < n && zi == arr[ix] ? ix : -2))); out += b;
        TimeZone tz = mgr.createForZoneIndex(ix);
        describe_tz(tz, out);
        snprintf(b, sizeof b, ",\"size\":%u", (unsigned) mgr.registrySize()); out += b;
      }
    } catch (BudgetExceeded&) {
      out += "\"budget_exceeded\":true,\"probes\":[";
      for (size_t i = 0; i < g_probes.size(); i++) { snprintf(b, sizeof b, "%s%d", i ? "," : "", g_probes[i]); out += b; }
      out += "]";
    }
    out += "}";
    puts(out.c_str());
    fflush(stdout);
  }
};


// several registrars / managers of the same kind alive in one process: every id, name and index is looked up on each of
// them in turn (A, B, .., A again), so that nothing remembered from one registry can leak into the answer for another
template <typename ZI, typename ZRB, typename ZIB, typename ZONE, typename CACHE>
static void multi(const ZI* const* shipped, const std::vector<std::vector<int>>& lists) {
  typedef World<ZI, ZRB, ZIB, ZONE, CACHE> W;
  std::vector<W*> ws;
  std::vector<typename W::Reg*> regs;
  std::vector<typename W::Mgr*> mgrs;
  for (size_t k = 0; k < lists.size(); k++) {
    W* w = new W(shipped, lists[k]);
    ws.push_back(w);
    regs.push_back(new typename W::Reg((uint16_t) w->n, w->arr));
    mgrs.push_back(new typename W::Mgr((uint16_t) w->n, w->arr));
  }
  g_budget = 1000000;
  long nq = 0, nbad = 0;
  std::string first;
  std::vector<int> all;
  for (size_t k = 0; k < lists.size(); k++) for (int z : lists[k]) all.push_back(z);
  for (int round = 0; round < 2; round++) for (int z : all) {
    const ZI* zi = shipped[z];
    uint32_t id = ZONE(zi).zoneId();
    std::string name = (const char*) ZONE(zi).name();
    for (size_t kk = 0; kk <= lists.size(); kk++) {
      size_t k = kk % lists.size();
      int want = -1;
      for (int i = 0; i < ws[k]->n; i++) if (ws[k]->arr[i] == zi) { want = i; break; }
      uint16_t wantu = want < 0 ? (uint16_t) 0xffff : (uint16_t) want;
      g_probes.clear();
      // second round: the manager has first been handed this very zone directly (createForZoneInfo, documented to bypass the
      // registry) and has used it, so that one of its cached processors is bound to it: lookups must still answer from the
      // registry alone
      if (round == 1) { TimeZone byp = mgrs[k]->createForZoneInfo(zi); volatile int32_t sink = byp.getUtcOffset((acetime_t) 1000).toMinutes(); (void) sink; }
      uint16_t ri = regs[k]->findIndexForId(id);
      const ZI* gi = regs[k]->getZoneInfoForId(id);
      uint16_t rn = regs[k]->findIndexForName(name.c_str());
      TimeZone ti = mgrs[k]->createForZoneId(id);
      TimeZone tn = mgrs[k]->createForZoneName(name.c_str());
      uint16_t mi = mgrs[k]->indexForZoneId(id);
      nq += 6;
      bool ok = ri == wantu && rn == wantu && mi == wantu && (want < 0 ? gi == nullptr : gi == zi)
          && (want < 0 ? (ti.isError() && tn.isError()) : (!ti.isError() && !tn.isError() && ti.getZoneId() == id && tn.getZoneId() == id));
      if (!ok) {
        nbad++;
        if (first.empty()) {
          char b[256];
          snprintf(b, sizeof b, "{\"zone\":%s,\"registry\":%d,\"want\":%d,\"byId\":%u,\"byName\":%u,\"mgrIndex\":%u,\"tzErr\":[%d,%d]}", jstr(name.c_str()).c_str(), (int) k, want, (unsigned) ri, (unsigned) rn, (unsigned) mi, (int) ti.isError(), (int) tn.isError());
          first = b;
        }
      }
    }
  }
  printf("{\"multi\":1,\"nq\":%ld,\"nbad\":%ld,\"first\":%s}\n", nq, nbad, first.empty() ? "null" : first.c_str());
  fflush(stdout);
}

static std::string unhex(const char* h) {
  std::string s;
  for (; h[0] && h[1] && h[0] != '\n'; h += 2) { char t[3] = { h[0], h[1], 0 }; s.push_back((char) strtol(t, nullptr, 16)); }
  return s;
}

int main() {
  static char line[1 << 16];
  std::vector<int> idx;
  bool basic = true;
  while (fgets(line, sizeof line, stdin)) {
    size_t L = strlen(line);
    while (L && (line[L - 1] == '\n' || line[L - 1] == '\r')) line[--L] = 0;
    if (line[0] == 'R') {
      char kind[16]; static char lst[1 << 16];
      lst[0] = 0;
      sscanf(line, "R %15s %65535s", kind, lst);
      basic = !strcmp(kind, "basic");
      idx.clear();
      if (strcmp(lst, "-")) for (char* t = strtok(lst, ","); t; t = strtok(nullptr, ",")) idx.push_back(atoi(t));
      continue;
    }
    if (line[0] == 'M') {
      char kind[16]; static char lst[1 << 16];
      lst[0] = 0;
      sscanf(line, "M %15s %65535s", kind, lst);
      std::vector<std::vector<int>> lists;
      char* save1 = nullptr;
      for (char* part = strtok_r(lst, ";", &save1); part; part = strtok_r(nullptr, ";", &save1)) {
        std::vector<int> one;
        char* save2 = nullptr;
        if (strcmp(part, "-")) for (char* t = strtok_r(part, ",", &save2); t; t = strtok_r(nullptr, ",", &save2)) one.push_back(atoi(t));
        lists.push_back(one);
      }
      fflush(stdout);
      pid_t pid = fork();
      if (pid == 0) {
        alarm(20);
        if (!strcmp(kind, "basic")) multi<basic::ZoneInfo, basic::ZoneRegistryBroker, basic::ZoneInfoBroker, BasicZone, BasicZoneProcessorCache<1>>(zonedb::kZoneRegistry, lists);
        else multi<extended::ZoneInfo, extended::ZoneRegistryBroker, extended::ZoneInfoBroker, ExtendedZone, ExtendedZoneProcessorCache<1>>(zonedbx::kZoneRegistry, lists);
        _exit(0);
      }
      int status = 0;
      waitpid(pid, &status, 0);
      if (!(status != -1 && WIFEXITED(status) && WEXITSTATUS(status) == 0)) { printf("{\"multi\":1,\"crash\":%d}\n", status); fflush(stdout); }
      continue;
    }
    if (line[0] != 'N' && line[0] != 'I' && line[0] != 'X') continue;
    char kind = line[0];
    static int abnormal = 0;
    if (abnormal >= 3) { puts("{\"skipped\":1}"); fflush(stdout); continue; }   // enough evidence; do not wait for every hang
    std::string arg = (kind == 'N') ? unhex(line + 2) : std::string(line + 2);
    fflush(stdout);
    pid_t pid = fork();
    if (pid == 0) {
      alarm(3);   // watchdog: a lookup that neither finishes nor exceeds the probe budget
      if (basic) { World<basic::ZoneInfo, basic::ZoneRegistryBroker, basic::ZoneInfoBroker, BasicZone, BasicZoneProcessorCache<1>> w(zonedb::kZoneRegistry, idx); w.query(kind, arg); }
      else { World<extended::ZoneInfo, extended::ZoneRegistryBroker, extended::ZoneInfoBroker, ExtendedZone, ExtendedZoneProcessorCache<1>> w(zonedbx::kZoneRegistry, idx); w.query(kind, arg); }
      _exit(0);
    }
    int status = 0;
    waitpid(pid, &status, 0);
    if (!(status != -1 && WIFEXITED(status) && WEXITSTATUS(status) == 0)) { abnormal++; printf("{\"crash\":%d}\n", status); fflush(stdout); }
  }
  return 0;
}
