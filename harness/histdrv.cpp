// Interpreter of call histories against the real TimeZone / ZoneProcessor /
// ZoneManager classes (DESIGN.md patterns P1 and P2; properties C08, C09-i).
//
// stdin:
//   S <id> <basic|extended> <K>            start a script; K = manager cache size (0 = none)
//   C <d|m> <zoneIndex> <proc> <op> <arg>  one public call on a direct (processor `proc`, 1-based) or managed handle
//   E                                      end of script: it is run in a forked child
// ops: utc delta abbrev odt print printshort ; arg = epoch seconds (for odt: the wall time
// LocalDateTime::forEpochSeconds(arg))
// stdout, one JSON line per script:
//   {"id":..,"steps":[{"ans":..,"fresh":..,"used":p,"state":[[bound,year,filled],..],"rr":n},..]}
//   or {"id":..,"crash":<status>,"done":<steps completed>}
// Each answer is compared with the answer of a freshly constructed time zone (own
// processor / own manager) for the same zone and argument: the property's oracle.
#include <stdio.h>
#include <stdlib.h>
#include <string.h>
#include <string>
#include <vector>
#include <unistd.h>
#include <sys/wait.h>
#define private public
#define protected public
#include "drv_common.h"
#undef private
#undef protected
using namespace ace_time;

Print VerifSerial;
extern "C" unsigned long millis() { return 0; }

struct Call { char hk; int zi; int proc; std::string op; long arg; };

static std::string fmt_odt(const OffsetDateTime& o) {
  if (o.isError()) return "err";
  char b[96];
  snprintf(b, sizeof b, "%d-%02d-%02dT%02d:%02d:%02d%+d", o.year(), o.month(), o.day(), o.hour(), o.minute(), o.second(), o.timeOffset().toMinutes());
  return b;
}

static std::string do_op(const TimeZone& tz, const std::string& op, long arg) {
  char b[64];
  if (op == "utc") { TimeOffset t = tz.getUtcOffset((acetime_t) arg); if (t.isError()) return "err"; snprintf(b, sizeof b, "%d", t.toMinutes()); return b; }
  if (op == "delta") { TimeOffset t = tz.getDeltaOffset((acetime_t) arg); if (t.isError()) return "err"; snprintf(b, sizeof b, "%d", t.toMinutes()); return b; }
  if (op == "abbrev") { const char* a = tz.getAbbrev((acetime_t) arg); return a ? (*a ? std::string(a) : std::string("err")) : std::string("<null>"); }
  if (op == "odt") { LocalDateTime ldt = LocalDateTime::forEpochSeconds((acetime_t) arg); return fmt_odt(tz.getOffsetDateTime(ldt)); }
  if (op == "print") { Print p; tz.printTo(p); return p.buf; }
  if (op == "printshort") { Print p; tz.printShortTo(p); return p.buf; }
  if (op == "zdt") { ZonedDateTime z = ZonedDateTime::forEpochSeconds((acetime_t) arg, tz); if (z.isError()) return "err"; Print p; z.printTo(p); return p.buf; }
  return "?";
}

template <typename ZP> struct ProcView;
template <> struct ProcView<ExtendedZoneProcessor> {
  static long year(const ExtendedZoneProcessor& p) { return p.mYear; }
  static bool filled(const ExtendedZoneProcessor& p) { return p.mIsFilled; }
};
template <> struct ProcView<BasicZoneProcessor> {
  static long year(const BasicZoneProcessor& p) { return p.mYearTiny == LocalDate::kInvalidYearTiny ? 0 : p.mYearTiny + 2000; }
  static bool filled(const BasicZoneProcessor& p) { return p.mIsFilled; }
};

template <typename ZI, typename ZP, typename ZONE>
static std::string proc_state(const ZP& p) {
  const ZI* zi = (const ZI*) p.getZoneInfo();
  std::string name = zi ? std::string((const char*) ZONE(zi).name()) : std::string("-");
  char b[64];
  snprintf(b, sizeof b, ",%ld,%d]", ProcView<ZP>::year(p), (int) ProcView<ZP>::filled(p));
  return "[" + jstr(name.c_str()) + b;
}

static const int ND = 2;

template <typename ZI, typename ZP, typename ZONE, typename MGR, int K>
static void run_script(const std::vector<Call>& calls, const ZI* const* registry, int n, const std::string& id) {
  ZP direct[ND];
  MGR mgr((uint16_t) n, registry);
  printf("{\"id\":%s,\"steps\":[", jstr(id.c_str()).c_str());
  for (size_t i = 0; i < calls.size(); i++) {
    const Call& c = calls[i];
    const ZI* zi = registry[c.zi];
    TimeZone tz = (c.hk == 'd') ? TimeZone::forZoneInfo(zi, &direct[c.proc - 1]) : mgr.createForZoneInfo(zi);
    std::string ans = do_op(tz, c.op, c.arg);
    // oracle: a freshly constructed time zone with its own processor / manager
    std::string fresh;
    if (c.hk == 'd') { ZP fp; TimeZone ftz = TimeZone::forZoneInfo(zi, &fp); fresh = do_op(ftz, c.op, c.arg); }
    else { MGR fm((uint16_t) n, registry); TimeZone ftz = fm.createForZoneInfo(zi); fresh = do_op(ftz, c.op, c.arg); }
    std::string st = "[";
    for (int p = 0; p < ND; p++) { if (p) st += ","; st += proc_state<ZI, ZP, ZONE>(direct[p]); }
    for (int s = 0; s < K; s++) { st += ","; st += proc_state<ZI, ZP, ZONE>(mgr.mZoneProcessorCache.mZoneProcessors[s]); }
    st += "]";
    printf("%s{\"ans\":%s,\"fresh\":%s,\"state\":%s,\"rr\":%d}", i ? "," : "", jstr(ans.c_str()).c_str(), jstr(fresh.c_str()).c_str(),
        st.c_str(), (int) mgr.mZoneProcessorCache.mCurrentIndex);
    fflush(stdout);
  }
  printf("]}\n");
  fflush(stdout);
}

template <typename ZI, typename ZP, typename ZONE, template <uint16_t> class MGR>
static void run_k(int K, const std::vector<Call>& calls, const ZI* const* registry, int n, const std::string& id) {
  switch (K) {
    case 0:
    case 1: run_script<ZI, ZP, ZONE, MGR<1>, 1>(calls, registry, n, id); break;
    case 2: run_script<ZI, ZP, ZONE, MGR<2>, 2>(calls, registry, n, id); break;
    case 3: run_script<ZI, ZP, ZONE, MGR<3>, 3>(calls, registry, n, id); break;
    default: run_script<ZI, ZP, ZONE, MGR<4>, 4>(calls, registry, n, id); break;
  }
}

int main() {
  char line[512];
  std::vector<Call> calls;
  std::string id, kind;
  int K = 0;
  while (fgets(line, sizeof line, stdin)) {
    if (line[0] == 'S') {
      char a[128], b[32];
      if (sscanf(line, "S %127s %31s %d", a, b, &K) != 3) return 2;
      id = a; kind = b; calls.clear();
    } else if (line[0] == 'C') {
      Call c; char hk; char op[32];
      if (sscanf(line, "C %c %d %d %31s %ld", &hk, &c.zi, &c.proc, op, &c.arg) != 5) return 2;
      c.hk = hk; c.op = op; calls.push_back(c);
    } else if (line[0] == 'E') {
      fflush(stdout);
      pid_t pid = fork();
      if (pid == 0) {
        if (kind == "basic") run_k<basic::ZoneInfo, BasicZoneProcessor, BasicZone, BasicZoneManager>(K, calls, zonedb::kZoneRegistry, zonedb::kZoneRegistrySize, id);
        else run_k<extended::ZoneInfo, ExtendedZoneProcessor, ExtendedZone, ExtendedZoneManager>(K, calls, zonedbx::kZoneRegistry, zonedbx::kZoneRegistrySize, id);
        _exit(0);
      }
      int status = 0;
      waitpid(pid, &status, 0);
      if (!(WIFEXITED(status) && WEXITSTATUS(status) == 0)) {
        printf("\n{\"id\":%s,\"crash\":%d}\n", jstr(id.c_str()).c_str(), status);
        fflush(stdout);
      }
    }
  }
  return 0;
}
