// Calendar / rule-day driver (properties C06, C18; DESIGN.md P4).
//   caldrv days                     one line per epoch day 1873-01-01..2127-12-31:
//        d y m day dow leap dim | next(y m d) | prev(y m d) | toEpochDays | harness-civil(y m d)
//   caldrv instants <t0> <t1> <stride>   LocalDateTime/LocalDate forEpochSeconds vs day-table composition
//   caldrv triples                  all 2^24 (h,m,s): LocalTime::isError vs the validity predicate; class table
//   caldrv ruleday <y0> <y1>        y m dow dom -> calcStartDayOfMonth (month day) for every expression
#include "drv_common.h"
#include <ace_time/common/DateStrings.h>
using namespace ace_time;
Print VerifSerial;
extern "C" unsigned long millis() { return 0; }

static bool valid_time(int h, int m, int s) { return (h <= 23 && m <= 59 && s <= 59) || (h == 24 && m == 0 && s == 0); }

int main(int argc, char** argv) {
  if (argc < 2) return 2;
  std::string cmd = argv[1];
  if (cmd == "days") {
    long lo = days_from_civil(1873, 1, 1), hi = days_from_civil(2127, 12, 31);
    for (long d = lo; d <= hi; d++) {
      LocalDate ld = LocalDate::forEpochDays((acetime_t) d);
      LocalDate nx = ld; local_date_mutation::incrementOneDay(nx);
      LocalDate pv = ld; local_date_mutation::decrementOneDay(pv);
      Civil c = civil_from_days(d);
      printf("%ld %d %d %d %d %d %d %d %d %d %d %d %d %ld %ld %d %d %d %d %d\n", d, ld.year(), ld.month(), ld.day(), ld.dayOfWeek(),
          (int) LocalDate::isLeapYear(ld.year()), (int) LocalDate::daysInMonth(ld.year(), ld.month()),
          nx.year(), nx.month(), nx.day(), pv.year(), pv.month(), pv.day(),
          (long) ld.toEpochDays(), c.y, c.m, c.d, (int) ld.isError(),
          (int) (LocalDate::forUnixDays((acetime_t) (d + 10957)).toEpochDays() == d && ld.toUnixDays() == d + 10957),
          (int) (LocalDate::forComponents(ld.year(), ld.month(), ld.day()).toEpochDays() == d));
    }
    return 0;
  }
  if (cmd == "dayorder") {
    // the same conversions in other orders than ascending: descending, every day followed by the day 65536 earlier / later
    // (the two share their low 16 bits), and a fixed pseudo-random permutation -- the answer may not depend on the call before
    long lo = days_from_civil(1873, 1, 1), hi = days_from_civil(2127, 12, 31), n = 0, bad = 0;
    auto probe = [&](long d) {
      if (d < lo || d > hi) return;
      LocalDate ld = LocalDate::forEpochDays((acetime_t) d);
      Civil c = civil_from_days(d);
      n++;
      if (ld.isError() || ld.year() != c.y || ld.month() != c.m || ld.day() != c.d || (long) ld.toEpochDays() != d) {
        if (bad < 20) printf("{\"d\":%ld,\"got\":[%d,%d,%d],\"want\":[%ld,%d,%d]}\n", d, ld.year(), ld.month(), ld.day(), c.y, c.m, c.d);
        bad++;
      }
      LocalDate ud = LocalDate::forUnixDays((acetime_t) (d + 10957));
      if ((long) ud.toEpochDays() != d) { if (bad < 20) printf("{\"d\":%ld,\"unix\":%ld}\n", d, (long) ud.toEpochDays()); bad++; }
      // (only where the day is reachable through epoch seconds: no other conversion may come between two probes, or a
      //  dependence of one answer on the call before it would be masked)
      if (d >= -24855 && d <= 24855) {
        LocalDate es = LocalDate::forEpochSeconds((acetime_t) (d * 86400 + 77));
        if ((long) es.toEpochDays() != d) { if (bad < 20) printf("{\"d\":%ld,\"viaSeconds\":%ld}\n", d, (long) es.toEpochDays()); bad++; }
      }
    };
    for (long d = hi; d >= lo; d--) probe(d);
    for (long d = lo; d <= hi; d++) { probe(d); probe(d - 65536); probe(d); probe(d + 65536); probe(d - 32768); probe(d + 256); }
    unsigned long x = 12345;
    for (long k = 0; k < 400000; k++) { x = x * 6364136223846793005UL + 1442695040888963407UL; probe(lo + (long) ((x >> 33) % (unsigned long) (hi - lo + 1))); }
    printf("{\"done\":1,\"n\":%ld,\"bad\":%ld}\n", n, bad);
    return 0;
  }
  if (cmd == "instants" && argc >= 5) {
    long t0 = atol(argv[2]), t1 = atol(argv[3]), stride = atol(argv[4]);
    long n = 0, bad = 0;
    auto check = [&](long t) {
      if (t == (long) INT32_MIN) return;
      n++;
      LocalDateTime dt = LocalDateTime::forEpochSeconds((acetime_t) t);
      long day = floordiv(t, 86400), sod = floormod(t, 86400);
      Civil c = civil_from_days(day);
      bool ok = !dt.isError() && dt.year() == c.y && dt.month() == c.m && dt.day() == c.d
          && dt.hour() == sod / 3600 && dt.minute() == (sod % 3600) / 60 && dt.second() == sod % 60
          && dt.month() >= 1 && dt.month() <= 12 && dt.day() >= 1 && dt.day() <= LocalDate::daysInMonth(dt.year(), dt.month())
          && dt.hour() <= 23 && dt.minute() <= 59 && dt.second() <= 59
          && (long) dt.toEpochSeconds() == t;
      LocalDate ld = LocalDate::forEpochSeconds((acetime_t) t);
      ok = ok && !ld.isError() && ld.year() == c.y && ld.month() == c.m && ld.day() == c.d;
      if (!ok) { if (bad < 20) printf("{\"t\":%ld,\"got\":[%d,%d,%d,%d,%d,%d,%ld,%d],\"want\":[%ld,%d,%d,%ld,%ld,%ld]}\n", t, dt.year(), dt.month(), dt.day(), dt.hour(), dt.minute(), dt.second(), (long) dt.toEpochSeconds(), (int) dt.isError(), c.y, c.m, c.d, sod / 3600, (sod % 3600) / 60, sod % 60); bad++; }
    };
    for (long t = t0; t < t1; t += stride) check(t);
    // an offset date-time reports the day count of its *instant*: at, just before and just after every UTC midnight, for
    // offsets on both sides of Greenwich
    {
      static const int offs[] = {-720, -120, -1, 0, 1, 330, 840};
      for (long day = floordiv(t0, 86400) + 1; day * 86400 < t1 - 2; day += (stride > 1 ? 1 : 1)) for (long d = -1; d <= 1; d++) for (int om : offs) {
        long t = day * 86400 + d;
        if (t <= (long) INT32_MIN + 86400 || t >= (long) INT32_MAX - 86400) continue;
        OffsetDateTime odt = OffsetDateTime::forEpochSeconds((acetime_t) t, TimeOffset::forMinutes((int16_t) om));
        n++;
        if (odt.isError() || (long) odt.toEpochDays() != floordiv(t, 86400) || (long) odt.toEpochSeconds() != t) {
          if (bad < 20) printf("{\"t\":%ld,\"offsetMinutes\":%d,\"toEpochDays\":%ld,\"want\":%ld}\n", t, om, (long) odt.toEpochDays(), floordiv(t, 86400));
          bad++;
        }
      }
    }
    if (stride > 1) {
      // every day boundary and its neighbours inside [t0, t1)
      for (long day = floordiv(t0, 86400); day * 86400 < t1; day++) for (long d = -2; d <= 2; d++) { long t = day * 86400 + d; if (t >= t0 && t < t1) check(t); }
    }
    printf("{\"done\":1,\"n\":%ld,\"bad\":%ld}\n", n, bad);
    return 0;
  }
  if (cmd == "triples") {
    long bad = 0, nvalid = 0;
    for (int h = 0; h < 256; h++) for (int m = 0; m < 256; m++) for (int s = 0; s < 256; s++) {
      LocalTime t = LocalTime::forComponents((uint8_t) h, (uint8_t) m, (uint8_t) s);
      bool v = valid_time(h, m, s);
      nvalid += !t.isError();
      if (t.isError() == v) { if (bad < 20) printf("{\"h\":%d,\"m\":%d,\"s\":%d,\"isError\":%d}\n", h, m, s, (int) t.isError()); bad++; }
      if (v && !(h == 24)) { if (t.toSeconds() != h * 3600 + m * 60 + s) { if (bad < 20) printf("{\"h\":%d,\"m\":%d,\"s\":%d,\"toSeconds\":%ld}\n", h, m, s, (long) t.toSeconds()); bad++; } }
    }
    // dates: every (month, day) byte pair x boundary years -- isError() is exactly the documented component-range contract
    // (year 1873..2127, month 1..12, day 1..31), for LocalDate and for the date part of LocalDateTime / OffsetDateTime
    {
      static const int years[] = {-32768, 0, 1872, 1873, 1999, 2000, 2100, 2127, 2128, 32767};
      for (int y : years) for (int mo = 0; mo < 256; mo++) for (int d = 0; d < 256; d++) {
        bool v = y >= 1873 && y <= 2127 && mo >= 1 && mo <= 12 && d >= 1 && d <= 31;
        LocalDate ld = LocalDate::forComponents((int16_t) y, (uint8_t) mo, (uint8_t) d);
        LocalDateTime ldt = LocalDateTime::forComponents((int16_t) y, (uint8_t) mo, (uint8_t) d, 12, 0, 0);
        OffsetDateTime odt = OffsetDateTime::forComponents((int16_t) y, (uint8_t) mo, (uint8_t) d, 12, 0, 0, TimeOffset::forHours(1));
        if (ld.isError() == v || ldt.isError() == v || odt.isError() == v) {
          if (bad < 20) printf("{\"y\":%d,\"month\":%d,\"day\":%d,\"isError\":[%d,%d,%d]}\n", y, mo, d, (int) ld.isError(), (int) ldt.isError(), (int) odt.isError());
          bad++;
        }
        if (!v && (ld.toEpochDays() != LocalDate::kInvalidEpochDays || ldt.toEpochSeconds() != LocalDate::kInvalidEpochSeconds)) {
          if (bad < 20) printf("{\"y\":%d,\"month\":%d,\"day\":%d,\"toEpochDays\":%ld}\n", y, mo, d, (long) ld.toEpochDays());
          bad++;
        }
      }
    }
    // the *names* under which the day of the week and the month are reported
    {
      static const char* dn[] = {"Monday", "Tuesday", "Wednesday", "Thursday", "Friday", "Saturday", "Sunday"};
      static const char* mn[] = {"January", "February", "March", "April", "May", "June", "July", "August", "September", "October", "November", "December"};
      DateStrings ds;
      for (int k = 1; k <= 7; k++) {
        std::string lg = ds.dayOfWeekLongString((uint8_t) k); std::string sh = ds.dayOfWeekShortString((uint8_t) k);
        if (lg != dn[k - 1] || sh != std::string(dn[k - 1]).substr(0, 3)) { if (bad < 20) printf("{\"dayOfWeekName\":%d,\"long\":\"%s\",\"short\":\"%s\"}\n", k, lg.c_str(), sh.c_str()); bad++; }
        // 2000-01-03 was a Monday
        LocalDate ld = LocalDate::forComponents(2000, 1, (uint8_t) (2 + k));
        Print p; ld.printTo(p);
        if (p.buf.find(dn[k - 1]) == std::string::npos) { if (bad < 20) printf("{\"printedDate\":\"%s\",\"wantName\":\"%s\"}\n", p.buf.c_str(), dn[k - 1]); bad++; }
      }
      for (int k = 1; k <= 12; k++) {
        std::string lg = ds.monthLongString((uint8_t) k); std::string sh = ds.monthShortString((uint8_t) k);
        if (lg != mn[k - 1] || sh != std::string(mn[k - 1]).substr(0, 3)) { if (bad < 20) printf("{\"monthName\":%d,\"long\":\"%s\",\"short\":\"%s\"}\n", k, lg.c_str(), sh.c_str()); bad++; }
      }
    }
    // class table for the cross-check of the predicate used above against TLC's
    static const int cls[] = {0, 1, 58, 59, 60, 61, 255};
    printf("{\"classes\":[");
    bool first = true;
    for (int h = 0; h < 256; h++) for (int m : cls) for (int s : cls) {
      printf("%s[%d,%d,%d,%d]", first ? "" : ",", h, m, s, (int) !LocalTime::forComponents((uint8_t) h, (uint8_t) m, (uint8_t) s).isError());
      first = false;
    }
    printf("],\"n\":16777216,\"nvalid\":%ld,\"bad\":%ld}\n", nvalid, bad);
    return 0;
  }
  if (cmd == "ruleday" && argc >= 4) {
    int y0 = atoi(argv[2]), y1 = atoi(argv[3]);
    for (int y = y0; y <= y1; y++) for (int m = 1; m <= 12; m++) {
      int dim = LocalDate::daysInMonth((int16_t) y, (uint8_t) m);
      for (int dow = 1; dow <= 7; dow++) for (int dom = -31; dom <= 31; dom++) {
        if (dom > dim || -dom > dim) continue;
        // expressions the compiler rejects (they may leave the year) are never given to the runtime
        if ((m == 12 && dom >= 26) || (m == 1 && dom < 0 && dom >= -7)) continue;
        basic::MonthDay md = BasicZoneProcessor::calcStartDayOfMonth((int16_t) y, (uint8_t) m, (uint8_t) dow, (int8_t) dom);
        printf("%d %d %d %d %d %d\n", y, m, dow, dom, md.month, md.day);
      }
    }
    return 0;
  }
  return 2;
}
