// Reads back the C++ validation tables rendered by tools/validation/arvalgenerator.py (property C19, last clause).
// The generated validation_data.h/.cpp are compiled in (include path given by the check); VALREAD_LIST expands to
// one V(sym, "zone") per zone.
#include <stdio.h>
#include <string>
#include <ace_time/testing/ValidationDataType.h>
#include "validation_data.h"
using namespace ace_time;
static std::string js(const char* s) { if (!s) return "null"; std::string o = "\""; for (; *s; s++) { if (*s == '"' || *s == '\\') o.push_back('\\'); o.push_back(*s); } return o + "\""; }
int main() {
  bool first = true;
  printf("{");
#define V(sym, name) { printf("%s\"%s\":[", first ? "" : ",", name); first = false; \
    for (int i = 0; i < VALNS::sym.numItems; i++) { const testing::ValidationItem& it = VALNS::sym.items[i]; \
      printf("%s[%ld,%d,%d,%d,%d,%d,%d,%d,%d,%s,\"%c\"]", i ? "," : "", (long) it.epochSeconds, it.timeOffsetMinutes, it.deltaOffsetMinutes, it.year, it.month, it.day, it.hour, it.minute, it.second, js(it.abbrev).c_str(), (it.type >= 32 && it.type < 127 && it.type != '"' && it.type != '\\') ? it.type : '?'); } \
    printf("]"); }
#include "valread_list.inc"
  printf("}\n");
  return 0;
}
