// TimePeriod / TimeOffset / mutation helpers driver (property C17; DESIGN.md P4).
//   perdrv periods            every second count -921599..921599 through the real TimePeriod: self-checks + rows on a stride
//   perdrv tables <stride>    rows "period s sign h m s", "hm h m mins h' m'", "inc15 m m'", "byte b hour minute month day year"
#include "drv_common.h"
using namespace ace_time;
Print VerifSerial;
extern "C" unsigned long millis() { return 0; }

int main(int argc, char** argv) {
  if (argc < 2) return 2;
  std::string cmd = argv[1];
  if (cmd == "periods") {
    long bad = 0, n = 0;
    for (long s = -921599; s <= 921599; s++) {
      TimePeriod p((int32_t) s);
      n++;
      bool ok = p.toSeconds() == s && p.minute() < 60 && p.second() < 60 && (p.sign() == 1 || p.sign() == -1) && (s >= 0 ? p.sign() == 1 : p.sign() == -1);
      TimePeriod q = p; time_period_mutation::negate(q);
      ok = ok && q.toSeconds() == -s && q.hour() == p.hour() && q.minute() == p.minute() && q.second() == p.second();
      // ordering by signed length against neighbours and extremes
      static const long others[] = {-921599, -1, 0, 1, 921599};
      for (long t : others) { TimePeriod o((int32_t) t); int c = p.compareTo(o); ok = ok && c == (s < t ? -1 : s == t ? 0 : 1); }
      if (s < 921599) { TimePeriod o((int32_t) (s + 1)); ok = ok && p.compareTo(o) == -1 && o.compareTo(p) == 1 && !(p == o); }
      TimePeriod same((int32_t) s); ok = ok && p.compareTo(same) == 0 && p == same;
      if (!ok) { if (bad < 20) printf("{\"s\":%ld,\"fields\":[%d,%d,%d,%d],\"toSeconds\":%ld}\n", s, p.sign(), p.hour(), p.minute(), p.second(), (long) p.toSeconds()); bad++; }
    }
    // periods built from components with either sign (incl. a negative zero) are ordered by signed length too
    static const int comps[][3] = {{0, 0, 0}, {0, 0, 1}, {0, 1, 0}, {1, 0, 0}, {23, 59, 59}, {255, 59, 59}};
    for (auto& a : comps) for (int sa = -1; sa <= 1; sa += 2) for (auto& b : comps) for (int sb = -1; sb <= 1; sb += 2) {
      TimePeriod p((uint8_t) a[0], (uint8_t) a[1], (uint8_t) a[2], (int8_t) sa), q((uint8_t) b[0], (uint8_t) b[1], (uint8_t) b[2], (int8_t) sb);
      long ps = p.toSeconds(), qs = q.toSeconds();
      n++;
      int want = ps < qs ? -1 : ps == qs ? 0 : 1;
      TimePeriod np = p; time_period_mutation::negate(np);
      bool ok = p.compareTo(q) == want && q.compareTo(p) == -want && np.toSeconds() == -ps && np.compareTo(TimePeriod((int32_t) -ps)) == 0;
      if (!ok) { if (bad < 20) printf("{\"s\":%ld,\"fields\":[%d,%d,%d,%d],\"toSeconds\":%ld,\"other\":%ld,\"compareTo\":%d}\n", ps, p.sign(), p.hour(), p.minute(), p.second(), ps, qs, (int) p.compareTo(q)); bad++; }
    }
    printf("{\"done\":1,\"n\":%ld,\"bad\":%ld}\n", n, bad);
    return 0;
  }
  if (cmd == "tables" && argc >= 3) {
    long stride = atol(argv[2]);
    for (long s = -921599; s <= 921599; s += stride) { TimePeriod p((int32_t) s); printf("period %ld %d %d %d %d\n", s, p.sign(), p.hour(), p.minute(), p.second()); }
    static const long sp[] = {-921599, -921598, -918000, -3600, -61, -60, -59, -1, 0, 1, 59, 60, 61, 3599, 3600, 86399, 86400, 917999, 918000, 921598, 921599};
    for (long s : sp) { TimePeriod p((int32_t) s); printf("period %ld %d %d %d %d\n", s, p.sign(), p.hour(), p.minute(), p.second()); }
    for (int h = -128; h <= 127; h++) for (int m = -59; m <= 59; m++) {
      if (!((h >= 0 && m >= 0) || (h <= 0 && m <= 0))) continue;
      TimeOffset o = TimeOffset::forHourMinute((int8_t) h, (int8_t) m);
      int8_t hh, mm; o.toHourMinute(hh, mm);
      printf("hm %d %d %d %d %d %ld\n", h, m, o.toMinutes(), hh, mm, (long) o.toSeconds());
    }
    for (int m = -960; m <= 960; m++) { TimeOffset o = TimeOffset::forMinutes((int16_t) m); time_offset_mutation::increment15Minutes(o); printf("inc15 %d %d\n", m, o.toMinutes()); }
    for (int b = 0; b < 256; b++) {
      TimePeriod p((uint8_t) b, (uint8_t) b, 0, 1);
      time_period_mutation::incrementHour(p); time_period_mutation::incrementMinute(p);
      ZonedDateTime z = ZonedDateTime::forComponents(2000, 1, 1, 0, 0, 0, TimeZone::forUtc());
      z.yearTiny((int8_t) b); z.month((uint8_t) b); z.day((uint8_t) b); z.hour((uint8_t) b); z.minute((uint8_t) b);
      zoned_date_time_mutation::incrementMonth(z); zoned_date_time_mutation::incrementDay(z);
      zoned_date_time_mutation::incrementHour(z); zoned_date_time_mutation::incrementMinute(z);
      int year = 999;
      if ((int8_t) b != 127) { ZonedDateTime y = z; y.yearTiny((int8_t) b); zoned_date_time_mutation::incrementYear(y); year = y.yearTiny(); }
      printf("byte %d %d %d %d %d %d %d %d\n", b, p.hour(), p.minute(), z.month(), z.day(), year, z.hour(), z.minute());
    }
    return 0;
  }
  if (cmd == "helpers") {
    // the increment helper with an explicit modulus, on the whole product (limit, hour): rows "hl limit hour result"
    for (int limit = 1; limit < 256; limit++) for (int h = 0; h < 256; h++) {
      TimePeriod p((uint8_t) h, 0, 0, 1);
      time_period_mutation::incrementHour(p, (uint8_t) limit);
      printf("hl %d %d %d\n", limit, h, p.hour());
    }
    // the one-day date helpers on every day of 1873..2127 against the civil calendar; the other fields of a zoned
    // date-time are left alone by each helper
    long lo = days_from_civil(1873, 1, 1), hi = days_from_civil(2127, 12, 31), bad = 0, n = 0;
    for (long d = lo; d <= hi; d++) {
      Civil c = civil_from_days(d);
      LocalDate ld = LocalDate::forComponents((int16_t) c.y, (uint8_t) c.m, (uint8_t) c.d);
      if (d < hi) {
        LocalDate nx = ld; local_date_mutation::incrementOneDay(nx);
        Civil e = civil_from_days(d + 1); n++;
        if (nx.year() != e.y || nx.month() != e.m || nx.day() != e.d) { if (bad < 20) printf("day inc %ld %d %d %d\n", d, nx.year(), nx.month(), nx.day()); bad++; }
      }
      if (d > lo) {
        LocalDate pv = ld; local_date_mutation::decrementOneDay(pv);
        Civil e = civil_from_days(d - 1); n++;
        if (pv.year() != e.y || pv.month() != e.m || pv.day() != e.d) { if (bad < 20) printf("day dec %ld %d %d %d\n", d, pv.year(), pv.month(), pv.day()); bad++; }
      }
    }
    for (int b = 0; b < 256; b++) {
      // each zoned helper changes its own field only
      ZonedDateTime z = ZonedDateTime::forComponents(2011, 7, 17, 5, 43, 21, TimeZone::forUtc());
      ZonedDateTime a = z; a.month((uint8_t) b); ZonedDateTime a2 = a; zoned_date_time_mutation::incrementMonth(a2);
      ZonedDateTime c2 = z; c2.day((uint8_t) b); ZonedDateTime c3 = c2; zoned_date_time_mutation::incrementDay(c3);
      ZonedDateTime h2 = z; h2.hour((uint8_t) b); ZonedDateTime h3 = h2; zoned_date_time_mutation::incrementHour(h3);
      ZonedDateTime m2 = z; m2.minute((uint8_t) b); ZonedDateTime m3 = m2; zoned_date_time_mutation::incrementMinute(m3);
      ZonedDateTime y2 = z; if ((int8_t) b != 127 && (int8_t) b >= 0) { y2.yearTiny((int8_t) b); } ZonedDateTime y3 = y2; zoned_date_time_mutation::incrementYear(y3);
      bool ok = a2.year() == 2011 && a2.day() == 17 && a2.hour() == 5 && a2.minute() == 43 && a2.second() == 21
          && c3.year() == 2011 && c3.month() == 7 && c3.hour() == 5 && c3.minute() == 43 && c3.second() == 21
          && h3.year() == 2011 && h3.month() == 7 && h3.day() == 17 && h3.minute() == 43 && h3.second() == 21
          && m3.year() == 2011 && m3.month() == 7 && m3.day() == 17 && m3.hour() == 5 && m3.second() == 21
          && y3.month() == 7 && y3.day() == 17 && y3.hour() == 5 && y3.minute() == 43 && y3.second() == 21;
      n++;
      if (!ok) { if (bad < 20) printf("other-fields %d\n", b); bad++; }
      TimePeriod p(7, 8, 9, -1);
      p.hour((uint8_t) b); TimePeriod p2 = p; time_period_mutation::incrementHour(p2);
      TimePeriod q(7, 8, 9, -1); q.minute((uint8_t) b); TimePeriod q2 = q; time_period_mutation::incrementMinute(q2);
      if (p2.minute() != 8 || p2.second() != 9 || p2.sign() != -1 || q2.hour() != 7 || q2.second() != 9 || q2.sign() != -1) { if (bad < 20) printf("other-fields-period %d\n", b); bad++; }
    }
    printf("done %ld %ld\n", n, bad);
    return 0;
  }
  return 2;
}
