// ISO-8601 print / parse driver (property C15; DESIGN.md P4).
//   isodrv tables <daystep> <secstep>   rows matching MC_Iso8601's dump: printed date / time / offset texts
//   isodrv roundtrip <daystep>          print -> parse round trips of local / offset / zoned date-times, placeholders, short strings
#include "drv_common.h"
using namespace ace_time;
Print VerifSerial;
extern "C" unsigned long millis() { return 0; }

static long nfail = 0;
static void fail(const char* what, const std::string& text, long a, long b) {
  if (nfail < 40) printf("{\"fail\":%s,\"text\":%s,\"a\":%ld,\"b\":%ld}\n", jstr(what).c_str(), jstr(text.c_str()).c_str(), a, b);
  nfail++;
}
template <typename T> static std::string pr(const T& x) { Print p; x.printTo(p); return p.buf; }

int main(int argc, char** argv) {
  if (argc < 3) return 2;
  std::string cmd = argv[1];
  if (cmd == "tables" && argc >= 4) {
    int daystep = atoi(argv[2]), secstep = atoi(argv[3]);
    for (int y = 1873; y <= 2127; y++) for (int m = 1; m <= 12; m++) for (int d = 1; d <= LocalDate::daysInMonth((int16_t) y, (uint8_t) m); d++) {
      if ((y * 372 + m * 31 + d) % daystep) continue;
      std::string t = pr(LocalDateTime::forComponents((int16_t) y, (uint8_t) m, (uint8_t) d, 0, 0, 0));
      printf("date %d %d %d %s\n", y, m, d, t.substr(0, t.find('T')).c_str());
    }
    for (int sod = 0; sod < 86400; sod++) {
      if (sod % secstep) continue;
      printf("time %d %d %d %s\n", sod / 3600, (sod % 3600) / 60, sod % 60, pr(LocalTime::forComponents((uint8_t) (sod / 3600), (uint8_t) ((sod % 3600) / 60), (uint8_t) (sod % 60))).c_str());
    }
    printf("time 23 59 59 %s\n", pr(LocalTime::forComponents(23, 59, 59)).c_str());
    printf("time 24 0 0 %s\n", pr(LocalTime::forComponents(24, 0, 0)).c_str());
    for (int o = -5999; o <= 5999; o++) printf("offset %d %s\n", o, pr(TimeOffset::forMinutes((int16_t) o)).c_str());
    return 0;
  }
  if (cmd == "roundtrip") {
    int daystep = atoi(argv[2]);
    long n = 0;
    static const int offs[] = {-5999, -960, -721, -60, -59, -30, -1, 0, 1, 30, 59, 60, 330, 345, 765, 960, 5999};
    long k = 0;
    for (long day = days_from_civil(1873, 1, 1); day <= days_from_civil(2127, 12, 31); day += daystep, k++) {
      Civil c = civil_from_days(day);
      int sod = (int) ((k * 7919L) % 86400);
      int h = sod / 3600, mi = (sod % 3600) / 60, s = sod % 60;
      LocalDateTime ldt = LocalDateTime::forComponents((int16_t) c.y, (uint8_t) c.m, (uint8_t) c.d, (uint8_t) h, (uint8_t) mi, (uint8_t) s);
      std::string t = pr(ldt);
      char want[64]; snprintf(want, sizeof want, "%04ld-%02d-%02dT%02d:%02d:%02d", c.y, c.m, c.d, h, mi, s);
      n++;
      if (t != want) fail("LocalDateTime printed form", t, day, sod);
      LocalDateTime back = LocalDateTime::forDateString(t.c_str());
      if (back.isError() || !(back == ldt)) fail("LocalDateTime parse(print) differs", t, day, sod);
      LocalDate ld = LocalDate::forDateString(t.substr(0, 10).c_str());
      if (ld.isError() || ld.year() != c.y || ld.month() != c.m || ld.day() != c.d) fail("LocalDate parse differs", t, day, 0);
      LocalTime lt = LocalTime::forTimeString(t.substr(11).c_str());
      if (lt.isError() || lt.hour() != h || lt.minute() != mi || lt.second() != s) fail("LocalTime parse differs", t, day, sod);
      int off = offs[k % (sizeof offs / sizeof offs[0])];
      OffsetDateTime odt = OffsetDateTime::forLocalDateTimeAndOffset(ldt, TimeOffset::forMinutes((int16_t) off));
      std::string ot = pr(odt);
      int ao = off < 0 ? -off : off;
      char ow[64]; snprintf(ow, sizeof ow, "%s%c%02d:%02d", want, off < 0 ? '-' : '+', ao / 60, ao % 60);
      n++;
      if (ot != ow) fail("OffsetDateTime printed form", ot, day, off);
      OffsetDateTime ob = OffsetDateTime::forDateString(ot.c_str());
      if (ob.isError() || !(ob == odt) || ob.timeOffset().toMinutes() != off) fail("OffsetDateTime parse(print) differs", ot, day, off);
      TimeOffset to = TimeOffset::forOffsetString(ot.substr(19).c_str());
      if (to.isError() || to.toMinutes() != off) fail("TimeOffset parse differs", ot, day, off);
    }
    // zoned date-times: same text followed by the bracketed zone name; parses back to the same instant and offset
    BasicZoneProcessor bp; ExtendedZoneProcessor xp;
    for (int pass = 0; pass < 2; pass++) {
      int nz = pass ? zonedbx::kZoneRegistrySize : zonedb::kZoneRegistrySize;
      for (int i = 0; i < nz; i++) {
        TimeZone tz = pass ? TimeZone::forZoneInfo(zonedbx::kZoneRegistry[i], &xp) : TimeZone::forZoneInfo(zonedb::kZoneRegistry[i], &bp);
        const char* name = pass ? (const char*) ExtendedZone(zonedbx::kZoneRegistry[i]).name() : (const char*) BasicZone(zonedb::kZoneRegistry[i]).name();
        static const long ts[] = {0, 86399, 200000000, 250000000, 600000000, 615000000, 1000000000, 1577000000};
        for (long t : ts) {
          ZonedDateTime z = ZonedDateTime::forEpochSeconds((acetime_t) t, tz);
          n++;
          if (z.isError()) { fail("zoned date-time is error", name, t, i); continue; }
          std::string zt = pr(z);
          std::string want = pr(OffsetDateTime::forLocalDateTimeAndOffset(z.localDateTime(), z.timeOffset())) + "[" + name + "]";
          if (zt != want) fail("ZonedDateTime printed form", zt, t, i);
          ZonedDateTime b = ZonedDateTime::forDateString(zt.c_str());
          if (b.isError() || (long) b.toEpochSeconds() != t || b.timeOffset().toMinutes() != z.timeOffset().toMinutes()) fail("ZonedDateTime parse(print) changes instant/offset", zt, t, i);
        }
      }
    }
    // the same with a history: two zones share one processor (and a manager with one slot serves two zones); the zoned
    // date-time of the first is printed only after the second has used the processor
    for (int pass = 0; pass < 2; pass++) {
      int nz = pass ? zonedbx::kZoneRegistrySize : zonedb::kZoneRegistrySize;
      BasicZoneManager<1> bm(zonedb::kZoneRegistrySize, zonedb::kZoneRegistry);
      ExtendedZoneManager<1> xm(zonedbx::kZoneRegistrySize, zonedbx::kZoneRegistry);
      for (int i = 0; i + 1 < nz; i += 2) for (int via = 0; via < 2; via++) {
        TimeZone a = via ? (pass ? xm.createForZoneIndex((uint16_t) i) : bm.createForZoneIndex((uint16_t) i))
                         : (pass ? TimeZone::forZoneInfo(zonedbx::kZoneRegistry[i], &xp) : TimeZone::forZoneInfo(zonedb::kZoneRegistry[i], &bp));
        TimeZone b2 = via ? (pass ? xm.createForZoneIndex((uint16_t) (i + 1)) : bm.createForZoneIndex((uint16_t) (i + 1)))
                          : (pass ? TimeZone::forZoneInfo(zonedbx::kZoneRegistry[i + 1], &xp) : TimeZone::forZoneInfo(zonedb::kZoneRegistry[i + 1], &bp));
        const char* name = pass ? (const char*) ExtendedZone(zonedbx::kZoneRegistry[i]).name() : (const char*) BasicZone(zonedb::kZoneRegistry[i]).name();
        long t = 615000000;
        ZonedDateTime za = ZonedDateTime::forEpochSeconds((acetime_t) t, a);
        std::string first = pr(za);                                                   // (a second use of the first zone: a cache hit)
        ZonedDateTime zb = ZonedDateTime::forEpochSeconds((acetime_t) t, b2);      // the shared processor now serves the other zone
        if (via) { TimeZone c3 = pass ? xm.createForZoneIndex((uint16_t) ((i + 2) % nz)) : bm.createForZoneIndex((uint16_t) ((i + 2) % nz)); ZonedDateTime zc = ZonedDateTime::forEpochSeconds((acetime_t) t, c3); if (zc.isError()) fail("zoned date-time is error (third zone)", name, t, i); }
        n++;
        if (za.isError() || zb.isError()) { fail("zoned date-time is error (shared processor)", name, t, i); continue; }
        std::string zt = pr(za);
        std::string want = pr(OffsetDateTime::forLocalDateTimeAndOffset(za.localDateTime(), za.timeOffset())) + "[" + name + "]";
        if (zt != want) fail("ZonedDateTime printed after another zone used its processor", zt, t, i);
        if (first != want) fail("ZonedDateTime printed form (second use)", first, t, i);
        ZonedDateTime back = ZonedDateTime::forDateString(zt.c_str());
        if (back.isError() || (long) back.toEpochSeconds() != t) fail("ZonedDateTime parse(print) after another zone used its processor", zt, t, i);
      }
    }
    // zoned date-times of manual zones over the whole date range (database zones cover 2000..2050 only): the printed text is
    // the offset date-time's followed by the bracketed zone text, and it parses back -- through either overload -- to the same
    // fields and offset, not merely to the same 32-bit second count
    {
      static const int offs[] = {0, 60, -60, 330, -210, 845, -705, 1, -1};
      for (int y = 1873; y <= 2127; y++) for (int k = 0; k < 3; k++) {
        int mo = (y * 7 + k * 5) % 12 + 1, d = (y * 11 + k * 13) % 28 + 1, h = (y + k * 7) % 24, mi = (y * 3 + k) % 60, sec = (y * 5 + k * 17) % 60;
        if (y == 1873 && k == 0) { mo = 1; d = 1; h = 0; mi = 0; sec = 0; }
        if (y == 2127 && k == 0) { mo = 12; d = 31; h = 23; mi = 59; sec = 59; }
        int off = offs[(y + k) % 9];
        TimeZone tz = TimeZone::forTimeOffset(TimeOffset::forMinutes((int16_t) off));
        ZonedDateTime z = ZonedDateTime::forComponents((int16_t) y, (uint8_t) mo, (uint8_t) d, (uint8_t) h, (uint8_t) mi, (uint8_t) sec, tz);
        n++;
        if (z.isError()) { fail("manual-zone date-time is error", "", y, k); continue; }
        std::string zt = pr(z);
        std::string want = pr(OffsetDateTime::forComponents((int16_t) y, (uint8_t) mo, (uint8_t) d, (uint8_t) h, (uint8_t) mi, (uint8_t) sec, TimeOffset::forMinutes((int16_t) off))) + "[" + pr(tz) + "]";
        if (zt != want) fail("ZonedDateTime (manual zone) printed form", zt, y, k);
        for (int via = 0; via < 2; via++) {
          // (the flash-string overloads document that a text longer than the 25 characters of an offset date-time is an
          //  error: they are given the text without the bracketed part)
          std::string head = zt.substr(0, 25);
          ZonedDateTime b = via ? ZonedDateTime::forDateString((const __FlashStringHelper*) head.c_str()) : ZonedDateTime::forDateString(zt.c_str());
          if (b.isError() || b.year() != y || b.month() != mo || b.day() != d || b.hour() != h || b.minute() != mi || b.second() != sec
              || b.timeOffset().toMinutes() != off || pr(b).substr(0, 25) != zt.substr(0, 25))
            fail(via ? "ZonedDateTime (manual zone) parse(print) changes fields [flash-string overload]" : "ZonedDateTime (manual zone) parse(print) changes fields", zt + " -> " + pr(b), y, k);
        }
      }
    }
    // error values whose only defect is an hour above 24 (minute and second 0) print the placeholder like any other error
    for (int h : {25, 26, 48, 100, 255}) {
      LocalTime lt = LocalTime::forComponents((uint8_t) h, 0, 0);
      LocalDateTime ldt = LocalDateTime::forComponents(2020, 1, 2, (uint8_t) h, 0, 0);
      OffsetDateTime odt = OffsetDateTime::forComponents(2020, 1, 2, (uint8_t) h, 0, 0, TimeOffset::forHours(1));
      ZonedDateTime zdt = ZonedDateTime::forComponents(2020, 1, 2, (uint8_t) h, 0, 0, TimeZone::forUtc());
      if (pr(lt) != "<Invalid LocalTime>") fail("placeholder LocalTime (hour above 24)", pr(lt), h, 0);
      if (pr(ldt) != "<Invalid LocalDateTime>") fail("placeholder LocalDateTime (hour above 24)", pr(ldt), h, 0);
      if (pr(odt) != "<Invalid OffsetDateTime>") fail("placeholder OffsetDateTime (hour above 24)", pr(odt), h, 0);
      if (pr(zdt) != "<Invalid ZonedDateTime>") fail("placeholder ZonedDateTime (hour above 24)", pr(zdt), h, 0);
    }
    // manual zones print their offsets
    if (pr(TimeZone::forUtc()) != "UTC") fail("UTC zone name", pr(TimeZone::forUtc()), 0, 0);
    // error values print their documented placeholders
    if (pr(LocalDate::forError()) != "<Invalid LocalDate>") fail("placeholder LocalDate", pr(LocalDate::forError()), 0, 0);
    if (pr(LocalTime::forError()) != "<Invalid LocalTime>") fail("placeholder LocalTime", pr(LocalTime::forError()), 0, 0);
    if (pr(LocalDateTime::forError()) != "<Invalid LocalDateTime>") fail("placeholder LocalDateTime", pr(LocalDateTime::forError()), 0, 0);
    if (pr(OffsetDateTime::forError()) != "<Invalid OffsetDateTime>") fail("placeholder OffsetDateTime", pr(OffsetDateTime::forError()), 0, 0);
    if (pr(ZonedDateTime::forError()) != "<Invalid ZonedDateTime>") fail("placeholder ZonedDateTime", pr(ZonedDateTime::forError()), 0, 0);
    if (pr(TimeZone::forError()) != "<Error>") fail("placeholder TimeZone", pr(TimeZone::forError()), 0, 0);
    // an offset / zoned date-time that is an error because of any of its parts prints the placeholder too
    {
      OffsetDateTime e1 = OffsetDateTime::forComponents(2018, 8, 31, 13, 48, 1, TimeOffset::forError());
      OffsetDateTime e2 = OffsetDateTime::forDateString("2018-08-31T13:48:01&07:00");
      OffsetDateTime e3 = OffsetDateTime::forLocalDateTimeAndOffset(LocalDateTime::forError(), TimeOffset::forMinutes(60));
      OffsetDateTime e4 = OffsetDateTime::forEpochSeconds(1000, TimeOffset::forError());
      const OffsetDateTime* es[] = {&e1, &e2, &e3, &e4};
      for (int k = 0; k < 4; k++) if (es[k]->isError() && pr(*es[k]) != "<Invalid OffsetDateTime>") fail("placeholder OffsetDateTime (error part)", pr(*es[k]), k, 0);
      ZonedDateTime z1 = ZonedDateTime::forEpochSeconds(1000, TimeZone::forError());
      ZonedDateTime z2 = ZonedDateTime::forComponents(2018, 13, 31, 13, 48, 1, TimeZone::forUtc());
      if (z1.isError() && pr(z1) != "<Invalid ZonedDateTime>") fail("placeholder ZonedDateTime (error zone)", pr(z1), 0, 0);
      if (z2.isError() && pr(z2) != "<Invalid ZonedDateTime>") fail("placeholder ZonedDateTime (error fields)", pr(z2), 0, 0);
      LocalDateTime l1 = LocalDateTime::forComponents(2018, 8, 31, 25, 0, 0);
      if (l1.isError() && pr(l1) != "<Invalid LocalDateTime>") fail("placeholder LocalDateTime (error time)", pr(l1), 0, 0);
    }
    // every string shorter than the required minimum parses to an error value
    static const char* texts[] = {"2018-08-31T13:48:01-07:00[America/Los_Angeles]", "1999-12-31T23:59:59+16:00", "2127-01-01T00:00:55-00:01"};
    for (const char* tx : texts) {
      std::string full = tx;
      for (size_t len = 0; len <= full.size(); len++) {
        std::string s = full.substr(0, len);
        n++;
        if (len < 10 && !LocalDate::forDateString(s.c_str()).isError()) fail("short date string accepted", s, (long) len, 0);
        if (len < 19 && !LocalDateTime::forDateString(s.c_str()).isError()) fail("short date-time string accepted", s, (long) len, 0);
        if (len < 25 && !OffsetDateTime::forDateString(s.c_str()).isError()) fail("short offset date-time string accepted", s, (long) len, 0);
        if (len < 25 && !ZonedDateTime::forDateString(s.c_str()).isError()) fail("short zoned date-time string accepted", s, (long) len, 0);
        if (len >= 11 && len - 11 < 8 && !LocalTime::forTimeString(s.substr(11).c_str()).isError()) fail("short time string accepted", s.substr(11), (long) len, 0);
        if (len >= 19 && len - 19 != 6 && !TimeOffset::forOffsetString(s.substr(19).c_str()).isError()) fail("offset string of wrong length accepted", s.substr(19), (long) len, 0);
        // the flash-string overloads answer like the plain ones on every prefix
        {
          const __FlashStringHelper* fs = (const __FlashStringHelper*) s.c_str();
          LocalDateTime l1 = LocalDateTime::forDateString(s.c_str()), l2 = LocalDateTime::forDateString(fs);
          OffsetDateTime o1 = OffsetDateTime::forDateString(s.c_str()), o2 = OffsetDateTime::forDateString(fs);
          ZonedDateTime z1 = ZonedDateTime::forDateString(s.c_str()), z2 = ZonedDateTime::forDateString(fs);
          if (len <= 19 && (l1.isError() != l2.isError() || (!l1.isError() && !(l1 == l2)))) fail("LocalDateTime::forDateString: flash-string overload differs", s, (long) len, 0);
          if (len > 19 && !l2.isError()) fail("flash-string overload accepts a text longer than a date-time (documented: error)", s, (long) len, 0);
          if (len <= 25 && (o1.isError() != o2.isError() || (!o1.isError() && !(o1 == o2)))) fail("OffsetDateTime::forDateString: flash-string overload differs", s, (long) len, 0);
          if (len <= 25 && (z1.isError() != z2.isError() || (!z1.isError() && pr(z1) != pr(z2)))) fail("ZonedDateTime::forDateString: flash-string overload differs", s, (long) len, 0);
          if (len > 25 && (!o2.isError() || !z2.isError())) fail("flash-string overload accepts a text longer than an offset date-time (documented: error)", s, (long) len, 0);
          if (len < 19 && !l2.isError()) fail("short date-time string accepted [flash-string overload]", s, (long) len, 0);
          if (len < 25 && (!o2.isError() || !z2.isError())) fail("short offset/zoned date-time string accepted [flash-string overload]", s, (long) len, 0);
        }
        if (len >= 19 && LocalDateTime::forDateString(s.c_str()).isError()) fail("complete date-time string rejected", s, (long) len, 0);
        if (len >= 25 && OffsetDateTime::forDateString(s.c_str()).isError()) fail("complete offset date-time string rejected", s, (long) len, 0);
      }
    }
    printf("{\"done\":1,\"n\":%ld,\"nfail\":%ld}\n", n, nfail);
    return 0;
  }
  return 2;
}
