// Cases for property C16 (TimeZone as a value) recorded from the real classes;
// judged by spec/TimeZoneValue_Trace.tla. Zone ids are 32-bit: the records carry
// the abstract zone number (index in the full shipped registry + 1) and the
// driver itself checks that the concrete id equals the zone's id.
//   tzvdrv <basic|extended>   -> one JSON object {"save":[...],"eq":[...],"fails":[...]}
#include "drv_common.h"
using namespace ace_time;
Print VerifSerial;
extern "C" unsigned long millis() { return 0; }

static long nfail = 0;
static std::string fails;
static void fail(const std::string& s) { if (nfail < 30) { if (nfail) fails += ","; fails += jstr(s.c_str()); } nfail++; }

template <typename ZI, typename ZONE>
static int abstract_zone(const ZI* const* reg, int n, uint32_t id) {
  for (int i = 0; i < n; i++) if (ZONE(reg[i]).zoneId() == id) return i + 1;
  return -1;
}

template <typename ZI, typename ZONE>
static std::string tzrec(const TimeZone& tz, const ZI* const* reg, int n) {
  char b[96];
  int kind = tz.getType();
  if (kind == TimeZone::kTypeManual) snprintf(b, sizeof b, "[%d,0,%d,%d]", kind, tz.getStdOffset().toMinutes(), tz.getDstOffset().toMinutes());
  else if (kind == TimeZone::kTypeError) snprintf(b, sizeof b, "[%d,0,0,0]", kind);
  else snprintf(b, sizeof b, "[%d,%d,0,0]", kind, abstract_zone<ZI, ZONE>(reg, n, tz.getZoneId()));
  return b;
}

template <typename ZI, typename ZONE>
static std::string datarec(const TimeZoneData& d, const ZI* const* reg, int n) {
  char b[96];
  if (d.type == TimeZoneData::kTypeManual) snprintf(b, sizeof b, "[%d,0,%d,%d]", d.type, d.stdOffsetMinutes, d.dstOffsetMinutes);
  else if (d.type == TimeZoneData::kTypeZoneId) snprintf(b, sizeof b, "[%d,%d,0,0]", d.type, abstract_zone<ZI, ZONE>(reg, n, d.zoneId));
  else snprintf(b, sizeof b, "[%d,0,0,0]", d.type);
  return b;
}

static bool same_answers(const TimeZone& a, const TimeZone& b) {
  static const long ts[] = {0, 15000000, 200000000, 400000000, 615000000, 800000000, 1200000000, 1577000000};
  for (long t : ts) {
    if (a.getUtcOffset((acetime_t) t).toMinutes() != b.getUtcOffset((acetime_t) t).toMinutes()) return false;
    if (a.getDeltaOffset((acetime_t) t).toMinutes() != b.getDeltaOffset((acetime_t) t).toMinutes()) return false;
    if (std::string(a.getAbbrev((acetime_t) t)) != std::string(b.getAbbrev((acetime_t) t))) return false;
  }
  Print pa, pb; a.printTo(pa); b.printTo(pb);
  return pa.buf == pb.buf;
}

static std::string save_cases, eq_cases;
static long nsave = 0, neq = 0;

template <typename ZI, typename ZONE, typename MGR>
static void one_case(const TimeZone& tz, MGR& mgr, int mk, const ZI* const* full, int nfull, bool inreg, const TimeZone* created) {
  TimeZoneData d = tz.toTimeZoneData();
  TimeZone r = mgr.createForTimeZoneData(d);
  bool eq = created && (r == *created);
  if (eq && !same_answers(r, *created)) fail("restored zone compares equal to the manager's own but answers differently");
  if (d.type == TimeZoneData::kTypeZoneId && d.zoneId != tz.getZoneId()) fail("saved zone id differs from the zone's id");
  int utc = tz.getType() == TimeZone::kTypeManual ? tz.getUtcOffset(0).toMinutes() : 0;
  if (tz.getType() == TimeZone::kTypeManual) {
    if (tz.getUtcOffset(1234567).toMinutes() != utc || tz.getDeltaOffset(0).toMinutes() != tz.getDstOffset().toMinutes()) fail("manual zone offsets inconsistent");
    // the offset is standard plus DST on every path, also when resolving a local date-time
    long sum = (long) tz.getStdOffset().toMinutes() + tz.getDstOffset().toMinutes();
    if (sum >= -960 && sum <= 960) {
      LocalDateTime ldt = LocalDateTime::forComponents(2021, 6, 15, 12, 30, 0);
      OffsetDateTime odt = tz.getOffsetDateTime(ldt);
      ZonedDateTime z = ZonedDateTime::forComponents(2021, 6, 15, 12, 30, 0, tz);
      ZonedDateTime r = ZonedDateTime::forEpochSeconds(z.toEpochSeconds(), tz);
      if (odt.isError() || odt.timeOffset().toMinutes() != sum || z.timeOffset().toMinutes() != sum
          || r.hour() != 12 || r.minute() != 30 || r.day() != 15 || (long) z.toEpochSeconds() != (long) ldt.toEpochSeconds() - sum * 60)
        fail("manual zone: local date-time path does not use standard + DST");
    }
  }
  char b[96];
  if (nsave) save_cases += ",";
  save_cases += "{\"tz\":" + tzrec<ZI, ZONE>(tz, full, nfull) + ",";
  snprintf(b, sizeof b, "\"mk\":%d,\"inreg\":%d,\"utc\":%d,\"eq_created\":%d,", mk, (int) inreg, utc, (int) eq);
  save_cases += b;
  save_cases += "\"data\":" + datarec<ZI, ZONE>(d, full, nfull) + ",\"restored\":" + tzrec<ZI, ZONE>(r, full, nfull) + "}";
  nsave++;
}

template <typename ZI, typename ZONE>
static void eq_case(const TimeZone& a, const TimeZone& b, const ZI* const* full, int nfull) {
  bool e = (a == b);
  if (e != (b == a)) fail("operator== not symmetric");
  if ((a != b) == e) fail("operator!= inconsistent with operator==");
  if (neq) eq_cases += ",";
  eq_cases += "{\"a\":" + tzrec<ZI, ZONE>(a, full, nfull) + ",\"b\":" + tzrec<ZI, ZONE>(b, full, nfull) + (e ? ",\"eq\":1}" : ",\"eq\":0}");
  neq++;
}

template <typename ZI, typename ZP, typename ZONE, typename MGR>
static int run(const ZI* const* full, int nfull, int mk) {
  MGR mgr((uint16_t) nfull, full);
  // a second manager whose registry holds only every third zone
  std::vector<const ZI*> part;
  for (int i = 0; i < nfull; i += 3) part.push_back(full[i]);
  MGR pmgr((uint16_t) part.size(), part.data());
  ZP proc;
  for (int i = 0; i < nfull; i++) {
    TimeZone created = mgr.createForZoneIndex((uint16_t) i);
    TimeZone direct = TimeZone::forZoneInfo(full[i], &proc);
    if (created.isError()) { fail("createForZoneIndex gave an error zone"); continue; }
    one_case<ZI, ZONE, MGR>(created, mgr, mk, full, nfull, true, &created);    // managed zone, registry contains it
    one_case<ZI, ZONE, MGR>(direct, mgr, mk, full, nfull, true, &created);     // direct zone restored through the manager
    bool inpart = (i % 3 == 0);
    TimeZone pcreated = inpart ? pmgr.createForZoneInfo(full[i]) : TimeZone::forError();
    one_case<ZI, ZONE, MGR>(created, pmgr, mk, full, nfull, inpart, inpart ? &pcreated : nullptr);
  }
  // histories: a zone that is NOT in the manager's registry is obtained with createForZoneInfo() (which bypasses the
  // registry) and used, so that one of the manager's cached processors is bound to it; restoring its saved id through
  // that manager must still give the error zone, before and after other zones cycle through the cache
  for (int i = 1; i < nfull; i += 3) {
    TimeZone bypass = pmgr.createForZoneInfo(full[i]);
    TimeZoneData d = bypass.toTimeZoneData();
    if (!pmgr.createForTimeZoneData(d).isError()) fail("id absent from the registry restored to a non-error zone (before use)");
    bypass.getUtcOffset((acetime_t) 200000000); bypass.getAbbrev((acetime_t) 200000000);
    Print pp; bypass.printTo(pp);
    if (!pmgr.createForTimeZoneData(d).isError()) fail("id absent from the registry restored to a non-error zone after the zone was used through createForZoneInfo");
    if (!pmgr.createForZoneId(bypass.getZoneId()).isError()) fail("createForZoneId of an id absent from the registry is not the error zone after createForZoneInfo use");
    if (pmgr.indexForZoneId(bypass.getZoneId()) != MGR::kInvalidIndex) fail("indexForZoneId finds an id absent from the registry");
    TimeZone other = pmgr.createForZoneIndex((uint16_t) ((i / 3) % part.size()));
    other.getUtcOffset((acetime_t) 100000000);
    if (!pmgr.createForTimeZoneData(d).isError()) fail("id absent from the registry restored to a non-error zone after another zone used the cache");
    nsave += 4;
  }
  // histories: two directly created zones share one processor; each is saved after the other one used the processor.
  // The saved id must be the zone's own (taken from the zone record), and restoring gives that zone
  {
    ZP shared;
    for (int i = 0; i + 1 < nfull; i += 2) {
      TimeZone a = TimeZone::forZoneInfo(full[i], &shared);
      TimeZone b = TimeZone::forZoneInfo(full[i + 1], &shared);
      a.getUtcOffset((acetime_t) 200000000);
      b.getUtcOffset((acetime_t) 200000000);          // the processor is now bound to b
      TimeZoneData da = a.toTimeZoneData();
      if (da.type != TimeZoneData::kTypeZoneId || da.zoneId != ZONE(full[i]).zoneId()) fail("zone saved after another zone used the shared processor carries a foreign id");
      if (a.getZoneId() != ZONE(full[i]).zoneId()) fail("getZoneId of a zone sharing its processor is not the zone's own id");
      TimeZone r = mgr.createForTimeZoneData(da);
      TimeZone own = mgr.createForZoneIndex((uint16_t) i);
      if (!(r == own)) fail("zone saved while its shared processor was bound elsewhere restores to a different zone");
      // ... and the restored zone answers like the original, whichever accessor is asked first after the other zone used
      // the shared processor
      {
        b.getUtcOffset((acetime_t) 200000000);
        std::string ab = a.getAbbrev((acetime_t) 200000000);
        std::string rb = r.getAbbrev((acetime_t) 200000000);
        if (ab != rb) fail("getAbbrev of a zone whose shared processor was last used by another zone differs from its restored counterpart");
        b.getUtcOffset((acetime_t) 200000000);
        if (a.getDeltaOffset((acetime_t) 200000000).toMinutes() != r.getDeltaOffset((acetime_t) 200000000).toMinutes()) fail("getDeltaOffset of a zone whose shared processor was last used by another zone differs from its restored counterpart");
      }
      TimeZoneData db = b.toTimeZoneData();
      if (db.zoneId != ZONE(full[i + 1]).zoneId()) fail("saved id of the zone bound last is not its own");
      nsave += 2;
    }
  }
  // histories: a manager with fewer cached processors than zones in play. A zone is used twice, two other zones then
  // take over both cached processors, and the first zone is used again: the zone created earlier and the zone restored
  // from its saved form (after one of the other zones was used once more) must both still answer like a zone with a
  // processor of its own, and compare equal
  {
    MGR small((uint16_t) nfull, full);
    ZP own;
    const acetime_t t = (acetime_t) 600000000;
    for (int i = 0; i + 2 < nfull; i++) {
      TimeZone ref = TimeZone::forZoneInfo(full[i], &own);
      int want = ref.getUtcOffset(t).toMinutes();
      std::string wantAbbrev = ref.getAbbrev(t);
      TimeZone a = small.createForZoneIndex((uint16_t) i);
      TimeZoneData d = a.toTimeZoneData();
      a.getUtcOffset(t); a.getUtcOffset(t);
      TimeZone b = small.createForZoneIndex((uint16_t) (i + 1)), c = small.createForZoneIndex((uint16_t) (i + 2));
      b.getUtcOffset(t); c.getUtcOffset(t);
      if (a.getUtcOffset(t).toMinutes() != want) fail("managed zone used again after other zones took over the cached processors answers with a foreign offset");
      b.getAbbrev(t);
      TimeZone r = small.createForTimeZoneData(d);
      if (!(r == a)) fail("zone restored after its cached processor was taken over does not equal the zone created earlier");
      if (r.getUtcOffset(t).toMinutes() != want) fail("zone restored after its cached processor was taken over answers with a foreign offset");
      c.getUtcOffset(t); b.getUtcOffset(t);
      if (std::string(a.getAbbrev(t)) != wantAbbrev) fail("managed zone used again after other zones took over the cached processors answers with a foreign abbreviation");
      if (std::string(r.getAbbrev(t)) != wantAbbrev) fail("restored zone used again after other zones took over the cached processors answers with a foreign abbreviation");
    }
  }
  // a user-defined registry that is not sorted but begins with its smallest name, of a size at which a sorted registry
  // would be searched by bisection: every zone is found by name, by id and by index, and restores to itself
  {
    static const int picks[] = {0, 200, 50, 120, 30, 90, 10, 150};
    std::vector<const ZI*> uns;
    for (int k : picks) uns.push_back(full[k % nfull]);
    MGR umgr((uint16_t) uns.size(), uns.data());
    for (size_t k = 0; k < uns.size(); k++) {
      char nm[96]; strncpy(nm, (const char*) ZONE(uns[k]).name(), sizeof nm - 1); nm[sizeof nm - 1] = 0;
      TimeZone byIndex = umgr.createForZoneIndex((uint16_t) k);
      TimeZone byName = umgr.createForZoneName(nm);
      TimeZone byId = umgr.createForZoneId(ZONE(uns[k]).zoneId());
      TimeZone restored = umgr.createForTimeZoneData(byIndex.toTimeZoneData());
      nsave++;
      if (byIndex.isError() || byName.isError() || byId.isError() || restored.isError() || !(byName == byIndex) || !(byId == byIndex) || !(restored == byIndex))
        fail("unsorted user registry: a zone created by name / id / restored from saved data is not the zone created by index");
    }
  }
  // manual zones: grid plus int16 boundaries; error zone
  static const int stds[] = {-32767, -961, -960, -959, -720, -480, -1, 0, 1, 330, 345, 765, 840, 960, 961, 32767};
  static const int dsts[] = {-32767, -60, -1, 0, 30, 60, 120, 32767};
  for (int s = -960; s <= 960; s += 15) for (int d : dsts) {
    if ((long) s + d > 32767 || (long) s + d < -32767) continue;
    TimeZone m = TimeZone::forTimeOffset(TimeOffset::forMinutes((int16_t) s), TimeOffset::forMinutes((int16_t) d));
    one_case<ZI, ZONE, MGR>(m, mgr, mk, full, nfull, false, nullptr);
  }
  for (int s : stds) for (int d : dsts) {
    if ((long) s + d > 32767 || (long) s + d < -32767) continue;
    TimeZone m = TimeZone::forTimeOffset(TimeOffset::forMinutes((int16_t) s), TimeOffset::forMinutes((int16_t) d));
    one_case<ZI, ZONE, MGR>(m, mgr, mk, full, nfull, false, nullptr);
  }
  one_case<ZI, ZONE, MGR>(TimeZone::forError(), mgr, mk, full, nfull, false, nullptr);
  one_case<ZI, ZONE, MGR>(TimeZone::forUtc(), mgr, mk, full, nfull, false, nullptr);
  // equality across kinds
  ZP p2;
  std::vector<TimeZone> pool;
  pool.push_back(TimeZone::forError()); pool.push_back(TimeZone::forError());
  pool.push_back(TimeZone::forUtc());
  pool.push_back(TimeZone::forTimeOffset(TimeOffset::forMinutes(0)));
  pool.push_back(TimeZone::forTimeOffset(TimeOffset::forMinutes(-480), TimeOffset::forMinutes(60)));
  pool.push_back(TimeZone::forTimeOffset(TimeOffset::forMinutes(-420), TimeOffset::forMinutes(0)));
  pool.push_back(TimeZone::forTimeOffset(TimeOffset::forMinutes(-480), TimeOffset::forMinutes(60)));
  pool.push_back(TimeZone::forTimeOffset(TimeOffset::forMinutes(60), TimeOffset::forMinutes(-480)));
  // the same standard offset with different DST shifts, and the same total offset split differently
  pool.push_back(TimeZone::forTimeOffset(TimeOffset::forMinutes(-480), TimeOffset::forMinutes(0)));
  pool.push_back(TimeZone::forTimeOffset(TimeOffset::forMinutes(-480), TimeOffset::forMinutes(120)));
  pool.push_back(TimeZone::forTimeOffset(TimeOffset::forMinutes(0), TimeOffset::forMinutes(60)));
  { TimeZone m = TimeZone::forTimeOffset(TimeOffset::forMinutes(-480), TimeOffset::forMinutes(0)); m.setDstOffset(TimeOffset::forMinutes(60)); pool.push_back(m); }
  for (int i : {0, 1, 7, nfull - 1}) {
    pool.push_back(TimeZone::forZoneInfo(full[i], &proc));
    pool.push_back(TimeZone::forZoneInfo(full[i], &p2));      // same zone, another processor
    pool.push_back(mgr.createForZoneIndex((uint16_t) i));
    pool.push_back(mgr.createForZoneInfo(full[i]));
  }
  for (size_t a = 0; a < pool.size(); a++) for (size_t b = 0; b < pool.size(); b++) eq_case<ZI, ZONE>(pool[a], pool[b], full, nfull);
  printf("{\"save\":[%s],\"eq\":[%s],\"fails\":[%s],\"nfail\":%ld}\n", save_cases.c_str(), eq_cases.c_str(), fails.c_str(), nfail);
  return 0;
}

// zones only present in zonedbx, saved and restored through a *basic* manager: the id is not in its registry
static int cross() {
  BasicZoneManager<1> bm(zonedb::kZoneRegistrySize, zonedb::kZoneRegistry);
  ExtendedZoneManager<1> xm(zonedbx::kZoneRegistrySize, zonedbx::kZoneRegistry);
  long n = 0, bad = 0, shared_bad = 0;
  for (int i = 0; i < zonedbx::kZoneRegistrySize; i++) {
    TimeZone x = xm.createForZoneIndex((uint16_t) i);
    TimeZoneData d = x.toTimeZoneData();
    bool inbasic = abstract_zone<basic::ZoneInfo, BasicZone>(zonedb::kZoneRegistry, zonedb::kZoneRegistrySize, d.zoneId) > 0;
    TimeZone r = bm.createForTimeZoneData(d);
    n++;
    if (!inbasic && !r.isError()) bad++;
    if (inbasic && (r.isError() || r.getZoneId() != d.zoneId || r.getType() != TimeZone::kTypeBasicManaged)) shared_bad++;
  }
  printf("{\"cross\":%ld,\"absent_not_error\":%ld,\"shared_wrong\":%ld}\n", n, bad, shared_bad);
  return 0;
}

int main(int argc, char** argv) {
  if (argc < 2) return 2;
  if (!strcmp(argv[1], "cross")) return cross();
  if (!strcmp(argv[1], "basic"))
    return run<basic::ZoneInfo, BasicZoneProcessor, BasicZone, BasicZoneManager<2>>(zonedb::kZoneRegistry, zonedb::kZoneRegistrySize, TimeZone::kTypeBasicManaged);
  return run<extended::ZoneInfo, ExtendedZoneProcessor, ExtendedZone, ExtendedZoneManager<2>>(zonedbx::kZoneRegistry, zonedbx::kZoneRegistrySize, TimeZone::kTypeExtendedManaged);
}
