// Dense sweeps of the real zone processors (DESIGN.md pattern P3).
//
//   tzscan scan <basic|extended> <i0> <i1> <grid> <t0> <t1> <fieldstride>
//       sweeps zones registry[i0..i1) over epoch seconds [t0, t1) at `grid`
//       seconds, bisecting every change to the second; one JSON line per zone:
//       {"zone":..,"pieces":[[day,sec,utoff,isdst,abbr],..],"dpieces":[[day,sec,utoff,delta,abbr]..],
//        "fieldfail":[..],"nprobe":N}
//   tzscan probe <basic|extended> <zoneIndex> t...      observation at given instants
//   tzscan list <basic|extended>                        registry names in order
#include "drv_common.h"
using namespace ace_time;

Print VerifSerial;
extern "C" unsigned long millis() { return 0; }
// hook H1 (guarded, in /repo): attempts to add a transition beyond BasicZoneProcessor's cache capacity
#ifdef ACE_TIME_VERIF_HAS_H1
static const int kHasH1 = 1;
#else
static const int kHasH1 = 0;
#endif

struct Obs {
  int utoff;       // seconds; 999999 = error
  int delta;       // seconds
  std::string abbr;
  bool operator==(const Obs& o) const { return utoff == o.utoff && delta == o.delta && abbr == o.abbr; }
  bool operator!=(const Obs& o) const { return !(*this == o); }
};

static long nprobe = 0;

// the same three accessors, asked in a chosen order (which of them is the first call on a zone after another zone used a
// shared processor matters)
static Obs observe_order(const TimeZone& tz, acetime_t t, int order) {
  nprobe++;
  Obs o;
  TimeOffset u, d; const char* a = nullptr;
  for (int k = 0; k < 3; k++) {
    int which = (order + k) % 3;
    if (which == 0) u = tz.getUtcOffset(t);
    else if (which == 1) d = tz.getDeltaOffset(t);
    else { a = tz.getAbbrev(t); o.abbr = a ? a : "<null>"; }     // (the abbreviation buffer belongs to the processor: copy at once)
  }
  o.utoff = u.isError() ? 999999 : u.toMinutes() * 60;
  o.delta = d.isError() ? 999999 : d.toMinutes() * 60;
  return o;
}

// the three accessors in an order that rotates from probe to probe: whichever of them is the first to be asked about an
// instant (in particular about the first instant of another year) must bring the processor up to date by itself
static Obs observe(const TimeZone& tz, acetime_t t) {
  static unsigned long rot = 0;
  return observe_order(tz, t, (int) (rot++ % 3));
}


struct Piece { long t; Obs o; };

static void emit_pieces(const std::vector<Piece>& ps, bool flag_only, std::string& out) {
  // run-length on (utoff, isdst|delta, abbr)
  out += "[";
  bool first = true;
  Obs last; bool have = false;
  for (size_t k = 0; k < ps.size(); k++) {
    Obs o = ps[k].o;
    if (flag_only) o.delta = (o.delta != 0) ? 1 : 0;
    if (have && o == last) continue;
    last = o; have = true;
    char buf[160];
    long day = floordiv(ps[k].t, 86400), sec = floormod(ps[k].t, 86400);
    snprintf(buf, sizeof buf, "%s[%ld,%ld,%d,%d,", first ? "" : ",", day, sec, o.utoff, o.delta);
    out += buf; out += jstr(o.abbr.c_str()); out += "]";
    first = false;
  }
  out += "]";
}

// fields of ZonedDateTime::forEpochSeconds(t, tz) must be the UTC fields shifted by the offset
static bool fields_ok(const TimeZone& tz, acetime_t t, const Obs& o, std::string& why) {
  ZonedDateTime z = ZonedDateTime::forEpochSeconds(t, tz);
  if (o.utoff == 999999) return true;   // error observations are judged by the pieces comparison
  long lt = (long) t + o.utoff;
  Civil c = civil_from_days(floordiv(lt, 86400));
  long sod = floormod(lt, 86400);
  bool ok = !z.isError() && z.year() == c.y && z.month() == c.m && z.day() == c.d
      && z.hour() == sod / 3600 && z.minute() == (sod % 3600) / 60 && z.second() == sod % 60
      && z.timeOffset().toMinutes() * 60 == o.utoff && z.toEpochSeconds() == t;
  if (!ok) {
    char buf[256];
    snprintf(buf, sizeof buf, "{\"t\":%ld,\"got\":[%d,%d,%d,%d,%d,%d,%d,%ld,%d],\"want\":[%ld,%d,%d,%ld,%ld,%ld,%d,%ld,0]}",
        (long) t, z.year(), z.month(), z.day(), z.hour(), z.minute(), z.second(), z.timeOffset().toMinutes() * 60,
        (long) z.toEpochSeconds(), (int) z.isError(),
        c.y, c.m, c.d, sod / 3600, (sod % 3600) / 60, sod % 60, o.utoff, (long) t);
    why = buf;
  }
  return ok;
}

template <typename ZI, typename ZP, typename ZONE>
static int scan(const ZI* const* registry, int n, int i0, int i1, long grid, long t0, long t1, long fstride) {
  for (int i = i0; i < i1 && i < n; i++) {
    ZP processor;
    TimeZone tz = TimeZone::forZoneInfo(registry[i], &processor);
    nprobe = 0;
    ace_time_verif_basic_dropped = 0;
    std::vector<Piece> ps;
    std::vector<std::string> ff;
    long nfield = 0;
    Obs cur = observe(tz, (acetime_t) t0);
    ps.push_back(Piece{t0, cur});
    long k = 0;
    for (long t = t0 + grid; ; t += grid, k++) {
      bool last = false;
      if (t >= t1) { t = t1 - 1; last = true; }
      Obs o = observe(tz, (acetime_t) t);
      long lo = t - grid < t0 ? t0 : t - grid;   // obs(lo) == cur
      if (last) lo = ps.back().t > (t1 - 1 - grid) ? ps.back().t : (t1 - 1 - grid < t0 ? t0 : t1 - 1 - grid);
      while (o != cur) {
        // smallest s in (lo, t] with obs(s) != cur
        long a = lo, b = t;
        while (b - a > 1) {
          long m = a + (b - a) / 2;
          if (observe(tz, (acetime_t) m) != cur) b = m; else a = m;
        }
        Obs nb = observe(tz, (acetime_t) b);
        ps.push_back(Piece{b, nb});
        // field check on both sides of the change
        std::string why;
        nfield += 2;
        if (!fields_ok(tz, (acetime_t) (b - 1), cur, why) && ff.size() < 20) ff.push_back(why);
        if (!fields_ok(tz, (acetime_t) b, nb, why) && ff.size() < 20) ff.push_back(why);
        cur = nb; lo = b;
      }
      if (fstride > 0 && k % fstride == 0) {
        std::string why;
        nfield++;
        if (!fields_ok(tz, (acetime_t) t, cur, why) && ff.size() < 20) ff.push_back(why);
      }
      if (last) break;
    }
    std::string out = "{\"zone\":";
    out += jstr((const char*) ZONE(registry[i]).name());
    out += ",\"pieces\":"; emit_pieces(ps, true, out);
    out += ",\"dpieces\":"; emit_pieces(ps, false, out);
    out += ",\"fieldfail\":[";
    for (size_t j = 0; j < ff.size(); j++) { if (j) out += ","; out += ff[j]; }
    char buf[96];
    // every year 1999..2050 initialised at least once (the sweep covers 2000..2049)
    observe(tz, (acetime_t) -86400L * 180);
    observe(tz, (acetime_t) (18263L + 180) * 86400);
    snprintf(buf, sizeof buf, "],\"nprobe\":%ld,\"nfield\":%ld,\"dropped\":%ld,\"hookH1\":%d}", nprobe, nfield, ace_time_verif_basic_dropped, kHasH1);
    out += buf;
    puts(out.c_str());
    fflush(stdout);
  }
  return 0;
}


// configurations (C01/C02 quantify over them): the zones [i0, i1) are visited in turn at every grid instant (a) through a
// zone manager with fewer cache slots than zones and (b) through directly created time zones sharing ONE processor; every
// answer must equal the answer of a time zone with a processor of its own (the one whose sweep is judged by TzSem.tla).
template <typename ZI, typename ZP, typename ZONE, typename MGR>
static int cfgscan(const ZI* const* registry, int n, int i0, int i1, long grid, long t0, long t1) {
  if (i1 > n) i1 = n;
  int nz = i1 - i0;
  if (nz <= 0) return 0;
  MGR mgr((uint16_t) n, registry);
  ZP shared;
  std::vector<ZP> own(nz);
  long nq = 0, nbad = 0;
  std::string out = "{\"cfg\":[" ;
  char buf[256];
  snprintf(buf, sizeof buf, "%d,%d],\"bad\":[", i0, i1); out += buf;
  for (long t = t0; t < t1; t += grid) {
    for (int r = 0; r < 2; r++) for (int j = 0; j < nz; j++) {
      const ZI* zi = registry[i0 + ((j * 5 + (int) (t / grid)) % nz)];
      int jj = (int) ((j * 5 + (int) (t / grid)) % nz);
      TimeZone ref = TimeZone::forZoneInfo(zi, &own[jj]);
      Obs want = observe(ref, (acetime_t) t);
      TimeZone tz = r == 0 ? mgr.createForZoneInfo(zi) : TimeZone::forZoneInfo(zi, &shared);
      Obs got = observe_order(tz, (acetime_t) t, (int) ((j + t / grid) % 3));
      nq++;
      if (got != want) {
        if (nbad < 8) {
          snprintf(buf, sizeof buf, "%s{\"zone\":%s,\"t\":%ld,\"via\":\"%s\",\"got\":[%d,%d,%s],\"want\":[%d,%d,%s]}", nbad ? "," : "", jstr((const char*) ZONE(zi).name()).c_str(), t,
              r == 0 ? "manager" : "shared-processor", got.utoff, got.delta, jstr(got.abbr.c_str()).c_str(), want.utoff, want.delta, jstr(want.abbr.c_str()).c_str());
          out += buf;
        }
        nbad++;
      }
    }
  }
  snprintf(buf, sizeof buf, "],\"nq\":%ld,\"nbad\":%ld}", nq, nbad);
  out += buf;
  puts(out.c_str());
  return 0;
}

template <typename ZI, typename ZP, typename ZONE>
static int probe(const ZI* const* registry, int n, int zi, int argc, char** argv) {
  if (zi < 0 || zi >= n) return 2;
  ZP processor;
  TimeZone tz = TimeZone::forZoneInfo(registry[zi], &processor);
  printf("{\"zone\":%s,\"obs\":[", jstr((const char*) ZONE(registry[zi]).name()).c_str());
  for (int k = 0; k < argc; k++) {
    long t = atol(argv[k]);
    Obs o = observe(tz, (acetime_t) t);
    std::string why; bool fo = fields_ok(tz, (acetime_t) t, o, why);
    printf("%s[%ld,%d,%d,%s,%d]", k ? "," : "", t, o.utoff, o.delta, jstr(o.abbr.c_str()).c_str(), (int) fo);
  }
  printf("]}\n");
  return 0;
}


// ---- wall-clock resolution (C07): ZonedDateTime::forComponents over windows of wall time ----
struct WObs {
  long shift; int off; int err;
  bool operator==(const WObs& o) const { return shift == o.shift && off == o.off && err == o.err; }
  bool operator!=(const WObs& o) const { return !(*this == o); }
};
static long nwall = 0;
static bool g_wall_raw = false;   // raw: the offset selected by TimeZone::getOffsetDateTime(), before ZonedDateTime normalises it
static WObs resolve(const TimeZone& tz, long w, std::string* normwhy) {
  nwall++;
  Civil c = civil_from_days(floordiv(w, 86400));
  long sod = floormod(w, 86400);
  if (g_wall_raw) {
    LocalDateTime ldt = LocalDateTime::forComponents((int16_t) c.y, (uint8_t) c.m, (uint8_t) c.d, (uint8_t) (sod / 3600), (uint8_t) ((sod % 3600) / 60), (uint8_t) (sod % 60));
    OffsetDateTime odt = tz.getOffsetDateTime(ldt);
    WObs r;
    if (odt.isError()) { r.shift = 0; r.off = 0; r.err = 1; return r; }
    r.off = odt.timeOffset().toMinutes() * 60; r.shift = (long) odt.toEpochSeconds() - w; r.err = 0;   // the instant selected; the offset is already normalised
    return r;
  }
  ZonedDateTime z = ZonedDateTime::forComponents((int16_t) c.y, (uint8_t) c.m, (uint8_t) c.d,
      (uint8_t) (sod / 3600), (uint8_t) ((sod % 3600) / 60), (uint8_t) (sod % 60), tz);
  WObs o;
  if (z.isError()) { o.shift = 0; o.off = 0; o.err = 1; return o; }
  long e = (long) z.toEpochSeconds();
  o.shift = e - w; o.off = z.timeOffset().toMinutes() * 60; o.err = 0;
  // normalised: rebuilding from its own epoch seconds gives the same fields and offset
  ZonedDateTime r = ZonedDateTime::forEpochSeconds((acetime_t) e, tz);
  bool same = !r.isError() && r.year() == z.year() && r.month() == z.month() && r.day() == z.day()
      && r.hour() == z.hour() && r.minute() == z.minute() && r.second() == z.second()
      && r.timeOffset().toMinutes() == z.timeOffset().toMinutes();
  // and the fields are those of the instant shifted by the reported offset
  long lt = e + o.off;
  Civil rc = civil_from_days(floordiv(lt, 86400)); long rs = floormod(lt, 86400);
  bool fields = z.year() == rc.y && z.month() == rc.m && z.day() == rc.d && z.hour() == rs / 3600
      && z.minute() == (rs % 3600) / 60 && z.second() == rs % 60;
  if ((!same || !fields) && normwhy && normwhy->empty()) {
    char buf[200];
    snprintf(buf, sizeof buf, "{\"w\":%ld,\"epoch\":%ld,\"off\":%d,\"same\":%d,\"fields\":%d}", w, e, o.off, (int) same, (int) fields);
    *normwhy = buf;
  }
  return o;
}

template <typename ZI, typename ZP, typename ZONE>
static int wall(const ZI* const* registry, int n) {
  char line[256];
  int lastzi = -1;
  ZP processor;
  TimeZone tz;
  while (fgets(line, sizeof line, stdin)) {
    int zi; long w0, w1, grid;
    if (sscanf(line, "%d %ld %ld %ld", &zi, &w0, &w1, &grid) != 4) continue;
    if (zi < 0 || zi >= n) continue;
    if (zi != lastzi) { tz = TimeZone::forZoneInfo(registry[zi], &processor); lastzi = zi; }
    std::string normwhy;
    std::string out;
    char buf[160];
    snprintf(buf, sizeof buf, "{\"zi\":%d,\"w0\":[%ld,%ld],\"w1\":[%ld,%ld],\"pieces\":[", zi, floordiv(w0, 86400), floormod(w0, 86400), floordiv(w1, 86400), floormod(w1, 86400));
    out = buf;
    WObs cur = resolve(tz, w0, &normwhy);
    snprintf(buf, sizeof buf, "[%ld,%ld,%ld,%d,%d]", floordiv(w0, 86400), floormod(w0, 86400), cur.shift, cur.off, cur.err);
    out += buf;
    long lo = w0;
    for (long w = w0 + grid; ; w += grid) {
      bool last = false;
      if (w >= w1) { w = w1 - 1; last = true; }
      if (w <= lo) break;
      WObs o = resolve(tz, w, &normwhy);
      while (o != cur) {
        long a = lo, b = w;
        while (b - a > 1) { long m = a + (b - a) / 2; if (resolve(tz, m, &normwhy) != cur) b = m; else a = m; }
        WObs nb = resolve(tz, b, &normwhy);
        snprintf(buf, sizeof buf, ",[%ld,%ld,%ld,%d,%d]", floordiv(b, 86400), floormod(b, 86400), nb.shift, nb.off, nb.err);
        out += buf;
        cur = nb; lo = b;
      }
      lo = w;
      if (last) break;
    }
    out += "],\"normfail\":";
    out += normwhy.empty() ? "null" : normwhy;
    snprintf(buf, sizeof buf, ",\"n\":%ld}", nwall);
    out += buf;
    nwall = 0;
    puts(out.c_str());
  }
  return 0;
}

// ---- transition buffers (C09-iii): every year 1999..2050 of every zone ----
static int bufs_extended(int i0, int i1) {
  for (int i = i0; i < i1 && i < zonedbx::kZoneRegistrySize; i++) {
    const extended::ZoneInfo* zi = zonedbx::kZoneRegistry[i];
    ExtendedZoneProcessor processor;
    TimeZone tz = TimeZone::forZoneInfo(zi, &processor);
    std::string out = "{\"zone\":" + jstr((const char*) ExtendedZone(zi).name());
    char buf[128];
    snprintf(buf, sizeof buf, ",\"bufSize\":%d,\"hookH2\":%d,\"years\":[", (int) zi->transitionBufSize,
#ifdef ACE_TIME_VERIF_HAS_H2
        1
#else
        0
#endif
        );
    out += buf;
    std::string traces = "],\"traces\":[";
    for (int y = 1999; y <= 2050; y++) {
      processor.resetTransitionHighWater();
      g_pool_events.clear();
      g_pool_record = true;
      long t = days_from_civil(y, 7, 2) * 86400L;
      TimeOffset off = tz.getUtcOffset((acetime_t) t);
      g_pool_record = false;
      int maxfree = 0;
      for (size_t k = 0; k < g_pool_events.size(); k++) if (g_pool_events[k].free > maxfree) maxfree = g_pool_events[k].free;
      snprintf(buf, sizeof buf, "%s[%d,%d,%d,%d]", y == 1999 ? "" : ",", y, (int) processor.getTransitionHighWater(), maxfree, (int) off.isError());
      out += buf;
      traces += (y == 1999 ? "[" : ",[");
      for (size_t k = 0; k < g_pool_events.size(); k++) {
        snprintf(buf, sizeof buf, "%s[%d,%d,%d,%d]", k ? "," : "", g_pool_events[k].op, g_pool_events[k].prior, g_pool_events[k].cand, g_pool_events[k].free);
        traces += buf;
      }
      traces += "]";
    }
    out += traces + "]}";
    puts(out.c_str());
  }
  return 0;
}

// forComponents on directly created zones that share one processor and are used alternately (documented as supported):
// both TimeZone values exist before either is used; answers are compared with those of zones that have a processor of
// their own
template <typename ZI, typename ZP, typename ZONE>
static int wallshared(const ZI* const* reg, int n) {
  long nq = 0, nbad = 0;
  std::string first;
  for (int i = 0; i < n; i++) {
    int j = (i + 7) % n;
    ZP shared, pa, pb;
    TimeZone a = TimeZone::forZoneInfo(reg[i], &shared), b = TimeZone::forZoneInfo(reg[j], &shared);
    TimeZone ra = TimeZone::forZoneInfo(reg[i], &pa), rb = TimeZone::forZoneInfo(reg[j], &pb);
    static const int years[] = {2001, 2012, 2021, 2037};
    for (int y : years) for (int mo = 1; mo <= 12; mo++) for (int d : {1, 9, 27}) for (int h : {2, 13}) {
      ZonedDateTime za = ZonedDateTime::forComponents((int16_t) y, (uint8_t) mo, (uint8_t) d, (uint8_t) h, 30, 0, a);
      ZonedDateTime zb = ZonedDateTime::forComponents((int16_t) y, (uint8_t) mo, (uint8_t) d, (uint8_t) h, 30, 0, b);
      ZonedDateTime ea = ZonedDateTime::forComponents((int16_t) y, (uint8_t) mo, (uint8_t) d, (uint8_t) h, 30, 0, ra);
      ZonedDateTime eb = ZonedDateTime::forComponents((int16_t) y, (uint8_t) mo, (uint8_t) d, (uint8_t) h, 30, 0, rb);
      nq += 2;
      bool ok = za.isError() == ea.isError() && zb.isError() == eb.isError()
          && (za.isError() || (za.toEpochSeconds() == ea.toEpochSeconds() && za.timeOffset().toMinutes() == ea.timeOffset().toMinutes()))
          && (zb.isError() || (zb.toEpochSeconds() == eb.toEpochSeconds() && zb.timeOffset().toMinutes() == eb.timeOffset().toMinutes()));
      if (!ok) {
        nbad++;
        if (first.empty()) {
          char buf[400];
          snprintf(buf, sizeof buf, "{\"zones\":[%s,%s],\"wall\":[%d,%d,%d,%d,30],\"shared\":[%ld,%d,%ld,%d],\"own\":[%ld,%d,%ld,%d]}", jstr((const char*) ZONE(reg[i]).name()).c_str(), jstr((const char*) ZONE(reg[j]).name()).c_str(), y, mo, d, h,
                   (long) za.toEpochSeconds(), (int) za.timeOffset().toMinutes(), (long) zb.toEpochSeconds(), (int) zb.timeOffset().toMinutes(),
                   (long) ea.toEpochSeconds(), (int) ea.timeOffset().toMinutes(), (long) eb.toEpochSeconds(), (int) eb.timeOffset().toMinutes());
          first = buf;
        }
      }
    }
  }
  printf("{\"wallshared\":1,\"nq\":%ld,\"nbad\":%ld,\"first\":%s}\n", nq, nbad, first.empty() ? "null" : first.c_str());
  return 0;
}

int main(int argc, char** argv) {
  if (argc < 3) { fprintf(stderr, "usage\n"); return 2; }
  std::string cmd = argv[1];
  bool basic = std::string(argv[2]) == "basic";
  if (cmd == "list") {
    if (basic) for (int i = 0; i < zonedb::kZoneRegistrySize; i++) puts((const char*) BasicZone(zonedb::kZoneRegistry[i]).name());
    else for (int i = 0; i < zonedbx::kZoneRegistrySize; i++) puts((const char*) ExtendedZone(zonedbx::kZoneRegistry[i]).name());
    return 0;
  }
  if (cmd == "scan" && argc >= 10) {
    int i0 = atoi(argv[3]), i1 = atoi(argv[4]);
    long grid = atol(argv[5]), t0 = atol(argv[6]), t1 = atol(argv[7]), fs = atol(argv[8]);
    (void) argv[9];
    if (basic) return scan<basic::ZoneInfo, BasicZoneProcessor, BasicZone>(zonedb::kZoneRegistry, zonedb::kZoneRegistrySize, i0, i1, grid, t0, t1, fs);
    return scan<extended::ZoneInfo, ExtendedZoneProcessor, ExtendedZone>(zonedbx::kZoneRegistry, zonedbx::kZoneRegistrySize, i0, i1, grid, t0, t1, fs);
  }
  if (cmd == "cfgscan" && argc >= 8) {
    int a = atoi(argv[3]), b = atoi(argv[4]); long grid = atol(argv[5]), t0 = atol(argv[6]), t1 = atol(argv[7]);
    if (basic) return cfgscan<basic::ZoneInfo, BasicZoneProcessor, BasicZone, BasicZoneManager<2>>(zonedb::kZoneRegistry, zonedb::kZoneRegistrySize, a, b, grid, t0, t1);
    return cfgscan<extended::ZoneInfo, ExtendedZoneProcessor, ExtendedZone, ExtendedZoneManager<2>>(zonedbx::kZoneRegistry, zonedbx::kZoneRegistrySize, a, b, grid, t0, t1);
  }
  if (cmd == "bufs" && argc >= 5) return bufs_extended(atoi(argv[3]), atoi(argv[4]));
  if (cmd == "wallshared") {
    if (basic) return wallshared<basic::ZoneInfo, BasicZoneProcessor, BasicZone>(zonedb::kZoneRegistry, zonedb::kZoneRegistrySize);
    return wallshared<extended::ZoneInfo, ExtendedZoneProcessor, ExtendedZone>(zonedbx::kZoneRegistry, zonedbx::kZoneRegistrySize);
  }
  if (cmd == "wallraw") { g_wall_raw = true; cmd = "wall"; }
  if (cmd == "wall") {
    if (basic) return wall<basic::ZoneInfo, BasicZoneProcessor, BasicZone>(zonedb::kZoneRegistry, zonedb::kZoneRegistrySize);
    return wall<extended::ZoneInfo, ExtendedZoneProcessor, ExtendedZone>(zonedbx::kZoneRegistry, zonedbx::kZoneRegistrySize);
  }
  if (cmd == "probe" && argc >= 4) {
    int zi = atoi(argv[3]);
    if (basic) return probe<basic::ZoneInfo, BasicZoneProcessor, BasicZone>(zonedb::kZoneRegistry, zonedb::kZoneRegistrySize, zi, argc - 4, argv + 4);
    return probe<extended::ZoneInfo, ExtendedZoneProcessor, ExtendedZone>(zonedbx::kZoneRegistry, zonedbx::kZoneRegistrySize, zi, argc - 4, argv + 4);
  }
  fprintf(stderr, "bad command\n");
  return 2;
}
