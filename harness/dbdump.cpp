// Dump of a zone database *through the library's accessors* (brokers, BasicZone / ExtendedZone,
// TimeZone, registry): every field of every era / rule / zone / registry entry (properties C04, C11, C12).
//   dbdump <basic|extended>   -> one JSON object
// The policy name is not stored in the tables; policies are identified by the address of the
// ZonePolicy record ("P<n>" in order of first appearance) -- the Python side matches them structurally.
#include "drv_common.h"
#include <map>
using namespace ace_time;
Print VerifSerial;
extern "C" unsigned long millis() { return 0; }

static std::string sfx(uint8_t s) {
  if (s == basic::ZoneContext::kSuffixW) return "w";
  if (s == basic::ZoneContext::kSuffixS) return "s";
  if (s == basic::ZoneContext::kSuffixU) return "u";
  char b[16]; snprintf(b, sizeof b, "?%d", s); return b;
}

template <typename ZI, typename ZIB, typename ZEB, typename ZPB, typename ZRB, typename ZONE, typename ZP, typename MGR>
static int dump(const ZI* const* reg, int n, const char* tzver_unused) {
  std::map<const void*, int> polidx;
  std::vector<std::string> policies;
  printf("{\"zones\":[");
  MGR mgr((uint16_t) n, reg);
  for (int i = 0; i < n; i++) {
    ZIB zib(reg[i]);
    ZONE zone(reg[i]);
    ZP proc;
    TimeZone direct = TimeZone::forZoneInfo(reg[i], &proc);
    TimeZone managed = mgr.createForZoneIndex((uint16_t) i);
    Print pn; direct.printTo(pn); Print ps; direct.printShortTo(ps);
    printf("%s{\"name\":%s,\"shortName\":%s,\"zoneId\":%lu,\"tzId\":%lu,\"mgrId\":%lu,\"printTo\":%s,\"printShortTo\":%s,\"startYear\":%d,\"untilYear\":%d,\"bufSize\":%d,\"eras\":[",
        i ? "," : "", jstr((const char*) zone.name()).c_str(), jstr((const char*) zone.shortName()).c_str(), (unsigned long) zone.zoneId(),
        (unsigned long) direct.getZoneId(), (unsigned long) managed.getZoneId(), jstr(pn.buf.c_str()).c_str(), jstr(ps.buf.c_str()).c_str(),
        (int) zib.startYear(), (int) zib.untilYear(), (int) reg[i]->transitionBufSize);
    for (int e = 0; e < zib.numEras(); e++) {
      ZEB era = zib.era((uint8_t) e);
      ZPB pol = era.zonePolicy();
      int pi = -1;
      if (!pol.isNull()) {
        const void* key = (const void*) era.zoneEra()->zonePolicy;
        if (!polidx.count(key)) {
          int id = (int) policies.size();
          polidx[key] = id;
          std::string ps2 = "[";
          for (int r = 0; r < pol.numRules(); r++) {
            ZRB rule = pol.rule((uint8_t) r);
            char b[256];
            uint8_t letter = rule.letter();
            std::string ls;
            if (letter >= 32) { char t[2] = {(char) letter, 0}; ls = t; }
            else if (letter < pol.numLetters()) ls = pol.letter(letter);
            else ls = "<bad letter index>";
            snprintf(b, sizeof b, "%s{\"fromYear\":%d,\"toYear\":%d,\"inMonth\":%d,\"onDayOfWeek\":%d,\"onDayOfMonth\":%d,\"atMinutes\":%d,\"atSuffix\":\"%s\",\"deltaMinutes\":%d,\"letterRaw\":%d,\"letter\":",
                r ? "," : "", rule.fromYearTiny() + 2000, rule.toYearTiny() + 2000, rule.inMonth(), rule.onDayOfWeek(), rule.onDayOfMonth(),
                (int) rule.atTimeMinutes(), sfx(rule.atTimeSuffix()).c_str(), (int) rule.deltaMinutes(), (int) letter);
            ps2 += b; ps2 += jstr(ls.c_str()) + "}";
          }
          ps2 += "]";
          policies.push_back(ps2);
        }
        pi = polidx[key];
      }
      printf("%s{\"policy\":%d,\"format\":%s,\"offsetMinutes\":%d,\"deltaMinutes\":%d,\"untilYear\":%d,\"untilMonth\":%d,\"untilDay\":%d,\"untilMinutes\":%d,\"untilSuffix\":\"%s\"}",
          e ? "," : "", pi, jstr(era.format()).c_str(), (int) era.offsetMinutes(), (int) era.deltaMinutes(), era.untilYearTiny() + 2000,
          era.untilMonth(), era.untilDay(), (int) era.untilTimeMinutes(), sfx(era.untilTimeSuffix()).c_str());
    }
    printf("]}");
  }
  printf("],\"policies\":[");
  for (size_t k = 0; k < policies.size(); k++) printf("%s%s", k ? "," : "", policies[k].c_str());
  printf("],\"registrySize\":%d}\n", n);
  return 0;
}

int main(int argc, char** argv) {
  if (argc < 2) return 2;
  if (!strcmp(argv[1], "basic"))
    return dump<basic::ZoneInfo, basic::ZoneInfoBroker, basic::ZoneEraBroker, basic::ZonePolicyBroker, basic::ZoneRuleBroker, BasicZone, BasicZoneProcessor, BasicZoneManager<1>>(
        zonedb::kZoneRegistry, zonedb::kZoneRegistrySize, zonedb::kTzDatabaseVersion);
  return dump<extended::ZoneInfo, extended::ZoneInfoBroker, extended::ZoneEraBroker, extended::ZonePolicyBroker, extended::ZoneRuleBroker, ExtendedZone, ExtendedZoneProcessor, ExtendedZoneManager<1>>(
      zonedbx::kZoneRegistry, zonedbx::kZoneRegistrySize, zonedbx::kTzDatabaseVersion);
}
