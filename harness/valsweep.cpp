// Total error handling and sanitizer-monitored sweep of the value types
// (property C09, clauses i and ii). Built with ASan+UBSan in *recover* mode so
// that every distinct undefined-behaviour site is reported once on stderr
// ("runtime error: ...") and the run continues; semantic failures (an argument
// outside the supported range that is not flagged) are printed as JSON lines.
//
//   valsweep instants <t0> <t1> <stride>     every public operation on instants t0, t0+stride, .. < t1 and boundaries
//   valsweep components                      boundary/sampled component tuples, error values, strings
//   valsweep anyarg                          every accessor on any component values (no precondition), sanitizers decide
//   valsweep lookups                         any name / id / index on the shipped and on small registries (alarm against hangs)
#include "drv_common.h"
#include <unistd.h>
#include <ace_time/common/DateStrings.h>
using namespace ace_time;

Print VerifSerial;
extern "C" unsigned long millis() { return 0; }

static long nops = 0, nfail = 0;
static void fail(const char* what, long a, long b, long c) {
  if (nfail < 40) printf("{\"fail\":%s,\"a\":%ld,\"b\":%ld,\"c\":%ld}\n", jstr(what).c_str(), a, b, c);
  nfail++;
}
static volatile long sink;

static void on_instant(long t, const TimeZone* zones, int nz) {
  acetime_t e = (acetime_t) t;
  bool sentinel = (e == LocalDate::kInvalidEpochSeconds);
  LocalDate ld = LocalDate::forEpochSeconds(e);
  LocalDateTime ldt = LocalDateTime::forEpochSeconds(e);
  nops += 2;
  if (sentinel) {
    if (!ld.isError()) fail("LocalDate::forEpochSeconds(sentinel) not error", t, 0, 0);
    if (!ldt.isError()) fail("LocalDateTime::forEpochSeconds(sentinel) not error", t, 0, 0);
    if (ldt.toEpochSeconds() != LocalDate::kInvalidEpochSeconds) fail("error LocalDateTime::toEpochSeconds not sentinel", t, 0, 0);
  } else {
    if (ldt.isError()) fail("LocalDateTime::forEpochSeconds(valid) is error", t, 0, 0);
    else if ((long) ldt.toEpochSeconds() != t) fail("LocalDateTime round trip", t, ldt.toEpochSeconds(), 0);
    sink += (long) ld.dayOfWeek(); sink += (long) ld.toEpochDays(); sink += (long) ld.toUnixDays(); sink += (long) ldt.dayOfWeek();
    Print p; ldt.printTo(p); ld.printTo(p); sink += p.buf.size();
    // (C09 demands no undefined behaviour for any argument: no precondition is applied here)
    sink += ldt.toUnixSeconds(); sink += ld.toUnixSeconds(); sink += ld.toEpochSeconds();
    sink += LocalDateTime::forUnixSeconds(e).isError() + LocalDate::forUnixSeconds(e).isError();
    sink += LocalDate::forEpochDays(e).isError() + LocalDate::forUnixDays(e).isError();
    nops += 6;
  }
  static const int offs[] = {-960, -721, -60, -1, 0, 1, 345, 765, 960};
  for (unsigned k = 0; k < sizeof offs / sizeof offs[0]; k++) {
    long lt = t + offs[k] * 60L;
    OffsetDateTime odt = OffsetDateTime::forEpochSeconds(e, TimeOffset::forMinutes(offs[k]));
    nops++;
    if (sentinel) {
      if (!odt.isError()) fail("OffsetDateTime::forEpochSeconds(sentinel) not error", t, offs[k], 0);
      if (!OffsetDateTime::forUnixSeconds(e, TimeOffset::forMinutes(offs[k])).isError()) fail("OffsetDateTime::forUnixSeconds(sentinel) not error", t, offs[k], 0);
      continue;
    }
    sink += odt.toUnixSeconds(); sink += OffsetDateTime::forUnixSeconds(e, TimeOffset::forMinutes(offs[k])).isError();
    if (lt < INT32_MIN + 1 || lt > INT32_MAX) continue;    // the *semantic* claims below need e + offset representable (C05's precondition)
    if (odt.isError()) { fail("OffsetDateTime::forEpochSeconds(valid) is error", t, offs[k], 0); continue; }
    if ((long) odt.toEpochSeconds() != t) fail("OffsetDateTime round trip", t, offs[k], odt.toEpochSeconds());
    Print p; odt.printTo(p); sink += p.buf.size();
  }
  for (int z = 0; z < nz; z++) {
    ZonedDateTime zdt = ZonedDateTime::forEpochSeconds(e, zones[z]);
    nops++;
    if (sentinel && !zdt.isError()) fail("ZonedDateTime::forEpochSeconds(sentinel) not error", t, z, 0);
    // the Unix-seconds factory: the sentinel is the sentinel there too; other values where the epoch shift is representable
    if (sentinel || t >= (long) INT32_MIN + 946684800L) {
      ZonedDateTime zu = ZonedDateTime::forUnixSeconds(e, zones[z]);
      nops++;
      if (sentinel && !zu.isError()) fail("ZonedDateTime::forUnixSeconds(sentinel) not error", t, z, 0);
      if (!sentinel && !zu.isError() && (long) zu.toUnixSeconds() != t) fail("ZonedDateTime::forUnixSeconds round trip", t, z, zu.toUnixSeconds());
    }
    if (!zdt.isError()) {
      if ((long) zdt.toEpochSeconds() != t) fail("ZonedDateTime round trip", t, z, zdt.toEpochSeconds());
      sink += zdt.toUnixSeconds();
      Print p; zdt.printTo(p); sink += p.buf.size();
      ZonedDateTime c = zdt.convertToTimeZone(zones[(z + 1) % nz]);
      if (!c.isError() && (long) c.toEpochSeconds() != t) fail("convertToTimeZone changed the instant", t, z, c.toEpochSeconds());
      sink += zdt.compareTo(c);
    } else {
      // an error value stays an error value through every accessor
      if (zdt.toEpochSeconds() != LocalDate::kInvalidEpochSeconds) fail("error ZonedDateTime::toEpochSeconds not sentinel", t, z, zdt.toEpochSeconds());
      Print p; zdt.printTo(p); sink += p.buf.size();
    }
  }
}

static int instants(long t0, long t1, long stride) {
  BasicZoneProcessor bp; ExtendedZoneProcessor xp;
  ExtendedZoneManager<2> xm(zonedbx::kZoneRegistrySize, zonedbx::kZoneRegistry);
  TimeZone zones[6] = {
    TimeZone::forUtc(),
    TimeZone::forTimeOffset(TimeOffset::forMinutes(-480), TimeOffset::forMinutes(60)),
    TimeZone::forZoneInfo(&zonedb::kZoneAmerica_Los_Angeles, &bp),
    TimeZone::forZoneInfo(&zonedbx::kZoneAustralia_Lord_Howe, &xp),
    xm.createForZoneInfo(&zonedbx::kZoneEurope_London),
    TimeZone::forError(),
  };
  for (long t = t0; t < t1; t += stride) on_instant(t, zones, 6);
  // boundaries inside [t0, t1): int32 limits, sentinel, year and day boundaries +-2 s
  static const long special[] = {INT32_MIN, INT32_MIN + 1, INT32_MIN + 2, INT32_MIN + 86400, -1, 0, 1, INT32_MAX - 86400, INT32_MAX - 1, INT32_MAX};
  for (unsigned k = 0; k < sizeof special / sizeof special[0]; k++) if (special[k] >= t0 && special[k] < t1) on_instant(special[k], zones, 6);
  for (long y = 1931; y <= 2069; y++) {
    long b = days_from_civil(y, 1, 1) * 86400L;
    for (long d = -2; d <= 2; d++) { long t = b + d; if (t >= t0 && t < t1 && t >= INT32_MIN && t <= INT32_MAX) on_instant(t, zones, 6); }
  }
  printf("{\"done\":1,\"nops\":%ld,\"nfail\":%ld}\n", nops, nfail);
  return 0;
}

static int components() {
  static const int years[] = {-32768, -1, 0, 1871, 1872, 1873, 1931, 1999, 2000, 2049, 2050, 2068, 2127, 2128, 9999, 32767};
  static const int months[] = {0, 1, 2, 6, 12, 13, 255};
  static const int days[] = {0, 1, 28, 29, 30, 31, 32, 255};
  static const int hours[] = {0, 1, 23, 24, 25, 255};
  static const int mins[] = {0, 59, 60, 255};
  BasicZoneProcessor bp; ExtendedZoneProcessor xp;
  TimeZone zones[4] = { TimeZone::forUtc(), TimeZone::forZoneInfo(&zonedb::kZoneAmerica_Los_Angeles, &bp),
    TimeZone::forZoneInfo(&zonedbx::kZoneEurope_London, &xp), TimeZone::forError() };
  for (int y : years) for (int m : months) for (int d : days) {
    LocalDate ld = LocalDate::forComponents((int16_t) y, (uint8_t) m, (uint8_t) d);
    nops++;
    bool valid_fields = (y >= 1873 && y <= 2127 && m >= 1 && m <= 12 && d >= 1 && d <= 31);
    if (!valid_fields && !ld.isError()) fail("invalid date components not flagged by isError", y, m, d);
    if (valid_fields && ld.isError()) fail("valid date components flagged as error", y, m, d);
    if (!ld.isError()) {
      sink += (long) ld.dayOfWeek(); sink += (long) ld.toEpochDays();
      sink += (long) ld.toEpochSeconds(); sink += (long) ld.toUnixSeconds(); sink += (long) ld.toUnixDays();
      Print p; ld.printTo(p); sink += p.buf.size();
      LocalDate inc = ld; local_date_mutation::incrementOneDay(inc); local_date_mutation::decrementOneDay(inc);
    } else {
      if (ld.toEpochDays() != LocalDate::kInvalidEpochDays) fail("error LocalDate::toEpochDays not sentinel", y, m, d);
      if (ld.toEpochSeconds() != LocalDate::kInvalidEpochSeconds) fail("error LocalDate::toEpochSeconds not sentinel", y, m, d);
      Print p; ld.printTo(p); sink += p.buf.size();
    }
    for (int h : hours) for (int mi : mins) {
      int s = (mi == 59) ? 60 : mi;   // vary seconds with minutes
      LocalDateTime ldt = LocalDateTime::forComponents((int16_t) y, (uint8_t) m, (uint8_t) d, (uint8_t) h, (uint8_t) mi, (uint8_t) s);
      nops++;
      bool tvalid = (h <= 23 && mi <= 59 && s <= 59) || (h == 24 && mi == 0 && s == 0);
      if (!(valid_fields && tvalid) && !ldt.isError()) fail("invalid date-time components not flagged", y * 10000L + m * 100 + d, h * 10000L + mi * 100 + s, 0);
      if (ldt.isError()) {
        if (ldt.toEpochSeconds() != LocalDate::kInvalidEpochSeconds) fail("error LocalDateTime::toEpochSeconds not sentinel", y, m, d);
      } else { sink += (long) ldt.toEpochSeconds(); sink += (long) ldt.toUnixSeconds(); }
      Print p; ldt.printTo(p); sink += p.buf.size();
      for (int z = 0; z < 4; z++) {
        ZonedDateTime zdt = ZonedDateTime::forComponents((int16_t) y, (uint8_t) m, (uint8_t) d, (uint8_t) h, (uint8_t) mi, (uint8_t) s, zones[z]);
        nops++;
        if ((!(valid_fields && tvalid) || z == 3) && !zdt.isError()) fail("ZonedDateTime::forComponents(invalid) not flagged", y * 10000L + m * 100 + d, h * 10000L + mi * 100 + s, z);
        // years outside the zone data must give an error for database zones, every time
        if (z == 1 || z == 2) {
          if ((y < 1999 || y > 2050) && !zdt.isError()) fail("forComponents outside the zone data not flagged", y, z, 0);
          ZonedDateTime again = ZonedDateTime::forComponents((int16_t) y, (uint8_t) m, (uint8_t) d, (uint8_t) h, (uint8_t) mi, (uint8_t) s, zones[z]);
          if (again.isError() != zdt.isError()) fail("repeated forComponents changes its error status", y, z, 1);
        }
        Print q; zdt.printTo(q); sink += q.buf.size();
        if (zdt.isError() && zdt.toEpochSeconds() != LocalDate::kInvalidEpochSeconds) fail("error ZonedDateTime::toEpochSeconds not sentinel", y, z, 2);
      }
    }
  }
  // the setters of the manual kind are documented as no-ops on every other kind: a zone-backed (or error) time zone must
  // answer exactly as before after they were called on it
  {
    BasicZoneProcessor bq; ExtendedZoneProcessor xq;
    BasicZoneManager<2> bmq(zonedb::kZoneRegistrySize, zonedb::kZoneRegistry);
    ExtendedZoneManager<2> xmq(zonedbx::kZoneRegistrySize, zonedbx::kZoneRegistry);
    TimeZone zs[6] = { TimeZone::forZoneInfo(&zonedb::kZoneAmerica_Los_Angeles, &bq), TimeZone::forZoneInfo(&zonedbx::kZoneEurope_London, &xq),
                       bmq.createForZoneIndex(5), xmq.createForZoneIndex(7), TimeZone::forError(), TimeZone::forUtc() };
    static const int vals[] = {-32768, -961, -60, 0, 60, 345, 32767};
    for (int k = 0; k < 6; k++) for (int v : vals) {
      TimeZone before = zs[k];
      TimeZone tz = zs[k];
      tz.setDstOffset(TimeOffset::forMinutes((int16_t) v));
      if (k != 5) tz.setStdOffset(TimeOffset::forMinutes((int16_t) (v / 2)));
      nops += 2;
      if (k < 5) {
        if (!(tz == before) || tz.getZoneId() != before.getZoneId() || tz.getType() != before.getType()) fail("setter of the manual kind changed a time zone of another kind", k, v, 0);
        TimeOffset a = tz.getUtcOffset((acetime_t) 300000000), b = before.getUtcOffset((acetime_t) 300000000);
        if (a.isError() != b.isError() || (!a.isError() && a.toMinutes() != b.toMinutes())) fail("time zone answers differently after a manual-kind setter", k, v, 1);
        Print p1, p2; tz.printTo(p1); before.printTo(p2);
        if (p1.buf != p2.buf) fail("time zone prints differently after a manual-kind setter", k, v, 2);
      }
    }
  }
  // time offsets, periods, mutation helpers on every int16 / byte value
  for (long v = -32768; v <= 32767; v++) {
    TimeOffset o = TimeOffset::forMinutes((int16_t) v);
    nops++;
    if (v == -32768) { if (!o.isError()) fail("TimeOffset error sentinel not flagged", v, 0, 0); }
    else { sink += o.toSeconds(); int8_t h; int8_t mi; o.toHourMinute(h, mi); Print p; o.printTo(p); sink += p.buf.size() + h + mi; }
    if (v >= -960 && v <= 960) { TimeOffset c = o; time_offset_mutation::increment15Minutes(c); sink += c.toMinutes(); }
  }
  for (long v = -921599; v <= 921599; v += 37) { TimePeriod p((int32_t) v); sink += p.toSeconds(); Print q; p.printTo(q); sink += q.buf.size(); nops++; }
  for (int a = 0; a < 256; a++) {
    TimePeriod p((uint8_t) a, (uint8_t) (a % 60), (uint8_t) ((a * 7) % 60), (a & 1) ? 1 : -1);
    time_period_mutation::incrementHour(p); time_period_mutation::incrementMinute(p); time_period_mutation::negate(p);
    sink += p.toSeconds(); Print q; p.printTo(q); sink += q.buf.size();
    ZonedDateTime z = ZonedDateTime::forComponents(2000 + (a % 50), (uint8_t) (a % 12 + 1), (uint8_t) (a % 28 + 1), (uint8_t) (a % 24), (uint8_t) (a % 60), 0, zones[0]);
    zoned_date_time_mutation::incrementYear(z); zoned_date_time_mutation::incrementMonth(z); zoned_date_time_mutation::incrementDay(z);
    zoned_date_time_mutation::incrementHour(z); zoned_date_time_mutation::incrementMinute(z);
    nops += 8;
  }
  // strings: every prefix of valid texts, and garbage
  static const char* texts[] = {"2018-08-31T13:48:01-07:00[America/Los_Angeles]", "2000-01-01T00:00:00+00:00[UTC]", "1873-12-31T23:59:59-16:00", "xxxx-xx-xxTxx:xx:xx+xx:xx", "2127-12-31T24:00:00+16:00", ""};
  for (const char* t : texts) {
    std::string full = t;
    for (size_t n = 0; n <= full.size(); n++) {
      std::string s = full.substr(0, n);
      LocalDate a = LocalDate::forDateString(s.c_str()); LocalDateTime b = LocalDateTime::forDateString(s.c_str());
      OffsetDateTime c = OffsetDateTime::forDateString(s.c_str()); ZonedDateTime d = ZonedDateTime::forDateString(s.c_str());
      LocalTime e = LocalTime::forTimeString(s.c_str()); TimeOffset f = TimeOffset::forOffsetString(s.c_str());
      nops += 6;
      if (n < 10 && !a.isError()) fail("too-short date string parsed", (long) n, 0, 0);
      if (n < 19 && !b.isError()) fail("too-short date-time string parsed", (long) n, 0, 1);
      if (n < 25 && !c.isError()) fail("too-short offset date-time string parsed", (long) n, 0, 2);
      if (n < 25 && !d.isError()) fail("too-short zoned date-time string parsed", (long) n, 0, 3);
      if (n < 8 && !e.isError()) fail("too-short time string parsed", (long) n, 0, 4);
      if (n < 6 && !f.isError()) fail("too-short offset string parsed", (long) n, 0, 5);
      sink += a.isError() + b.isError() + c.isError() + d.isError() + e.isError() + f.isError();
      // the flash-string overloads copy into a fixed buffer: every length, also beyond the buffer (each string lives in
      // an exactly sized heap block, so that a read or write past its end is seen by the sanitizer)
      {
        char* heap = (char*) malloc(n + 1); memcpy(heap, s.c_str(), n + 1);
        const __FlashStringHelper* fs = (const __FlashStringHelper*) heap;
        LocalDateTime fb = LocalDateTime::forDateString(fs); OffsetDateTime fc = OffsetDateTime::forDateString(fs); ZonedDateTime fd = ZonedDateTime::forDateString(fs);
        nops += 3;
        if ((n < 19 || n > 19) && !fb.isError()) fail("flash-string date-time of a wrong length parsed", (long) n, 0, 6);
        if ((n < 25 || n > 25) && (!fc.isError() || !fd.isError())) fail("flash-string offset/zoned date-time of a wrong length parsed", (long) n, 0, 7);
        free(heap);
      }
    }
    // ... and much longer than any buffer
    for (size_t n : {(size_t) 26, (size_t) 27, (size_t) 28, (size_t) 40, (size_t) 64, (size_t) 300}) {
      std::string s = full; while (s.size() < n) s += "0123456789"[s.size() % 10]; s.resize(n);
      char* heap = (char*) malloc(n + 1); memcpy(heap, s.c_str(), n + 1);
      const __FlashStringHelper* fs = (const __FlashStringHelper*) heap;
      LocalDateTime fb = LocalDateTime::forDateString(fs); OffsetDateTime fc = OffsetDateTime::forDateString(fs); ZonedDateTime fd = ZonedDateTime::forDateString(fs);
      nops += 3;
      if (!fb.isError() || !fc.isError() || !fd.isError()) fail("flash-string text longer than the documented length parsed", (long) n, 0, 8);
      free(heap);
    }
  }
  printf("{\"done\":1,\"nops\":%ld,\"nfail\":%ld}\n", nops, nfail);
  return 0;
}


// anyarg: every public accessor of the value types on ANY component values, error values included -- C09 allows no
// precondition ("for any argument values"); the sanitizers decide. Nothing is compared here.
static int anyarg(bool want_valid) {
  // two passes, so that a finding is identified by its input class: `valid` = every component within its documented range
  // (a real calendar date / time of day), `invalid` = everything else
#define CLASS_OK(isvalid) ((isvalid) == want_valid)
  static const int years[] = {-32768, -1, 0, 1872, 1873, 1900, 2000, 2100, 2127, 2128, 9999, 32767};
  LocalDate ref = LocalDate::forComponents(2000, 1, 1);
  for (int y : years) for (int m = 0; m < 256; m++) {
    bool ymvalid = (y >= 1873 && y <= 2127 && m >= 1 && m <= 12);
    if (CLASS_OK(ymvalid)) { sink += LocalDate::daysInMonth((int16_t) y, (uint8_t) m); sink += LocalDate::isLeapYear((int16_t) y); }
    nops += 2;
    for (int d = 0; d < 256; d += (m <= 13 || m >= 250 ? 1 : 17)) {
      bool dvalid = ymvalid && d >= 1 && d <= (int) (m == 2 ? (((y % 4 == 0 && y % 100 != 0) || y % 400 == 0) ? 29 : 28) : ((m == 4 || m == 6 || m == 9 || m == 11) ? 30 : 31));
      if (!CLASS_OK(dvalid)) continue;
      LocalDate ld = LocalDate::forComponents((int16_t) y, (uint8_t) m, (uint8_t) d);
      sink += ld.dayOfWeek(); sink += ld.toEpochDays(); sink += ld.toEpochSeconds(); sink += ld.toUnixDays(); sink += ld.toUnixSeconds();
      sink += ld.compareTo(ref) + (ld == ref) + ld.year() + ld.yearTiny() + ld.month() + ld.day() + ld.isError();
      Print p; ld.printTo(p); sink += p.buf.size();
      LocalDate t = LocalDate::forTinyComponents((int8_t) (y & 0xff), (uint8_t) m, (uint8_t) d);
      sink += t.dayOfWeek(); sink += t.toEpochDays();
      LocalDate inc = ld; local_date_mutation::incrementOneDay(inc); LocalDate dec = ld; local_date_mutation::decrementOneDay(dec);
      sink += inc.day() + dec.day();
      nops += 12;
      if (d % 16 == 0 || d <= 32) {
        LocalDateTime ldt = LocalDateTime::forComponents((int16_t) y, (uint8_t) m, (uint8_t) d, (uint8_t) (d % 30), (uint8_t) (m % 70), (uint8_t) (d % 70));
        sink += ldt.dayOfWeek(); sink += ldt.toEpochDays(); sink += ldt.toEpochSeconds(); sink += ldt.toUnixDays(); sink += ldt.toUnixSeconds();
        Print q; ldt.printTo(q); sink += q.buf.size();
        OffsetDateTime odt = OffsetDateTime::forComponents((int16_t) y, (uint8_t) m, (uint8_t) d, (uint8_t) (d % 30), (uint8_t) (m % 70), (uint8_t) (d % 70), TimeOffset::forMinutes((int16_t) ((m * 37) % 2000 - 1000)));
        sink += odt.dayOfWeek(); sink += odt.toEpochDays(); sink += odt.toEpochSeconds(); sink += odt.toUnixSeconds();
        sink += odt.convertToTimeOffset(TimeOffset::forHours(5)).isError();
        Print r; odt.printTo(r); sink += r.buf.size();
        ZonedDateTime zdt = ZonedDateTime::forComponents((int16_t) y, (uint8_t) m, (uint8_t) d, (uint8_t) (d % 30), (uint8_t) (m % 70), (uint8_t) (d % 70), TimeZone::forUtc());
        sink += zdt.dayOfWeek(); sink += zdt.toEpochSeconds(); sink += zdt.convertToTimeZone(TimeZone::forTimeOffset(TimeOffset::forHours(-8))).isError();
        Print u; zdt.printTo(u); sink += u.buf.size();
        nops += 18;
      }
    }
  }
  for (int h = 0; h < 256; h++) for (int mi = 0; mi < 256; mi++) for (int sc = 0; sc < 256; sc += (h <= 25 ? 1 : 51)) {
    if (!CLASS_OK(h < 24 && mi < 60 && sc < 60)) continue;
    LocalTime lt = LocalTime::forComponents((uint8_t) h, (uint8_t) mi, (uint8_t) sc);
    sink += lt.toSeconds() + lt.isError() + lt.compareTo(LocalTime::forComponents(1, 2, 3));
    nops += 3;
    if (sc % 64 == 0) { Print p; lt.printTo(p); sink += p.buf.size(); }
  }
  ace_time::DateStrings ds;
  for (int v = 0; v < 256; v++) {
    if (!CLASS_OK(v >= 1 && v <= 7)) continue;
    sink += strlen(ds.dayOfWeekLongString((uint8_t) v)); sink += strlen(ds.dayOfWeekShortString((uint8_t) v));
    sink += strlen(ds.monthLongString((uint8_t) v)); sink += strlen(ds.monthShortString((uint8_t) v));
    for (int w = 0; w < 256; w++) {
      TimeOffset o = TimeOffset::forHourMinute((int8_t) v, (int8_t) w); sink += o.toMinutes() + o.isError();
      Print p; o.printTo(p); sink += p.buf.size();
      TimePeriod tp((uint8_t) v, (uint8_t) w, (uint8_t) (v ^ w), (w & 1) ? 1 : -1); sink += tp.toSeconds(); Print q; tp.printTo(q); sink += q.buf.size();
      nops += 4;
    }
    sink += TimeOffset::forHours((int8_t) v).toMinutes();
    nops += 5;
  }
  printf("{\"done\":1,\"nops\":%ld,\"nfail\":%ld}\n", nops, nfail);
  return 0;
}

// lookups by any name, id and index on the shipped registries and on small registries: no crash, no hang (an alarm ends the
// process), no read outside the registry (the sanitizer reports it), not-found for everything absent
template <typename MGR, typename ZI>
static void lookups_on(const ZI* const* reg, uint16_t n, int tag) {
  MGR mgr(n, reg);
  static const char* names[] = {"", "0", "+01:00", "-", "A", "AAA", "Africa", "Africa/", "Africa/Aaa", "Africa/Abidja", "Africa/Abidjan ", "Africa/Abidjao",
      "America/Zzz", "Asia/Aaa", "Europe/Zurich0", "Europe/Zuricg", "Pacific/Zzz", "UTB", "US/Pacific-Nes", "WES", "WET ", "WEU", "Zulu", "zzz", "~", "\x7f\x7f", "\xc3\xa9", "a"};
  for (const char* nm : names) {
    TimeZone tz = mgr.createForZoneName(nm);
    nops++;
    bool present = false;
    for (uint16_t i = 0; i < n; i++) { TimeZone t2 = mgr.createForZoneIndex(i); Print p; t2.printTo(p); if (p.buf == nm) present = true; }
    if (!present && !tz.isError()) fail("createForZoneName of an absent name is not the error zone", tag, (long) strlen(nm), 0);
    if (mgr.indexForZoneName(nm) != 0xffff && !present) fail("indexForZoneName of an absent name is not kInvalidIndex", tag, (long) strlen(nm), 0);
  }
  static const uint32_t ids[] = {0, 1, 0x7fffffff, 0x80000000u, 0xffffffffu, 5381};
  for (uint32_t id : ids) { TimeZone tz = mgr.createForZoneId(id); nops++; if (!tz.isError() && tz.getZoneId() != id) fail("createForZoneId returns another zone", tag, (long) id, 0); sink += mgr.indexForZoneId(id); }
  for (long ix : {(long) n, (long) n + 1, 255L, 256L, 32767L, 65534L, 65535L}) { TimeZone tz = mgr.createForZoneIndex((uint16_t) ix); nops++; if (ix >= n && !tz.isError()) fail("createForZoneIndex beyond the registry is not the error zone", tag, ix, 0); }
}

static int lookups() {
  alarm(60);
  lookups_on<BasicZoneManager<2>, basic::ZoneInfo>(zonedb::kZoneRegistry, zonedb::kZoneRegistrySize, 0);
  lookups_on<ExtendedZoneManager<2>, extended::ZoneInfo>(zonedbx::kZoneRegistry, zonedbx::kZoneRegistrySize, 1);
  // registries of sizes 0..9 (below and above the size at which the registrar switches to binary search), starting at
  // several positions of the sorted shipped registry
  for (uint16_t n = 0; n <= 9; n++) for (uint16_t start : {(uint16_t) 0, (uint16_t) 100, (uint16_t) (zonedb::kZoneRegistrySize - n)}) {
    lookups_on<BasicZoneManager<2>, basic::ZoneInfo>(zonedb::kZoneRegistry + start, n, 100 + n);
    lookups_on<ExtendedZoneManager<2>, extended::ZoneInfo>(zonedbx::kZoneRegistry + start, n, 200 + n);
  }
  printf("{\"done\":1,\"nops\":%ld,\"nfail\":%ld}\n", nops, nfail);
  return 0;
}

int main(int argc, char** argv) {
  if (argc >= 2 && !strcmp(argv[1], "lookups")) return lookups();
  if (argc >= 3 && !strcmp(argv[1], "anyarg")) return anyarg(!strcmp(argv[2], "valid"));
  if (argc >= 5 && !strcmp(argv[1], "instants")) return instants(atol(argv[2]), atol(argv[3]), atol(argv[4]));
  if (argc >= 2 && !strcmp(argv[1], "components")) return components();
  return 2;
}
