// Driver for SystemClock / SystemClockLoop (properties C13, C14; DESIGN.md P1/P2/P4).
//
//   clockdrv sc          scripts on stdin against a SystemClock with injected clockMillis():
//        S <id> <base> <phase>      new clock; counter starts at base + phase (base = multiple of 65536)
//        A <d> | G | K | T <v|inv>  advance counter / getNow() / keepAlive() / setNow(v)
//        U <v|inv> | F <v|inv>      setup() with the backup clock reporting v / forceSync() with the reference clock reporting v (S ... ref)
//   clockdrv scloop      the same scripts on a SystemClockLoop without reference clock, K = loop()
//        E                          end: prints {"id":..,"steps":[[epoch,prev,init,last,bw,bv,reading],..]}
//   clockdrv scl         scripts against a SystemClockLoop:
//        S <id> <sync> <initial> <timeout> <mode distinct|same|none> <base> [<preset|inv>]
//        L <d> <ready 0|1> <rv|inv>  let d ms pass, put the reference clock in that state, call loop(), read state then getNow()
//        Q <d> <ready 0|1> <rv|inv>  the same without reading anything afterwards
//        E
//   clockdrv sweep <phase0> <phase1> <gapmode all|boundary>
//        set(T)@m0, one poll after `gap` ms, for phases [phase0,phase1) x gaps; prints mismatches
#include <stdio.h>
#include <stdlib.h>
#include <string.h>
#include <string>
#include <vector>
// VERIF_UL: the type of millis(). The 32-bit variant of this driver is compiled against copies of the clock headers
// in which `unsigned long` is replaced by uint32_t (generated from the working tree at build time, vf/clocks.py),
// so that the wrap of millis() at 2^32 -- which a 64-bit host never reaches -- is exercised.
#ifndef VERIF_UL
#define VERIF_UL unsigned long
#endif
#define private public
#define protected public
#include "drv_common.h"
#include <ace_time/clock/Clock.h>
#include <ace_time/clock/SystemClock.h>
#include <ace_time/clock/SystemClockLoop.h>
#undef private
#undef protected
using namespace ace_time;
using namespace ace_time::clock;

Print VerifSerial;
extern "C" VERIF_UL millis() { return 0; }

static const long INV = (long) INT32_MIN;

struct RecClock : public Clock {
  acetime_t value = Clock::kInvalidSeconds;   // what getNow()/readResponse() report
  bool ready = false;
  mutable long requests = 0;
  long sets = 0;
  acetime_t lastSet = Clock::kInvalidSeconds;
  acetime_t getNow() const override { return value; }
  void sendRequest() const override { requests++; }
  bool isResponseReady() const override { return ready; }
  acetime_t readResponse() const override { return value; }
  void setNow(acetime_t v) override { sets++; lastSet = v; }
};

struct SC : public SystemClock {
  VERIF_UL fake = 0;
  SC(Clock* r, Clock* b) : SystemClock(r, b) {}
  void poll() { keepAlive(); }
  VERIF_UL clockMillis() const override { return fake; }
  long epoch() const { return mEpochSeconds; }
  long prev() const { return mPrevMillis; }
  long last() const { return mLastSyncTime; }
};

struct SCL : public SystemClockLoop {
  VERIF_UL fake = 0;
  SCL(Clock* r, Clock* b, uint16_t sync, uint16_t initial, uint16_t timeout) : SystemClockLoop(r, b, sync, initial, timeout) {}
  SCL(Clock* r, Clock* b) : SystemClockLoop(r, b) {}
  void poll() { loop(); }      // the documented maintenance call
  VERIF_UL clockMillis() const override { return fake; }
  long epoch() const { return mEpochSeconds; }
  long prev() const { return mPrevMillis; }
  long last() const { return mLastSyncTime; }
};

static std::string num(long v) { if (v == INV) return "\"inv\""; char b[32]; snprintf(b, sizeof b, "%ld", v); return b; }
static long parse_v(const char* s) { return !strcmp(s, "inv") ? INV : atol(s); }

template <typename C>
static int run_sc() {
  char line[256];
  RecClock* backup = nullptr; RecClock* ref = nullptr; C* c = nullptr;
  std::string out;
  while (fgets(line, sizeof line, stdin)) {
    char a[64], b[64], d[64], kind[64];
    if (line[0] == 'S') {
      strcpy(kind, "plain");
      sscanf(line, "S %63s %63s %63s %63s", a, b, d, kind);
      delete c; delete backup; delete ref;
      // kind "ref": the clock also has a reference clock (needed by forceSync())
      backup = new RecClock(); ref = new RecClock(); c = new C(!strcmp(kind, "ref") ? ref : nullptr, backup);
      c->fake = strtoul(b, nullptr, 10) + strtoul(d, nullptr, 10);
      out = std::string("{\"id\":\"") + a + "\",\"steps\":[";
    } else if (line[0] == 'E') {
      if (out.back() == ',') out.pop_back();
      out += "]}"; puts(out.c_str());
    } else if (c) {
      long reading = INV; bool isget = false;
      if (line[0] == 'A') { sscanf(line, "A %63s", a); c->fake += strtoul(a, nullptr, 10); }
      else if (line[0] == 'G') { reading = c->getNow(); isget = true; }
      else if (line[0] == 'K') { c->poll(); }
      else if (line[0] == 'T') { sscanf(line, "T %63s", a); c->setNow((acetime_t) parse_v(a)); }
      // the two other documented ways of setting the clock: setup() takes the value from the backup clock, forceSync() from
      // the reference clock
      else if (line[0] == 'U') { sscanf(line, "U %63s", a); backup->value = (acetime_t) parse_v(a); c->setup(); }
      else if (line[0] == 'F') { sscanf(line, "F %63s", a); ref->value = (acetime_t) parse_v(a); c->forceSync(); }
      // syncNow(v): the entry point the subclasses (loop(), runCoroutine()) use when a response arrives
      else if (line[0] == 'Y') { sscanf(line, "Y %63s", a); c->syncNow((acetime_t) parse_v(a)); }
      out += "[" + num(c->epoch()) + "," + num(c->prev()) + "," + (c->isInit() ? "1" : "0") + "," + num(c->last()) + ","
          + num(backup->sets) + "," + num(backup->lastSet) + "," + (isget ? num(reading) : std::string("null")) + "," + num(backup->requests) + "],";   // (a backup clock is written to, never asked for the time)
    }
  }
  return 0;
}

static const char* status_name(uint8_t st) {
  switch (st) { case 0: return "Ready"; case 1: return "Sent"; case 2: return "Ok"; case 3: return "Wait"; }
  return "?";
}

static int run_scl() {
  char line[256];
  RecClock* ref = nullptr; RecClock* backup = nullptr; SCL* c = nullptr;
  std::string out; std::string mode;
  while (fgets(line, sizeof line, stdin)) {
    char a[64], m[32], base[64], preset[64]; int sync, initial, timeout;
    if (line[0] == 'S') {
      strcpy(preset, "inv");
      sscanf(line, "S %63s %d %d %d %31s %63s %63s", a, &sync, &initial, &timeout, m, base, preset);
      delete c; delete ref; delete backup;
      mode = m;
      ref = new RecClock(); backup = new RecClock();
      Clock* r = (mode == "none") ? nullptr : ref;
      Clock* b = (mode == "same") ? (Clock*) ref : (Clock*) backup;
      c = new SCL(r, b, (uint16_t) sync, (uint16_t) initial, (uint16_t) timeout);
      c->fake = strtoul(base, nullptr, 10);
      // members the constructor leaves uninitialised are given the value the specification starts from
      c->mLastSyncMillis = c->fake; c->mRequestStartMillis = c->fake;
      // the application sets the clock before the first loop() call
      if (strcmp(preset, "inv")) c->setNow((acetime_t) atol(preset));
      out = std::string("{\"id\":\"") + a + "\",\"steps\":[";
    } else if (line[0] == 'E') {
      if (out.back() == ',') out.pop_back();
      out += "]}"; puts(out.c_str());
    } else if (line[0] == 'Q' && c) {
      // a loop() call after which the application looks at nothing (no getNow(), no state read)
      char d[64], rv[64]; int ready;
      sscanf(line, "Q %63s %d %63s", d, &ready, rv);
      c->fake += strtoul(d, nullptr, 10);
      ref->ready = ready != 0;
      ref->value = (acetime_t) parse_v(rv);
      c->loop();
    } else if (line[0] == 'L' && c) {
      char d[64], rv[64]; int ready;
      sscanf(line, "L %63s %d %63s", d, &ready, rv);
      c->fake += strtoul(d, nullptr, 10);
      ref->ready = ready != 0;
      ref->value = (acetime_t) parse_v(rv);
      c->loop();
      RecClock* bk = (mode == "same") ? ref : backup;
      // [status, cur, reqStart, lastSyncMs, epoch, prev, init, lastSyncTime, backupVal, backupWrites, requests, reading]
      char buf[64];
      out += std::string("[\"") + status_name(c->mRequestStatus) + "\",";
      snprintf(buf, sizeof buf, "%u,%lu,%lu,", (unsigned) c->mCurrentSyncPeriodSeconds, (unsigned long) c->mRequestStartMillis, (unsigned long) c->mLastSyncMillis); out += buf;
      // the object's state is read before getNow(), which folds elapsed time into it
      long e0 = c->epoch(), p0 = c->prev(), l0 = c->last();
      bool i0 = c->isInit();
      long reading = c->getNow();
      out += num(e0) + "," + num(p0) + "," + (i0 ? "1" : "0") + "," + num(l0) + ","
          + num(bk->lastSet) + "," + num(bk->sets) + "," + num(ref->requests) + "," + num(reading) + "," + num(c->getLastSyncTime()) + "],";
    }
  }
  return 0;
}



int main(int argc, char** argv) {
  if (argc < 2) return 2;
  std::string cmd = argv[1];
  if (cmd == "sc") return run_sc<SC>();
  if (cmd == "scloop") return run_sc<SCL>();
  if (cmd == "scl") return run_scl();
  if (cmd == "sweep" && argc >= 5) {
    long p0 = atol(argv[2]), p1 = atol(argv[3]);
    bool all = !strcmp(argv[4], "all");
    static const long bg[] = {1, 2, 499, 500, 999, 1000, 1001, 1999, 2000, 2001, 32767, 32768, 32769, 59999, 60000, 63999, 64000, 64001, 64534, 64535, 64536};
    long n = 0, bad = 0;
    unsigned long bases[] = {0UL, 65536UL * 5, 4294967296UL - 65536UL, 4294967296UL * 3 - 65536UL * 2};
    for (long m0 = p0; m0 < p1; m0++) {
      unsigned long base = bases[m0 % 4];
      long ng = all ? 64536 : (long) (sizeof bg / sizeof bg[0]);
      for (long gi = 0; gi < ng; gi++) {
        long gap = all ? gi + 1 : bg[gi];
        RecClock backup; SC c(nullptr, &backup);
        c.fake = base + m0;
        long T = 1000000 + (m0 % 7);
        c.setNow((acetime_t) T);
        c.fake += gap;
        long r = c.getNow();
        n++;
        if (r != T + gap / 1000) { if (bad < 20) printf("{\"m0\":%ld,\"gap\":%ld,\"base\":%lu,\"got\":%ld,\"want\":%ld}\n", m0, gap, base, r, T + gap / 1000); bad++; }
        // second poll after a further gap (two-step schedule), still within the bound
        long gap2 = (gap * 7919 + m0) % 64536 + 1;
        c.fake += gap2;
        long r2 = c.getNow();
        n++;
        if (r2 != T + (gap + gap2) / 1000) { if (bad < 20) printf("{\"m0\":%ld,\"gap\":%ld,\"gap2\":%ld,\"base\":%lu,\"got\":%ld,\"want\":%ld}\n", m0, gap, gap2, base, r2, T + (gap + gap2) / 1000); bad++; }
      }
    }
    printf("{\"done\":1,\"n\":%ld,\"bad\":%ld}\n", n, bad);
    return 0;
  }
  return 2;
}
