// Shared helpers of the /verif C++ drivers (not part of the code under test).
#ifndef VERIF_DRV_COMMON_H
#define VERIF_DRV_COMMON_H
#include <Arduino.h>
#include <stdio.h>
#include <stdlib.h>
#include <stdint.h>
#include <string.h>
#include <string>
#include <vector>
#include <ace_time/common/compat.h>
#include <ace_time/common/common.h>
#include <ace_time/LocalDate.h>
#include <ace_time/LocalTime.h>
#include <ace_time/LocalDateTime.h>
#include <ace_time/TimeOffset.h>
#include <ace_time/OffsetDateTime.h>
#include <ace_time/ZoneProcessor.h>
#include <ace_time/BasicZoneProcessor.h>
#include <ace_time/ExtendedZoneProcessor.h>
#include <ace_time/ZoneProcessorCache.h>
#include <ace_time/ZoneRegistrar.h>
#include <ace_time/ZoneManager.h>
#include <ace_time/TimeZoneData.h>
#include <ace_time/TimeZone.h>
#include <ace_time/BasicZone.h>
#include <ace_time/ExtendedZone.h>
#include <ace_time/ZonedDateTime.h>
#include <ace_time/TimePeriod.h>
#include <ace_time/local_date_mutation.h>
#include <ace_time/time_offset_mutation.h>
#include <ace_time/time_period_mutation.h>
#include <ace_time/zoned_date_time_mutation.h>
#include <ace_time/zonedb/zone_policies.h>
#include <ace_time/zonedb/zone_infos.h>
#include <ace_time/zonedb/zone_registry.h>
#include <ace_time/zonedbx/zone_policies.h>
#include <ace_time/zonedbx/zone_infos.h>
#include <ace_time/zonedbx/zone_registry.h>

// ---- definitions required by the guarded hooks in /repo (H1, H2) ----
long ace_time_verif_basic_dropped = 0;                 // H1: transitions dropped by BasicZoneProcessor::addTransition
struct PoolEvent { uint8_t op, prior, cand, free; };
static std::vector<PoolEvent> g_pool_events;           // H2: TransitionStorage pool operations
static bool g_pool_record = false;
void ace_time_verif_pool_event(uint8_t op, uint8_t indexPrior, uint8_t indexCandidates, uint8_t indexFree) {
  if (g_pool_record) g_pool_events.push_back(PoolEvent{op, indexPrior, indexCandidates, indexFree});
}

// independent civil calendar (Howard Hinnant's algorithms), 64-bit, used as
// harness-side reference; itself cross-checked against the TLC table in C06
struct Civil { long y; int m; int d; };
static inline Civil civil_from_days(long z0) {   // z0: days since 2000-01-01
  long z = z0 + 10957 + 719468;
  long era = (z >= 0 ? z : z - 146096) / 146097;
  long doe = z - era * 146097;
  long yoe = (doe - doe / 1460 + doe / 36524 - doe / 146096) / 365;
  long y = yoe + era * 400;
  long doy = doe - (365 * yoe + yoe / 4 - yoe / 100);
  long mp = (5 * doy + 2) / 153;
  int d = (int) (doy - (153 * mp + 2) / 5 + 1);
  int m = (int) (mp < 10 ? mp + 3 : mp - 9);
  Civil c = { y + (m <= 2), m, d };
  return c;
}
static inline long days_from_civil(long y, int m, int d) {   // days since 2000-01-01
  y -= m <= 2;
  long era = (y >= 0 ? y : y - 399) / 400;
  long yoe = y - era * 400;
  long doy = (153 * (m + (m > 2 ? -3 : 9)) + 2) / 5 + d - 1;
  long doe = yoe * 365 + yoe / 4 - yoe / 100 + doy;
  return era * 146097 + doe - 719468 - 10957;
}
static inline long floordiv(long a, long b) { long q = a / b; if ((a % b != 0) && ((a < 0) != (b < 0))) q--; return q; }
static inline long floormod(long a, long b) { return a - floordiv(a, b) * b; }

static inline std::string jstr(const char* s) {
  std::string o = "\"";
  for (; *s; s++) {
    unsigned char c = (unsigned char) *s;
    if (c == '"' || c == '\\') { o.push_back('\\'); o.push_back((char) c); }
    else if (c < 0x20 || c >= 0x7f) { char t[8]; snprintf(t, sizeof t, "\\u%04x", c); o += t; }
    else o.push_back((char) c);
  }
  o.push_back('"');
  return o;
}
#endif
