// Instant <-> zoned date-time round trips, conversions, ordering (property C05; DESIGN.md P4/P3).
//   convdrv rows <daystep>                  rows matching MC_Fields' dump: fields of OffsetDateTime::forEpochSeconds
//   convdrv manual <t0> <t1> <stride>       sweep of manual offsets: fields, round trip, Unix variants, conversions, compareTo
//   convdrv zones <basic|extended> <i0> <i1> <grid> <nconv>   database zones (direct and manager-created)
#include "drv_common.h"
using namespace ace_time;
Print VerifSerial;
extern "C" unsigned long millis() { return 0; }

static long nfail = 0, nops = 0;
static void fail(const char* what, long t, long a, long b) {
  if (nfail < 40) printf("{\"fail\":%s,\"t\":%ld,\"a\":%ld,\"b\":%ld}\n", jstr(what).c_str(), t, a, b);
  nfail++;
}
static const long kUnix = 946684800L;
static const int kOffs[] = {-960, -721, -480, -60, -1, 0, 1, 330, 345, 765, 960};
static const int kNOffs = sizeof kOffs / sizeof kOffs[0];

static void manual_at(long t) {
  if (t == (long) INT32_MIN) return;
  for (int k = 0; k < kNOffs; k++) {
    long lt = t + kOffs[k] * 60L;
    if (lt <= INT32_MIN || lt > INT32_MAX) continue;       // the zone's supported range: shifted instant representable
    TimeOffset off = TimeOffset::forMinutes((int16_t) kOffs[k]);
    OffsetDateTime odt = OffsetDateTime::forEpochSeconds((acetime_t) t, off);
    nops++;
    Civil c = civil_from_days(floordiv(lt, 86400)); long sod = floormod(lt, 86400);
    if (odt.isError() || odt.year() != c.y || odt.month() != c.m || odt.day() != c.d || odt.hour() != sod / 3600 || odt.minute() != (sod % 3600) / 60 || odt.second() != sod % 60)
      { fail("OffsetDateTime fields", t, kOffs[k], 0); continue; }
    if ((long) odt.toEpochSeconds() != t) fail("OffsetDateTime round trip", t, kOffs[k], odt.toEpochSeconds());
    if (t <= INT32_MAX - kUnix) {
      if ((long) odt.toUnixSeconds() != t + kUnix) fail("toUnixSeconds is not epoch + 946684800", t, kOffs[k], odt.toUnixSeconds());
      OffsetDateTime u = OffsetDateTime::forUnixSeconds((acetime_t) (t + kUnix), off);
      if (!(u == odt)) fail("forUnixSeconds differs from forEpochSeconds", t, kOffs[k], 0);
    }
    int k2 = (k + 3) % kNOffs;
    long lt2 = t + kOffs[k2] * 60L;
    if (lt2 > INT32_MIN && lt2 <= INT32_MAX) {
      OffsetDateTime c2 = odt.convertToTimeOffset(TimeOffset::forMinutes((int16_t) kOffs[k2]));
      if ((long) c2.toEpochSeconds() != t || c2.timeOffset().toMinutes() != kOffs[k2]) fail("convertToTimeOffset changed the instant", t, kOffs[k], kOffs[k2]);
      if (odt.compareTo(c2) != 0) fail("compareTo of the same instant at two offsets is not 0", t, kOffs[k], kOffs[k2]);
      if (t < INT32_MAX - 86400 && lt2 + 1 <= INT32_MAX) {
        OffsetDateTime later = OffsetDateTime::forEpochSeconds((acetime_t) (t + 1), TimeOffset::forMinutes((int16_t) kOffs[k2]));
        if (odt.compareTo(later) != -1 || later.compareTo(odt) != 1) fail("compareTo does not order by instant", t, kOffs[k], kOffs[k2]);
      }
    }
    // order by instant against partners at every distance, up to the whole int32 range away (fixed offsets and UTC zones)
    if (k % 6 == (int) (((unsigned long) t / 7) % 6)) {
      static const long kDist[] = {1, 59, 3600, 86399, 86400, 31536000L, 1073741824L, 2147483647L, 2147483648L, 3000000000L, 4294967294L};
      for (long dist : kDist) for (int sgn = -1; sgn <= 1; sgn += 2) {
        long t3 = t + sgn * dist;
        int k3 = (k + 5) % kNOffs;
        long lt3 = t3 + kOffs[k3] * 60L;
        if (t3 <= INT32_MIN || t3 > INT32_MAX || lt3 <= INT32_MIN || lt3 > INT32_MAX) continue;
        OffsetDateTime far = OffsetDateTime::forEpochSeconds((acetime_t) t3, TimeOffset::forMinutes((int16_t) kOffs[k3]));
        nops++;
        int want = sgn > 0 ? -1 : 1;
        if (odt.compareTo(far) != want || far.compareTo(odt) != -want) fail("compareTo does not order distant instants", t, t3, kOffs[k3]);
        ZonedDateTime za = ZonedDateTime::forEpochSeconds((acetime_t) t, TimeZone::forUtc());
        ZonedDateTime zb = ZonedDateTime::forEpochSeconds((acetime_t) t3, TimeZone::forTimeOffset(TimeOffset::forMinutes((int16_t) kOffs[k3])));
        if (za.compareTo(zb) != want || zb.compareTo(za) != -want) fail("ZonedDateTime::compareTo does not order distant instants", t, t3, kOffs[k3]);
      }
    }
    // the same through a manual TimeZone
    TimeZone tz = TimeZone::forTimeOffset(TimeOffset::forMinutes((int16_t) (kOffs[k] - (k % 2) * 60)), TimeOffset::forMinutes((int16_t) ((k % 2) * 60)));
    ZonedDateTime z = ZonedDateTime::forEpochSeconds((acetime_t) t, tz);
    if (z.isError() || (long) z.toEpochSeconds() != t || z.year() != c.y || z.day() != c.d || z.hour() != sod / 3600) fail("manual ZonedDateTime round trip", t, kOffs[k], 0);
  }
}

template <typename ZI, typename ZP, typename ZONE, typename MGR>
static int zones(const ZI* const* reg, int n, int i0, int i1, long grid, int nconv) {
  MGR mgr((uint16_t) n, reg);
  for (int i = i0; i < i1 && i < n; i++) {
    ZP proc; ZP others[4];
    TimeZone direct = TimeZone::forZoneInfo(reg[i], &proc);
    TimeZone managed = mgr.createForZoneIndex((uint16_t) i);
    // manager-created values for the same zone obtained in the three documented ways: by index, by name, by id
    char zname[96]; strncpy(zname, (const char*) ZONE(reg[i]).name(), sizeof zname - 1); zname[sizeof zname - 1] = 0;
    TimeZone byName = mgr.createForZoneName(zname);
    TimeZone byId = mgr.createForZoneId(ZONE(reg[i]).zoneId());
    if (byName.isError() || byId.isError() || !(byName == managed) || !(byId == managed)) fail("manager-created zone by name / by id is not the zone created by index", 0, i, byName.isError() * 2 + byId.isError());
    // ... and restored from its saved form (TimeZoneData), and obtained by name from a user-defined registry that is not
    // sorted but begins with its smallest name (sizes at which a sorted registry is searched by bisection)
    TimeZone restored = mgr.createForTimeZoneData(managed.toTimeZoneData());
    if (restored.isError() || !(restored == managed)) fail("zone restored from its saved TimeZoneData is not the zone that was saved", 0, i, restored.isError());
    {
      const ZI* uns[8] = {reg[0], reg[i], reg[(i + 50) % n], reg[(i + 120) % n], reg[(i + 30) % n], reg[(i + 90) % n], reg[(i + 10) % n], reg[(i + 150) % n]};
      if (i != 0) {
        MGR umgr(8, uns);
        TimeZone un = umgr.createForZoneName(zname);
        if (un.isError() || un.getZoneId() != ZONE(reg[i]).zoneId()) fail("zone created by name from an unsorted user registry is not that zone", 0, i, un.isError());
        ZonedDateTime z = ZonedDateTime::forEpochSeconds((acetime_t) 300000000, un);
        if (z.isError() || (long) z.toEpochSeconds() != 300000000) fail("round trip through a zone of an unsorted user registry", 300000000, i, 0);
      }
    }
    TimeZone tzs[4] = {direct, managed, byName, restored};
    if (byId.isError()) fail("createForZoneId gave the error zone", 0, i, 0);
    long prevOff = 999999;
    std::vector<long> ts;
    for (long t = 0; t < 18263L * 86400; t += grid) {
      ts.push_back(t);
      long off = direct.getUtcOffset((acetime_t) t).toMinutes();
      if (prevOff != 999999 && off != prevOff) {
        // dense neighbourhood of the transition inside (t - grid, t]
        long lo = t - grid, hi = t;
        while (hi - lo > 1) { long mid = lo + (hi - lo) / 2; if (direct.getUtcOffset((acetime_t) mid).toMinutes() != prevOff) hi = mid; else lo = mid; }
        for (long d = -7200; d <= 7200; d += 600) ts.push_back(hi + d);
        ts.push_back(hi - 1); ts.push_back(hi + 1);
      }
      prevOff = off;
    }
    for (size_t q = 0; q < ts.size(); q++) {
      long t = ts[q];
      if (t < 0 || t >= 18263L * 86400 - 7300) continue;
      for (int v = 0; v < 4; v++) {
        if (v >= 2 && q % 4 != 0) continue;      // (the by-name and by-id values: every fourth instant)
        ZonedDateTime z = ZonedDateTime::forEpochSeconds((acetime_t) t, tzs[v]);
        nops++;
        if (z.isError()) { fail("zoned date-time of a supported instant is an error", t, i, v); continue; }
        if ((long) z.toEpochSeconds() != t) fail("ZonedDateTime round trip", t, i, z.toEpochSeconds());
        if (t <= INT32_MAX - kUnix) {       // the Unix value must itself be representable (until 2038-01-19T03:14:07Z)
          if ((long) z.toUnixSeconds() != t + kUnix) fail("toUnixSeconds is not epoch + 946684800", t, i, z.toUnixSeconds());
          ZonedDateTime u = ZonedDateTime::forUnixSeconds((acetime_t) (t + kUnix), tzs[v]);
          if (u.isError() || (long) u.toEpochSeconds() != t) fail("forUnixSeconds differs", t, i, v);
        }
        // order: same zone, later instants (including across a fall-back, where wall time repeats)
        static const long ds[] = {1, 1799, 3600, 5400};
        for (long d : ds) {
          ZonedDateTime w = ZonedDateTime::forEpochSeconds((acetime_t) (t + d), tzs[v]);
          if (z.compareTo(w) != -1 || w.compareTo(z) != 1) fail("compareTo does not order values of one zone by instant", t, i, d);
        }
        if (z.compareTo(z) != 0) fail("compareTo(self) != 0", t, i, v);
        // conversions to other zones preserve the instant
        for (int c = 0; c < nconv; c++) {
          int j = (int) ((i * 7L + c * 13L + q) % n);
          TimeZone other = (c % 2) ? mgr.createForZoneIndex((uint16_t) j) : TimeZone::forZoneInfo(reg[j], &others[c % 4]);
          ZonedDateTime cz = z.convertToTimeZone(other);
          if (cz.isError() || (long) cz.toEpochSeconds() != t) fail("convertToTimeZone changed the instant", t, i, j);
          else if (z.compareTo(cz) != 0) fail("compareTo of one instant in two zones is not 0", t, i, j);
          OffsetDateTime od = OffsetDateTime::forEpochSeconds((acetime_t) t, cz.timeOffset());
          if ((long) od.toEpochSeconds() != t) fail("OffsetDateTime at the zone's offset", t, i, j);
        }
      }
    }
    // non-monotonic histories on the same long-lived processors: years in descending order; in each year first an instant of
    // the following March (the cache then holds the later year), then the first 14 hours (UTC) of every month start of the
    // year, December first -- the hours in which the UTC date and the local date of a zone differ
    for (int y = 2048; y >= 2000; y--) {
      for (int v = 0; v < 2; v++) {
        long mar = days_from_civil(y + 1, 3, 1) * 86400L + 43200;
        ZonedDateTime zm = ZonedDateTime::forEpochSeconds((acetime_t) mar, tzs[v]);
        nops++;
        if (zm.isError() || (long) zm.toEpochSeconds() != mar) fail("ZonedDateTime round trip (descending history)", mar, i, v);
        for (int m = 12; m >= 1; m--) {
          long base = days_from_civil(y, m, 1) * 86400L;
          for (long h = 0; h <= 14 * 3600; h += 1800) {
            long t = base + h;
            ZonedDateTime z = ZonedDateTime::forEpochSeconds((acetime_t) t, tzs[v]);
            nops++;
            if (z.isError()) { fail("zoned date-time of a supported instant is an error after a later year was served", t, i, v); continue; }
            if ((long) z.toEpochSeconds() != t) fail("ZonedDateTime round trip after a later year was served", t, i, z.toEpochSeconds());
          }
          if (m == 6) {     // a stray query outside the zone data (an unset clock): it must be an error and leave no trace
            ZonedDateTime zo = ZonedDateTime::forEpochSeconds((acetime_t) (y % 2 ? 1800000000L : -400000000L), tzs[v]);
            if (!zo.isError()) fail("zoned date-time outside the zone data is not an error", y, i, v);
            long tb = days_from_civil(y, 6, 15) * 86400L;
            ZonedDateTime zv = ZonedDateTime::forEpochSeconds((acetime_t) tb, tzs[v]);
            nops += 2;
            if (zv.isError() || (long) zv.toEpochSeconds() != tb) fail("ZonedDateTime round trip after an out-of-range query", tb, i, v);
          }
          if (m == 12 || m == 1) {     // back to the later year in between
            ZonedDateTime zb = ZonedDateTime::forEpochSeconds((acetime_t) mar, tzs[v]);
            if (zb.isError()) fail("zoned date-time is an error (descending history)", mar, i, v);
          }
        }
      }
    }
  }
  printf("{\"done\":1,\"nops\":%ld,\"nfail\":%ld}\n", nops, nfail);
  return 0;
}

int main(int argc, char** argv) {
  if (argc < 3) return 2;
  std::string cmd = argv[1];
  if (cmd == "rows") {
    int step = atoi(argv[2]);
    static const int secs[] = {0, 1, 3599, 43200, 86398, 86399};
    for (long d = -24855; d <= 24854; d++) {
      if (floormod(d, step)) continue;
      for (int s : secs) for (int k = 0; k < kNOffs; k++) {
        long t = d * 86400 + s;
        long lt = t + kOffs[k] * 60L;
        if (lt <= INT32_MIN || lt > INT32_MAX) { printf("%ld %d %d skip\n", d, s, kOffs[k]); continue; }
        OffsetDateTime o = OffsetDateTime::forEpochSeconds((acetime_t) t, TimeOffset::forMinutes((int16_t) kOffs[k]));
        printf("%ld %d %d %d %d %d %d %d %d\n", d, s, kOffs[k], o.year(), o.month(), o.day(), o.hour(), o.minute(), o.second());
      }
    }
    return 0;
  }
  if (cmd == "manual" && argc >= 5) {
    long t0 = atol(argv[2]), t1 = atol(argv[3]), stride = atol(argv[4]);
    for (long t = t0; t < t1; t += stride) manual_at(t);
    if (stride > 1) for (long day = floordiv(t0, 86400); day * 86400 < t1; day++) for (long d = -1; d <= 1; d++) { long t = day * 86400 + d; if (t >= t0 && t < t1) manual_at(t); }
    printf("{\"done\":1,\"nops\":%ld,\"nfail\":%ld}\n", nops, nfail);
    return 0;
  }
  if (cmd == "zones" && argc >= 7) {
    int i0 = atoi(argv[3]), i1 = atoi(argv[4]); long grid = atol(argv[5]); int nconv = atoi(argv[6]);
    if (!strcmp(argv[2], "basic")) return zones<basic::ZoneInfo, BasicZoneProcessor, BasicZone, BasicZoneManager<3>>(zonedb::kZoneRegistry, zonedb::kZoneRegistrySize, i0, i1, grid, nconv);
    return zones<extended::ZoneInfo, ExtendedZoneProcessor, ExtendedZone, ExtendedZoneManager<3>>(zonedbx::kZoneRegistry, zonedbx::kZoneRegistrySize, i0, i1, grid, nconv);
  }
  return 2;
}
