// All ordered pairs of cached-year states (property C08, also C05): for every zone Z and every ordered pair of
// years (A, B), one long-lived processor that last served year A is asked about year B; its per-year transition
// table and its answers at a lattice of instants of B must equal those of a processor that has never been used
// (constructed in zero-filled memory, the state of a static object on the Arduino).
// This is the edge  Query(B) from "cached = A"  of ZoneProc.tla (invariant HistoryIndependent) instantiated for every
// zone of the database and every pair of years, rather than for one representative per argument class.
//   pairdrv <basic|extended> <i0> <i1> <y0> <y1> <stepDays>
//   pairdrv btables <i0> <i1> <y0> <y1>     cache of the basic processor after init(year) (BasicProc.tla binding)
//   pairdrv tables <i0> <i1> <y0> <y1>      finished per-year tables of the extended processor (ExtProc.tla binding)
// stdout: one JSON line per mismatch (at most one per zone x B x kind) and a final {"done":..} line.
#include <stdio.h>
#include <stdlib.h>
#include <string.h>
#include <string>
#include <vector>
#include <new>
#define private public
#define protected public
#include "drv_common.h"
#undef private
#undef protected
using namespace ace_time;

Print VerifSerial;
extern "C" unsigned long millis() { return 0; }

static std::string tuple_str(const extended::DateTuple& t) {
  char b[64];
  snprintf(b, sizeof b, "%d-%d-%d+%d/%d", t.yearTiny + 2000, t.month, t.day, t.minutes, t.suffix);
  return b;
}

// the per-year table a processor holds after a query, as text
static std::string table(ExtendedZoneProcessor& p) {
  std::string s;
  extended::Transition** b = p.mTransitionStorage.getActivePoolBegin();
  extended::Transition** e = p.mTransitionStorage.getActivePoolEnd();
  for (; b != e; ++b) {
    const extended::Transition* t = *b;
    char buf[96];
    snprintf(buf, sizeof buf, "[%ld,%d,%d,", (long) t->startEpochSeconds, t->offsetMinutes, t->deltaMinutes);
    s += buf; s += t->abbrev; s += "," + tuple_str(t->startDateTime) + "," + tuple_str(t->untilDateTime) + "]";
  }
  char c[32]; snprintf(c, sizeof c, "|filled=%d,year=%d", (int) p.mIsFilled, (int) p.mYear);
  return s + c;
}
static std::string table(BasicZoneProcessor& p) {
  std::string s;
  for (int i = 0; i < p.mNumTransitions; i++) {
    const basic::Transition& t = p.mTransitions[i];
    char buf[96];
    snprintf(buf, sizeof buf, "[%ld,%d,%d,", (long) t.startEpochSeconds, t.offsetMinutes, t.deltaMinutes);
    s += buf; s += t.abbrev; s += "]";
  }
  char c[32]; snprintf(c, sizeof c, "|filled=%d,year=%d", (int) p.mIsFilled, (int) p.mYearTiny);
  return s + c;
}

static std::string answers(const TimeZone& tz, long t) {
  char b[160];
  TimeOffset u = tz.getUtcOffset((acetime_t) t), d = tz.getDeltaOffset((acetime_t) t);
  const char* a = tz.getAbbrev((acetime_t) t);
  OffsetDateTime o = tz.getOffsetDateTime(LocalDateTime::forEpochSeconds((acetime_t) t));
  snprintf(b, sizeof b, "%d/%d/%s/%d:%d-%d-%d %d:%d%+d", u.isError() ? 9999 : u.toMinutes(), d.isError() ? 9999 : d.toMinutes(), a ? a : "<null>",
      (int) o.isError(), o.year(), o.month(), o.day(), o.hour(), o.minute(), o.isError() ? 0 : o.timeOffset().toMinutes());
  return b;
}


// tables: the finished per-year table of a never-used ExtendedZoneProcessor, field by field (binding of ExtProc.tla)
static std::string tuple_json(const extended::DateTuple& t) {
  char b[80];
  const char* sf = t.suffix == extended::ZoneContext::kSuffixS ? "s" : (t.suffix == extended::ZoneContext::kSuffixU ? "u" : (t.suffix == extended::ZoneContext::kSuffixW ? "w" : "?"));
  snprintf(b, sizeof b, "[%d,%d,%d,%d,\"%s\"]", t.yearTiny + 2000, t.month, t.day, t.minutes, sf);
  return b;
}
static int tables_extended(int i0, int i1, int y0, int y1) {
  for (int i = i0; i < i1 && i < zonedbx::kZoneRegistrySize; i++) {
    const extended::ZoneInfo* zi = zonedbx::kZoneRegistry[i];
    std::string out = "{\"zone\":" + jstr((const char*) ExtendedZone(zi).name()) + ",\"years\":{";
    for (int y = y0; y <= y1; y++) {
      void* mem = calloc(1, sizeof(ExtendedZoneProcessor));
      ExtendedZoneProcessor* p = new (mem) ExtendedZoneProcessor();
      TimeZone tz = TimeZone::forZoneInfo(zi, p);
      p->resetTransitionHighWater();
      tz.getUtcOffset((acetime_t) (days_from_civil(y, 7, 2) * 86400L));
      char b[160];
      snprintf(b, sizeof b, "%s\"%d\":{\"filled\":%d,\"nm\":%d,\"hw\":%d,\"rows\":[", y == y0 ? "" : ",", y, (int) p->mIsFilled, (int) p->mNumMatches, (int) p->getTransitionHighWater());
      out += b;
      extended::Transition** tb = p->mTransitionStorage.getActivePoolBegin();
      extended::Transition** te = p->mTransitionStorage.getActivePoolEnd();
      for (extended::Transition** it = tb; it != te; ++it) {
        const extended::Transition* t = *it;
        snprintf(b, sizeof b, "%s[%ld,%d,%d,", it == tb ? "" : ",", (long) t->startEpochSeconds, t->offsetMinutes, t->deltaMinutes);
        out += b; out += jstr(t->abbrev) + "," + tuple_json(t->startDateTime) + "," + tuple_json(t->untilDateTime) + "]";
      }
      out += "]}";
      p->~ExtendedZoneProcessor();
      free(mem);
    }
    out += "}}";
    puts(out.c_str());
  }
  return 0;
}

// btables: the cache of a never-used BasicZoneProcessor after init(year) (binding of BasicProc.tla)
static int tables_basic(int i0, int i1, int y0, int y1) {
  for (int i = i0; i < i1 && i < zonedb::kZoneRegistrySize; i++) {
    const basic::ZoneInfo* zi = zonedb::kZoneRegistry[i];
    std::string out = "{\"zone\":" + jstr((const char*) BasicZone(zi).name()) + ",\"years\":{";
    for (int y = y0; y <= y1; y++) {
      void* mem = calloc(1, sizeof(BasicZoneProcessor));
      BasicZoneProcessor* p = new (mem) BasicZoneProcessor();
      TimeZone tz = TimeZone::forZoneInfo(zi, p);
      long before = ace_time_verif_basic_dropped;
      tz.getUtcOffset((acetime_t) (days_from_civil(y, 7, 2) * 86400L));
      char b[160];
      snprintf(b, sizeof b, "%s\"%d\":{\"filled\":%d,\"dropped\":%ld,\"rows\":[", y == y0 ? "" : ",", y, (int) p->mIsFilled, ace_time_verif_basic_dropped - before);
      out += b;
      for (int k = 0; k < p->mNumTransitions; k++) {
        const basic::Transition& t = p->mTransitions[k];
        snprintf(b, sizeof b, "%s[%ld,%d,%d,", k ? "," : "", (long) t.startEpochSeconds, t.offsetMinutes, t.deltaMinutes);
        out += b; out += jstr(t.abbrev);
        snprintf(b, sizeof b, ",%d,%d]", t.yearTiny + 2000, t.month);
        out += b;
      }
      out += "]}";
      p->~BasicZoneProcessor();
      free(mem);
    }
    out += "}}";
    puts(out.c_str());
  }
  return 0;
}

template <typename ZI, typename ZP, typename ZONE>
static int run(const ZI* const* reg, int n, int i0, int i1, int y0, int y1, int step) {
  long pairs = 0, calls = 0, bad = 0;
  for (int i = i0; i < i1 && i < n; i++) {
    const ZI* zi = reg[i];
    std::string name = (const char*) ZONE(zi).name();
    // reference per B: a never-used processor in zero-filled memory
    std::vector<std::string> refTable(y1 - y0 + 1);
    std::vector<std::vector<std::string>> refAns(y1 - y0 + 1);
    std::vector<std::vector<long>> probes(y1 - y0 + 1);
    for (int B = y0; B <= y1; B++) {
      void* mem = calloc(1, sizeof(ZP));
      ZP* fp = new (mem) ZP();
      TimeZone ftz = TimeZone::forZoneInfo(zi, fp);
      long mid = days_from_civil(B, 7, 2) * 86400L;
      ftz.getUtcOffset((acetime_t) mid);
      refTable[B - y0] = table(*fp);
      fp->~ZP();
      free(mem);
      // probes: a lattice through the year plus its first and last hours (UTC), where the UTC date and a zone's local date
      // differ; the reference answer of every probe comes from a processor that has never served anything else
      std::vector<long> ts;
      for (int d = 2; d < 363; d += step) ts.push_back((days_from_civil(B, 1, 1) + d) * 86400L + 43200);
      for (long h = 1800; h <= 14 * 3600; h += 3 * 3600 + 1800) { ts.push_back(days_from_civil(B, 1, 1) * 86400L + h); ts.push_back(days_from_civil(B + 1, 1, 1) * 86400L - h); }
      for (long t : ts) {
        void* m2 = calloc(1, sizeof(ZP));
        ZP* p2 = new (m2) ZP();
        TimeZone tz2 = TimeZone::forZoneInfo(zi, p2);
        probes[B - y0].push_back(t);
        refAns[B - y0].push_back(answers(tz2, t));
        p2->~ZP();
        free(m2);
      }
    }
    ZP proc;   // long-lived: never re-created between pairs, like the processor of a running application
    TimeZone tz = TimeZone::forZoneInfo(zi, &proc);
    for (int B = y0; B <= y1; B++) {
      bool reportedT = false, reportedA = false;
      for (int A = y0 - 2; A <= y1 + 2; A++) {
        if (A == B) continue;
        // y0-2 / y1+2 stand for "a year outside the zone data" (1990 / 2070): the state after a failed cache fill
        int ya = A < y0 ? 1990 : (A > y1 ? 2070 : A);
        tz.getUtcOffset((acetime_t) (days_from_civil(ya, 7, 2) * 86400L));
        long mid = days_from_civil(B, 7, 2) * 86400L;
        tz.getUtcOffset((acetime_t) mid);
        pairs++;
        std::string tb = table(proc);
        if (tb != refTable[B - y0] && !reportedT) {
          reportedT = true; bad++;
          printf("{\"zone\":%s,\"A\":%d,\"B\":%d,\"kind\":\"table\",\"got\":%s,\"fresh\":%s}\n", jstr(name.c_str()).c_str(), ya, B, jstr(tb.c_str()).c_str(), jstr(refTable[B - y0].c_str()).c_str());
        }
        for (size_t k = 0; k < probes[B - y0].size(); k++) {
          std::string a = answers(tz, probes[B - y0][k]);
          calls += 4;
          if (a != refAns[B - y0][k] && !reportedA) {
            reportedA = true; bad++;
            printf("{\"zone\":%s,\"A\":%d,\"B\":%d,\"kind\":\"answer\",\"t\":%ld,\"got\":%s,\"fresh\":%s}\n", jstr(name.c_str()).c_str(), ya, B, probes[B - y0][k], jstr(a.c_str()).c_str(), jstr(refAns[B - y0][k].c_str()).c_str());
          }
        }
      }
    }
  }
  printf("{\"done\":1,\"pairs\":%ld,\"calls\":%ld,\"bad\":%ld}\n", pairs, calls, bad);
  return 0;
}

int main(int argc, char** argv) {
  if (argc >= 6 && !strcmp(argv[1], "btables")) return tables_basic(atoi(argv[2]), atoi(argv[3]), atoi(argv[4]), atoi(argv[5]));
  if (argc >= 6 && !strcmp(argv[1], "tables")) return tables_extended(atoi(argv[2]), atoi(argv[3]), atoi(argv[4]), atoi(argv[5]));
  if (argc < 7) return 2;
  int i0 = atoi(argv[2]), i1 = atoi(argv[3]), y0 = atoi(argv[4]), y1 = atoi(argv[5]), step = atoi(argv[6]);
  if (!strcmp(argv[1], "basic"))
    return run<basic::ZoneInfo, BasicZoneProcessor, BasicZone>(zonedb::kZoneRegistry, zonedb::kZoneRegistrySize, i0, i1, y0, y1, step);
  return run<extended::ZoneInfo, ExtendedZoneProcessor, ExtendedZone>(zonedbx::kZoneRegistry, zonedbx::kZoneRegistrySize, i0, i1, y0, y1, step);
}
