SPECIFICATION Spec
CONSTANTS PeriodStep = 7
 DumpOn = FALSE
INVARIANT PeriodOK
INVARIANT HourMinuteOK
INVARIANT Inc15OK
INVARIANT ByteOK
INVARIANT Dump
CHECK_DEADLOCK FALSE
