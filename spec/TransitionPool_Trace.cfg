SPECIFICATION TSpec
CONSTANTS SIZE = 8
 MaxMatches = 4
 MaxAgents = 6
CHECK_DEADLOCK FALSE
