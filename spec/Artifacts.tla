------------------------------ MODULE Artifacts ------------------------------
(***************************************************************************)
(* Cross-artifact relations of one compilation (property C20), as          *)
(* first-order formulas over the abstract contents extracted from the      *)
(* generated files: for every source x scope                               *)
(*   - the Python tables, imported, equal the in-memory tables (digests    *)
(*     per zone and per policy);                                           *)
(*   - zones.txt lists exactly the emitted zones;                          *)
(*   - every count stated in a generated header equals the number of       *)
(*     entries actually present;                                           *)
(*   - every zone emitted in basic scope is emitted in extended scope.     *)
(***************************************************************************)
EXTENDS Integers, Sequences, FiniteSets, TLC, Json, IOUtils
Data == JsonDeserialize(IOEnv.ARTIFACTS_DATA)
Runs == Data.runs
ToSet(s) == {s[k] : k \in 1..Len(s)}
\* python tables == in-memory tables
PyBad(r) == {k \in 1..Len(r.py_digests) : r.py_digests[k] # r.inmem_digests[k]} \cup (IF Len(r.py_digests) = Len(r.inmem_digests) THEN {} ELSE {0})
ZoneListBad(r) == ToSet(r.zones_txt) # ToSet(r.emitted) \/ Len(r.zones_txt) # Cardinality(ToSet(r.zones_txt))
CountsBad(r) == {k \in 1..Len(r.counts) : r.counts[k].stated # r.counts[k].actual}
\* basic subset of extended, per source
Pairs == Data.pairs       \* [basic |-> run index, extended |-> run index]
SubsetBad(p) == ToSet(Runs[p.basic].emitted) \ ToSet(Runs[p.extended].emitted)
Verdict == [k \in 1..Len(Runs) |-> [label |-> Runs[k].label, py |-> PyBad(Runs[k]), zonelist |-> ZoneListBad(Runs[k]), counts |-> CountsBad(Runs[k])]]
ASSUME PrintT(ToJson([artifacts |-> Verdict, subset |-> [k \in 1..Len(Pairs) |-> SubsetBad(Pairs[k])], nruns |-> Len(Runs)]))
VARIABLE dummy
Spec == dummy = 0 /\ [][UNCHANGED dummy]_dummy
=============================================================================
