SPECIFICATION Spec
INVARIANT TypeOK
INVARIANT DoneSane
INVARIANT Conforms
CHECK_DEADLOCK FALSE
