SPECIFICATION Spec
CONSTANTS MaxN = 40
 MaxPermN = 5
 Threshold = 6
 HalfOpen = TRUE
 TrackProbes = TRUE
INVARIANT TypeOK
INVARIANT Exact
INVARIANT InBounds
INVARIANT SortedFlagRight
INVARIANT CreateExact
INVARIANT Dump
CHECK_DEADLOCK FALSE
