SPECIFICATION Spec
CONSTANTS W = 65536
 S = 1000
 Phases = {0,999,1000,64535,64536,65535}
 Gaps = {1,999,1000,1001,64535,64536,64537,65536}
 Values = {5000,5001}
 MaxDepth = 5
 ResyncStale = FALSE
INVARIANT TypeOK
INVARIANT ExactTime
INVARIANT SentinelBeforeSet
INVARIANT RemainderSmall
PROPERTY SetInvalidIgnored
PROPERTY Monotone
PROPERTY BackupLaw
CHECK_DEADLOCK FALSE
ACTION_CONSTRAINT DumpEdge
