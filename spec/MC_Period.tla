------------------------------ MODULE MC_Period ------------------------------
(***************************************************************************)
(* TimePeriod, TimeOffset and the field-increment helpers (property C17),  *)
(* transcribed with their C integer arithmetic, as operators; TLC          *)
(* enumerates each domain as a set of initial states:                      *)
(*   <<"period", s>>   s in -921599..921599 (step PeriodStep)              *)
(*   <<"hm", h, m>>    int8 hour, minute in -59..59 with consistent sign   *)
(*   <<"inc15", m>>    offsets -960..960                                   *)
(*   <<"byte", b>>     every byte value through every increment helper     *)
(***************************************************************************)
EXTENDS Integers, Sequences, TLC, Json
CONSTANTS PeriodStep, DumpOn
TDiv(a, b) == IF a >= 0 THEN a \div b ELSE 0 - ((0 - a) \div b)
TMod(a, b) == a - b * TDiv(a, b)
U8(x) == x % 256
I8(x) == ((x + 128) % 256) - 128

\* TimePeriod(int32_t seconds) -> <<sign, hour, minute, second>> ; toSeconds
FromSeconds(s) == LET a == IF s < 0 THEN 0 - s ELSE s
                  IN <<IF s < 0 THEN -1 ELSE 1, U8((a \div 60) \div 60), (a \div 60) % 60, a % 60>>
ToSeconds(p) == LET v == ((p[2] * 60) + p[3]) * 60 + p[4] IN IF p[1] >= 0 THEN v ELSE 0 - v
CompareTo(p, q) == IF ToSeconds(p) < ToSeconds(q) THEN -1 ELSE IF ToSeconds(p) = ToSeconds(q) THEN 0 ELSE 1
Negate(p) == <<0 - p[1], p[2], p[3], p[4]>>
\* TimeOffset
ForHourMinute(h, m) == h * 60 + m
ToHourMinute(mins) == <<I8(TDiv(mins, 60)), I8(TMod(mins, 60))>>
OffsetToSeconds(mins) == 60 * mins
Inc15(m) == IF m + 15 > 960 THEN -960 ELSE m + 15
\* ace_common::incrementMod / incrementModOffset on uint8, and on the int8 year
IncMod(d, m) == LET e == U8(d + 1) IN IF e >= m THEN 0 ELSE e
IncModOffset(d, m, off) == LET a == U8(d - off)  b == U8(a + 1)  c == IF b >= m THEN 0 ELSE b IN U8(c + off)
IncYearTiny(y) == LET e == I8(y + 1) IN IF e >= 100 THEN 0 ELSE e

VARIABLE st
Init == \/ \E k \in 0..((2 * 921599) \div PeriodStep) : st = <<"period", -921599 + k * PeriodStep>>
        \/ st \in {<<"period", x>> : x \in {-921599, -921598, -918000, -3600, -61, -60, -59, -1, 0, 1, 59, 60, 61, 3599, 3600, 86399, 86400, 917999, 918000, 921598, 921599}}
        \/ \E h \in -128..127, m \in -59..59 : ((h >= 0 /\ m >= 0) \/ (h <= 0 /\ m <= 0)) /\ st = <<"hm", h, m>>
        \/ \E m \in -960..960 : st = <<"inc15", m>>
        \/ \E b \in 0..255 : st = <<"byte", b>>
Spec == Init /\ [][UNCHANGED st]_st

PeriodOK == st[1] = "period" =>
   LET s == st[2]  p == FromSeconds(s) IN
   /\ ToSeconds(p) = s /\ p[3] < 60 /\ p[4] < 60 /\ p[2] \in 0..255
   /\ ToSeconds(Negate(p)) = 0 - s /\ Negate(p)[2] = p[2] /\ Negate(p)[3] = p[3] /\ Negate(p)[4] = p[4]
   /\ CompareTo(Negate(Negate(p)), p) = 0 /\ (s = 0 => CompareTo(Negate(p), p) = 0)     \* a "negative zero" equals zero
   /\ \A t \in {-921599, -1, 0, 1, s - 1, s + 1, 0 - s, 921599} :
        (t \in -921599..921599) => CompareTo(p, FromSeconds(t)) = (IF s < t THEN -1 ELSE IF s = t THEN 0 ELSE 1)
HourMinuteOK == st[1] = "hm" =>
   LET mins == ForHourMinute(st[2], st[3]) IN
   /\ ToHourMinute(mins) = <<st[2], st[3]>> /\ OffsetToSeconds(mins) = 60 * mins /\ mins \in -7739..7679
\* the 15-minute increment stays inside -16:00..+16:00 and, from a multiple of 15, cycles through all 129 values
RECURSIVE Iter(_, _)
Iter(m, n) == IF n = 0 THEN m ELSE Iter(Inc15(m), n - 1)
Inc15OK == st[1] = "inc15" =>
   /\ Inc15(st[2]) \in -960..960
   /\ (st[2] % 15 = 0 => (Iter(st[2], 129) = st[2] /\ \A n \in 1..128 : Iter(st[2], n) # st[2]))
ByteOK == st[1] = "byte" =>
   LET b == st[2] IN
   /\ IncMod(b, 24) \in 0..23 /\ IncMod(b, 60) \in 0..59                   \* hour / minute helpers absorb any byte into the interval
   /\ IncModOffset(b, 12, 1) \in 1..12 /\ IncModOffset(b, 31, 1) \in 1..31 \* month / day helpers
   /\ (b \in 0..23 => IncMod(b, 24) = (b + 1) % 24) /\ (b \in 0..59 => IncMod(b, 60) = (b + 1) % 60)
   /\ (b \in 1..12 => IncModOffset(b, 12, 1) = (b % 12) + 1) /\ (b \in 1..31 => IncModOffset(b, 31, 1) = (b % 31) + 1)
   /\ (b \in 0..99 => IncYearTiny(b) = (b + 1) % 100)                        \* the year helper wraps 99 -> 0
   /\ (\A m \in 1..255 : IncMod(b, m) \in 0..(m - 1) /\ (b < m => IncMod(b, m) = (b + 1) % m))   \* the helper with an explicit modulus
   /\ (b \in 0..126 => IncYearTiny(b) \in 0..99)                            \* ... and absorbs every year 2000..2126 into its interval
Dump == DumpOn =>
   PrintT(ToJson(CASE st[1] = "period" -> <<"period", st[2]>> \o FromSeconds(st[2])
                   [] st[1] = "hm" -> <<"hm", st[2], st[3], ForHourMinute(st[2], st[3])>> \o ToHourMinute(ForHourMinute(st[2], st[3]))
                   [] st[1] = "inc15" -> <<"inc15", st[2], Inc15(st[2])>>
                   [] OTHER -> <<"byte", st[2], IncMod(st[2], 24), IncMod(st[2], 60), IncModOffset(st[2], 12, 1), IncModOffset(st[2], 31, 1), IncYearTiny(I8(st[2]))>>))
=============================================================================
