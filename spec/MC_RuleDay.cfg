SPECIFICATION Spec
CONSTANTS YearLo = 1873
 YearHi = 2126
 YearStep = 1
 DumpOn = FALSE
INVARIANT DefIsRight
INVARIANT AdmittedAgree
INVARIANT SpillRejected
INVARIANT Dump
CHECK_DEADLOCK FALSE
