SPECIFICATION Spec
INVARIANT Dump
CHECK_DEADLOCK FALSE
