SPECIFICATION Spec
CONSTANTS W = 32
 S = 5
 Phases = {0,1,2,3,4,5,6,7,8,9,10,11,12,13,14,15,16,17,18,19,20,21,22,23,24,25,26,27,28,29,30,31}
 Gaps = {1,2,3,4,5,6,7,8,9,10,11,12,13,14,15,16,17,18,19,20,21,22,23,24,25,26,27,28,32,33}
 Values = {100,101}
 MaxDepth = 4
 ResyncStale = TRUE
INVARIANT TypeOK
INVARIANT ExactTime
INVARIANT SentinelBeforeSet
INVARIANT RemainderSmall
PROPERTY SetInvalidIgnored
PROPERTY Monotone
PROPERTY BackupLaw
CHECK_DEADLOCK FALSE
