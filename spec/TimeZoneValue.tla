---------------------------- MODULE TimeZoneValue ----------------------------
(***************************************************************************)
(* TimeZone as a value (property C16): kinds, save / restore through a     *)
(* zone manager, equality.  The numeric constants of both headers are part *)
(* of the specification, because ZoneManagerImpl::createForTimeZoneData    *)
(* switches on TimeZone::kType* while the data carries TimeZoneData::kType*:*)
(* restoring a saved zone id works because TimeZoneData::kTypeZoneId (2)   *)
(* equals TimeZone::kTypeBasic (2) -- made explicit and checked here.      *)
(***************************************************************************)
EXTENDS Integers, Sequences, FiniteSets, TLC

\* TimeZone::kType*
TzError == 0  TzManual == 1  TzBasic == 2  TzExtended == 3  TzBasicManaged == 4  TzExtendedManaged == 5
\* TimeZoneData::kType*
DError == 0  DManual == 1  DZoneId == 2

\* a time zone value: [kind, zone (0 = none), std, dst]; zones are identified by their (non-zero) id
Tz(kind, zone, std, dst) == [kind |-> kind, zone |-> zone, std |-> std, dst |-> dst]
ErrorTz == Tz(TzError, 0, 0, 0)
UtcTz == Tz(TzManual, 0, 0, 0)
IsZoneKind(k) == k \in {TzBasic, TzExtended, TzBasicManaged, TzExtendedManaged}

\* TimeZone::toTimeZoneData
Save(tz) == IF tz.kind = TzManual THEN [type |-> DManual, id |-> 0, std |-> tz.std, dst |-> tz.dst]
            ELSE IF IsZoneKind(tz.kind) THEN [type |-> DZoneId, id |-> tz.zone, std |-> 0, dst |-> 0]
            ELSE [type |-> DError, id |-> 0, std |-> 0, dst |-> 0]

\* ZoneManagerImpl::createForZoneId for a manager of kind mk (TzBasicManaged / TzExtendedManaged) with registry reg
CreateForZoneId(mk, reg, id) == IF id \in reg THEN Tz(mk, id, 0, 0) ELSE ErrorTz
\* ZoneManagerImpl::createForTimeZoneData: the switch is on TimeZone::kType* values
Restore(mk, reg, d) ==
   CASE d.type = TzError -> ErrorTz
     [] d.type = TzManual -> Tz(TzManual, 0, d.std, d.dst)
     [] d.type \in {TzBasic, TzExtended} -> CreateForZoneId(mk, reg, d.id)
     [] OTHER -> UtcTz

\* operator==(TimeZone, TimeZone)
Equal(a, b) == /\ a.kind = b.kind
               /\ CASE a.kind = TzError -> TRUE
                    [] a.kind = TzManual -> a.std = b.std /\ a.dst = b.dst
                    [] IsZoneKind(a.kind) -> a.zone = b.zone
                    [] OTHER -> FALSE
\* what "denote the same kind and the same zone or the same offsets" means
SameDenotation(a, b) == /\ a.kind = b.kind
                        /\ (a.kind = TzManual => (a.std = b.std /\ a.dst = b.dst))
                        /\ (IsZoneKind(a.kind) => a.zone = b.zone)
\* a manual zone's total offset
UtcOffsetOf(tz) == tz.std + tz.dst

----------------------------------------------------------------------------
\* Model-level theorems, checked by TLC over small domains (ASSUMEs are evaluated before model checking)
MZones == 1..3
MOffs == {-960, -1, 0, 30, 960}
MKinds == {TzError, TzManual, TzBasic, TzExtended, TzBasicManaged, TzExtendedManaged}
WellFormed(tz) == /\ (tz.kind = TzError => tz = ErrorTz)
                  /\ (tz.kind = TzManual => tz.zone = 0)
                  /\ (IsZoneKind(tz.kind) => tz.zone # 0 /\ tz.std = 0 /\ tz.dst = 0)
MTzs == {tz \in [kind : MKinds, zone : {0} \cup MZones, std : MOffs, dst : MOffs] : WellFormed(tz)}
MRegs == SUBSET MZones
MgrKinds == {TzBasicManaged, TzExtendedManaged}

RoundTrip == \A tz \in MTzs, mk \in MgrKinds, reg \in MRegs :
   LET r == Restore(mk, reg, Save(tz)) IN
   /\ (IsZoneKind(tz.kind) /\ tz.zone \in reg => Equal(r, CreateForZoneId(mk, reg, tz.zone)) /\ r.kind = mk /\ r.zone = tz.zone)
   /\ (IsZoneKind(tz.kind) /\ tz.zone \notin reg => r = ErrorTz)
   /\ (tz.kind = TzManual => r = tz)
   /\ (tz.kind = TzError => r = ErrorTz)
EqualityIsDenotation == \A a, b \in MTzs : Equal(a, b) <=> SameDenotation(a, b)
\* the dependency on the numeric coincidence, stated
Coincidence == DZoneId \in {TzBasic, TzExtended} /\ DError = TzError /\ DManual = TzManual
ASSUME RoundTrip
ASSUME EqualityIsDenotation
ASSUME Coincidence
VARIABLE dummy
Spec == dummy = 0 /\ [][UNCHANGED dummy]_dummy
=============================================================================
