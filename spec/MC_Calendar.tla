---------------------------- MODULE MC_Calendar ----------------------------
(* Every epoch day of 1873-01-01 .. 2127-12-31 is an initial state; the    *)
(* invariants are the local induction steps and the agreement of the       *)
(* library's closed forms with the definition (property C06).              *)
EXTENDS Calendar, Json
DayLo == DaysFromCivil(1873, 1, 1)
DayHi == DaysFromCivil(2127, 12, 31)
VARIABLE d
Init == d \in DayLo..DayHi
Next == UNCHANGED d
Spec == Init /\ [][Next]_d

C == Civil(d)
Anchor == Civil(0) = <<2000, 1, 1>> /\ Dow(0) = 6 /\ DayLo = -46385 /\ DayHi = 46750 /\ DayHi - DayLo + 1 = 93136
InductionStep == /\ Civil(d + 1) = NextDay(C) /\ Civil(d - 1) = PrevDay(C)
                 /\ Dow(d + 1) = (Dow(d) % 7) + 1
                 /\ C[2] \in 1..12 /\ C[3] \in 1..DaysInMonth(C[1], C[2])
ClosedFormsAgree == /\ DaysFromCivil(C[1], C[2], C[3]) = d
                    /\ ToEpochDaysImpl(C[1], C[2], C[3]) = d
                    /\ ExtractYMDImpl(d) = C
                    /\ DayOfWeekImpl(C[1], C[2], C[3]) = Dow(d)
MutationsAgree == /\ (d < DayHi => IncrementOneDayImpl(C) = NextDay(C) /\ DecrementOneDayImpl(IncrementOneDayImpl(C)) = C)
                  /\ (d > DayLo => DecrementOneDayImpl(C) = PrevDay(C) /\ IncrementOneDayImpl(DecrementOneDayImpl(C)) = C)
\* the table for the conformance step: day -> (y, m, d, dow, leap, days in month)
Dump == PrintT(ToJson(<<d, C[1], C[2], C[3], Dow(d), IF IsLeap(C[1]) THEN 1 ELSE 0, DaysInMonth(C[1], C[2])>>))
=============================================================================
