SPECIFICATION Spec
INVARIANT TypeOK
INVARIANT DoneSane
INVARIANT ResolveSane
INVARIANT WallConforms
CHECK_DEADLOCK FALSE
