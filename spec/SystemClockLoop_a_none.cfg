SPECIFICATION Spec
CONSTANTS Sync = 4
 Initial = 1
 Timeout = 1000
 Steps = {500,1000,2500}
 TMax = 16000
 Mode = "none"
CONSTRAINT Bound
INVARIANT ValidApplied
INVARIANT BoundedResponse
INVARIANT NoReferenceOnlyKeepsTime
PROPERTY BackupLaw
PROPERTY BackupValue
PROPERTY NoCorrupt
PROPERTY Separation
PROPERTY BackoffLaw
PROPERTY RequestCount
CHECK_DEADLOCK FALSE
