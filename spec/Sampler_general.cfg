SPECIFICATION Spec
CONSTANTS I = 5
 M = 3
 R = 2
 MaxChanges = 2
 DetectDst = TRUE
INVARIANT RecordedAreChanges
INVARIANT EveryChangeBracketed
CHECK_DEADLOCK FALSE
