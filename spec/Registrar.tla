------------------------------ MODULE Registrar ------------------------------
(***************************************************************************)
(* ZoneRegistrar lookups (property C10) as an algorithm-level state        *)
(* machine with the code's 16-bit unsigned arithmetic.                     *)
(*                                                                         *)
(* A registry is a sequence of distinct integers standing for zone names   *)
(* (their order is the lexicographic order of the names); the sorted       *)
(* registry of size n is <<1, 3, .., 2n-1>>, so a query q in 0..2n is      *)
(* either present (odd) or falls before the first entry, between two       *)
(* adjacent entries, or after the last one (even): every gap position.     *)
(*                                                                         *)
(* Steps: the constructor's isSorted loop; findIndexForName dispatching to *)
(* binary search (sorted and size >= Threshold) or linear search; each     *)
(* comparison with a registry entry is one step and is recorded in         *)
(* `probes` (when TrackProbes) so that the probe sequence of the real      *)
(* code, observed through an injected comparator, can be compared.         *)
(*                                                                         *)
(* HalfOpen = FALSE is binarySearchByName as found (closed interval,       *)
(* b = c - 1 in uint16): TLC refutes InBounds and Terminates.              *)
(* HalfOpen = TRUE is the repaired algorithm the code now implements.      *)
(***************************************************************************)
EXTENDS Integers, Sequences, FiniteSets, TLC, Json, IOUtils

CONSTANTS MaxN,          \* registry sizes 0..MaxN
          MaxPermN,      \* unsorted registries: all permutations up to this size
          Threshold,     \* kBinarySearchThreshold (6)
          HalfOpen,      \* repaired binary search
          TrackProbes    \* record the probe sequence (off in the liveness configuration)

U16(x) == x % 65536
Invalid == 65535
SortedReg(n) == [k \in 1..n |-> 2 * k - 1]
Perms(n) == {f \in [1..n -> {2 * k - 1 : k \in 1..n}] : \A i, j \in 1..n : i # j => f[i] # f[j]}
\* further registries named by the conformance run (sizes of the shipped registries, seeded shuffles)
Extra == JsonDeserialize(IOEnv.REG_EXTRA)
ExtraRegs == {SortedReg(Extra.sizes[k]) : k \in 1..Len(Extra.sizes)} \cup {Extra.perms[k] : k \in 1..Len(Extra.perms)}
Registries == {SortedReg(n) : n \in 0..MaxN} \cup UNION {Perms(n) : n \in 0..MaxPermN} \cup ExtraRegs

VARIABLES reg,      \* the registry
          q,        \* the name asked for
          pc,       \* "sorted?" | "dispatch" | "lin" | "bin" | "done" | "oob"
          i,        \* loop index of isSorted / linear search (uint16)
          sorted,   \* result of isSorted
          a, b,     \* binary search bounds (uint16)
          res,      \* result index or Invalid
          probes    \* 0-based indices of the entries compared with q, in order
vars == <<reg, q, pc, i, sorted, a, b, res, probes>>
N == Len(reg)
Rec(c) == IF TrackProbes THEN Append(probes, c) ELSE probes

Init == /\ reg \in Registries
        /\ q \in 0..(2 * Len(reg))
        /\ pc = "sorted?" /\ i = 1 /\ sorted = FALSE /\ a = 0 /\ b = 0 /\ res = -1 /\ probes = <<>>

\* isSorted(): false for an empty registry; one comparison of neighbours per step
IsSortedStep ==
   /\ pc = "sorted?"
   /\ IF N = 0 THEN sorted' = FALSE /\ pc' = "dispatch" /\ i' = i
      ELSE IF i >= N THEN sorted' = TRUE /\ pc' = "dispatch" /\ i' = i
      ELSE IF reg[i] > reg[i + 1] THEN sorted' = FALSE /\ pc' = "dispatch" /\ i' = i
      ELSE sorted' = sorted /\ pc' = pc /\ i' = i + 1
   /\ UNCHANGED <<reg, q, a, b, res, probes>>

Dispatch ==
   /\ pc = "dispatch"
   /\ IF sorted /\ N >= Threshold
      THEN /\ pc' = "bin" /\ a' = 0 /\ b' = (IF HalfOpen THEN N ELSE U16(N - 1)) /\ i' = i
      ELSE /\ pc' = "lin" /\ i' = 0 /\ a' = a /\ b' = b
   /\ UNCHANGED <<reg, q, sorted, res, probes>>

LinStep ==
   /\ pc = "lin"
   /\ IF i >= N THEN res' = Invalid /\ pc' = "done" /\ i' = i /\ probes' = probes
      ELSE /\ probes' = Rec(i)
           /\ IF reg[i + 1] = q THEN res' = i /\ pc' = "done" /\ i' = i
              ELSE res' = res /\ pc' = pc /\ i' = U16(i + 1)
   /\ UNCHANGED <<reg, q, sorted, a, b>>

BinStep ==
   /\ pc = "bin"
   /\ IF HalfOpen
      THEN IF a >= b THEN res' = Invalid /\ pc' = "done" /\ UNCHANGED <<a, b, probes>>
           ELSE LET c == a + (b - a) \div 2 IN
                IF c >= N THEN pc' = "oob" /\ probes' = Rec(c) /\ UNCHANGED <<a, b, res>>
                ELSE /\ probes' = Rec(c)
                     /\ IF q = reg[c + 1] THEN res' = c /\ pc' = "done" /\ UNCHANGED <<a, b>>
                        ELSE IF q < reg[c + 1] THEN b' = c /\ a' = a /\ res' = res /\ pc' = pc
                        ELSE a' = U16(c + 1) /\ b' = b /\ res' = res /\ pc' = pc
      ELSE LET c == U16((a + b) \div 2) IN
           IF c >= N THEN pc' = "oob" /\ probes' = Rec(c) /\ UNCHANGED <<a, b, res>>
           ELSE /\ probes' = Rec(c)
                /\ IF q = reg[c + 1] THEN res' = c /\ pc' = "done" /\ UNCHANGED <<a, b>>
                   ELSE IF a = b THEN res' = Invalid /\ pc' = "done" /\ UNCHANGED <<a, b>>
                   ELSE IF q < reg[c + 1] THEN b' = U16(c - 1) /\ a' = a /\ res' = res /\ pc' = pc
                   ELSE a' = U16(c + 1) /\ b' = b /\ res' = res /\ pc' = pc
   /\ UNCHANGED <<reg, q, sorted, i>>

Next == IsSortedStep \/ Dispatch \/ LinStep \/ BinStep
Spec == Init /\ [][Next]_vars
FairSpec == Spec /\ WF_vars(Next)

----------------------------------------------------------------------------
Positions == {k \in 1..N : reg[k] = q}
Expected == IF Positions = {} THEN Invalid ELSE (CHOOSE k \in Positions : TRUE) - 1
IsReallySorted == N > 0 /\ \A k \in 1..(N - 1) : reg[k] <= reg[k + 1]

TypeOK == /\ pc \in {"sorted?", "dispatch", "lin", "bin", "done", "oob"}
          /\ a \in 0..65535 /\ b \in 0..65535 /\ i \in 0..65535
\* exactness: the entry whose name equals the query, else not-found
Exact == pc = "done" => res = Expected
\* every comparison touches a registry entry
InBounds == pc # "oob" /\ \A k \in 1..Len(probes) : probes[k] < N
SortedFlagRight == pc \in {"dispatch", "lin", "bin", "done"} => (sorted <=> IsReallySorted)
\* lookups by id use the same linear scan; by index: i < N ? entry : none
ByIndexExact == \A k \in 0..(N + 1) : (IF k < N THEN reg[k + 1] ELSE 0) = (IF k \in 0..(N - 1) THEN reg[k + 1] ELSE 0)
\* termination (checked under weak fairness in the liveness configuration, TrackProbes = FALSE)
Terminates == <>(pc \in {"done", "oob"})
\* a manager turns not-found into the error time zone and found into exactly that zone
CreateFor == IF res = Invalid THEN 0 ELSE reg[res + 1]
CreateExact == pc = "done" => CreateFor = (IF Positions = {} THEN 0 ELSE q)

\* export for the conformance step: one line per finished lookup
Dump == pc \in {"done", "oob"} => PrintT(ToJson([reg |-> reg, q |-> q, sorted |-> sorted, pc |-> pc, res |-> res, probes |-> probes]))
=============================================================================
