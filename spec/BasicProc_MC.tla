---------------------------- MODULE BasicProc_MC ----------------------------
(* BasicProc bound to the implementation: the cache the real              *)
(* BasicZoneProcessor holds after init(year) -- read by harness/pairdrv.cpp *)
(* `btables` -- must equal Table(zone, year) entry by entry, and the number *)
(* of transitions dropped for lack of a slot (hook H1) must equal the       *)
(* model's.  Obs[name][year] = [filled, dropped, rows], a row being         *)
(* <<startEpochSeconds, offsetMinutes, deltaMinutes, abbrev, year, month>>. *)
EXTENDS BasicProc

Obs == JsonDeserialize(IOEnv.BASICPROC_OBS)
ModelRow(r) == <<r.start, r.off, r.delta, r.abbrev, r.y, r.m>>
ObsRow(o) == <<<<o[1] \div 86400, o[1] % 86400>>, o[2], o[3], o[4], o[5], o[6]>>
HasObs == Z.name \in DOMAIN Obs /\ ToString(y) \in DOMAIN Obs[Z.name]
Judge ==
  HasObs =>
    LET o == Obs[Z.name][ToString(y)]
        mrows == [k \in 1..Len(tab.rows) |-> ModelRow(tab.rows[k])]
        orows == [k \in 1..Len(o.rows) |-> ObsRow(o.rows[k])]
        same == (o.filled = 1) = tab.filled /\ (tab.filled => (o.dropped = tab.dropped /\ orows = mrows))
    IN same \/ PrintT(ToJson([bad |-> Z.name, year |-> y, model |-> [filled |-> tab.filled, dropped |-> tab.dropped, rows |-> mrows],
                              impl |-> [filled |-> o.filled, dropped |-> o.dropped, rows |-> orows]]))
Done == y = YLast => PrintT(ToJson([zone |-> Z.name, pieces |-> pieces, judged |-> Z.name \in DOMAIN Obs]))
=============================================================================
