---------------------------- MODULE BasicProc_MC ----------------------------
(* BasicProc bound to the implementation: the cache the real              *)
(* BasicZoneProcessor holds after init(year) -- read by harness/pairdrv.cpp *)
(* `btables` -- must equal Table(zone, year) entry by entry, and the number *)
(* of transitions dropped for lack of a slot (hook H1) must equal the       *)
(* model's.  Obs[name][year] = [filled, dropped, rows], a row being         *)
(* <<startEpochSeconds, offsetMinutes, deltaMinutes, abbrev, year, month>>. *)
EXTENDS BasicProc, FiniteSets

Obs == JsonDeserialize(IOEnv.BASICPROC_OBS)
ModelRow(r) == <<r.start, r.off, r.delta, r.abbrev, r.y, r.m>>
ObsRow(o) == <<<<o[1] \div 86400, o[1] % 86400>>, o[2], o[3], o[4], o[5], o[6]>>
HasObs == Z.name \in DOMAIN Obs /\ ToString(y) \in DOMAIN Obs[Z.name]
Judge ==
  HasObs =>
    LET o == Obs[Z.name][ToString(y)]
        mrows == [k \in 1..Len(tab.rows) |-> ModelRow(tab.rows[k])]
        orows == [k \in 1..Len(o.rows) |-> ObsRow(o.rows[k])]
        same == (o.filled = 1) = tab.filled /\ (tab.filled => (o.dropped = tab.dropped /\ orows = mrows))
    IN same \/ PrintT(ToJson([bad |-> Z.name, year |-> y, model |-> [filled |-> tab.filled, dropped |-> tab.dropped, rows |-> mrows],
                              impl |-> [filled |-> o.filled, dropped |-> o.dropped, rows |-> orows]]))
\* ---- wall-clock resolution bound to the implementation (ZonedDateTime::forComponents on a basic zone).
\* WallObs[name][year] = windows [w0, w1, pieces] lying in that local year; pieces <<day, sec, shift, off, err>>.
WallObs == JsonDeserialize(IOEnv.BASICPROC_WALL)
HasWall == Z.name \in DOMAIN WallObs /\ ToString(y) \in DOMAIN WallObs[Z.name]
Near == (y - 2)..(y + 2)
PieceBadB(tabOf, brk, ps, j, w1) ==
  LET a == <<ps[j][1], ps[j][2]>>
      b == IF j < Len(ps) THEN <<ps[j + 1][1], ps[j + 1][2]>> ELSE w1
      pts == {a} \cup {c \in brk : Lt(a, c) /\ Lt(c, b)}
      want == IF ps[j][5] # 0 THEN Err ELSE <<ps[j][3], ps[j][4]>>
  IN {c \in pts : ResolveB(tabOf, c) # want}
WallJudge ==
  HasWall =>
    LET W == WallObs[Z.name][ToString(y)]
        tabOf == [yy \in Near |-> IF yy = y THEN tab ELSE Table(Z, yy)]
        brk == BreaksB(tabOf, (y - 1)..(y + 1))
        bad == {<<wi, j>> \in UNION {{<<wi, j>> : j \in 1..Len(W[wi].pieces)} : wi \in 1..Len(W)} :
                  PieceBadB(tabOf, brk, W[wi].pieces, j, <<W[wi].w1[1], W[wi].w1[2]>>) # {}}
    IN bad = {} \/ LET b == CHOOSE x \in bad : TRUE
                       c == CHOOSE x \in PieceBadB(tabOf, brk, W[b[1]].pieces, b[2], <<W[b[1]].w1[1], W[b[1]].w1[2]>>) : TRUE
                   IN PrintT(ToJson([wbad |-> Z.name, year |-> y, nbad |-> Cardinality(bad), at |-> c, model |-> ResolveB(tabOf, c),
                                     impl |-> W[b[1]].pieces[b[2]]]))
Done == y = YLast => PrintT(ToJson([zone |-> Z.name, pieces |-> pieces, judged |-> Z.name \in DOMAIN Obs]))
=============================================================================
