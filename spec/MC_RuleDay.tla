----------------------------- MODULE MC_RuleDay -----------------------------
(* Rule day resolution (property C18): for every year x month x weekday x   *)
(* day-of-month expression, the C++ transcription, the Python transcription *)
(* and the declarative resolution agree whenever the compiler admits the    *)
(* expression, and every expression that can leave the year is rejected.    *)
EXTENDS Calendar, Json
CONSTANTS YearLo, YearHi, YearStep, DumpOn
VARIABLES y, m, dow, dom
vars == <<y, m, dow, dom>>
Init == /\ y \in {yy \in YearLo..YearHi : (yy - YearLo) % YearStep = 0} /\ m \in 1..12 /\ dow \in 1..7 /\ dom \in -31..31
        /\ (dom > 0 => dom <= DaysInMonth(y, m)) /\ (dom < 0 => 0 - dom <= DaysInMonth(y, m))
Next == UNCHANGED vars
Spec == Init /\ [][Next]_vars

N == ResolveDef(y, m, dow, dom)
C == Civil(N)
\* the declarative resolution is what the property says: right weekday, nearest on the right side
DefIsRight == /\ Dow(N) = dow
              /\ (dom = 0 => (C[1] = y /\ C[2] = m /\ C[3] > DaysInMonth(y, m) - 7))
              /\ (dom > 0 => (N >= DaysFromCivil(y, m, dom) /\ N < DaysFromCivil(y, m, dom) + 7))
              /\ (dom < 0 => (N <= DaysFromCivil(y, m, 0 - dom) /\ N > DaysFromCivil(y, m, 0 - dom) - 7))
\* admitted expressions never leave the year, and all three resolutions agree on them
AdmittedAgree == Admitted(m, dow, dom) =>
                    /\ ~SpillsYear(y, m, dow, dom)
                    /\ CalcCpp(y, m, dow, dom) = <<C[2], C[3]>>
                    /\ CalcPy(y, m, dow, dom) = <<C[2], C[3]>>
\* (the converse direction of the rejection clause) anything that leaves the year is rejected
SpillRejected == SpillsYear(y, m, dow, dom) => ~Admitted(m, dow, dom)
Dump == DumpOn => PrintT(ToJson(<<y, m, dow, dom, C[1], C[2], C[3], IF Admitted(m, dow, dom) THEN 1 ELSE 0>>))
=============================================================================
