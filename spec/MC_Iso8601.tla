----------------------------- MODULE MC_Iso8601 -----------------------------
(* Parse(Print(x)) = x per component, over complete component domains:      *)
(* every date 1873..2127 (on a stride for the dump), every second of a day, *)
(* every offset within +-99:59; exact shapes of the printed forms.          *)
EXTENDS Iso8601, FiniteSets
CONSTANTS DayStep, SecStep, DumpOn
IsLeap(y) == (y % 4 = 0 /\ y % 100 # 0) \/ y % 400 = 0
DIM(y, m) == IF m = 2 THEN (IF IsLeap(y) THEN 29 ELSE 28) ELSE IF m \in {4, 6, 9, 11} THEN 30 ELSE 31
VARIABLE st
Init == \/ \E y \in 1873..2127, m \in 1..12, d \in 1..31 : d <= DIM(y, m) /\ (y * 372 + m * 31 + d) % DayStep = 0 /\ st = <<"date", y, m, d>>
        \/ \E sod \in 0..86399 : sod % SecStep = 0 /\ st = <<"time", sod \div 3600, (sod % 3600) \div 60, sod % 60>>
        \/ st = <<"time", 23, 59, 59>> \/ st = <<"time", 24, 0, 0>>
        \/ \E o \in -5999..5999 : st = <<"offset", o>>
Spec == Init /\ [][UNCHANGED st]_st
DateOK == st[1] = "date" => LET t == PrintDate(st[2], st[3], st[4]) IN
             /\ Len(t) = 10 /\ t[5] = Dash /\ t[8] = Dash /\ \A k \in {1, 2, 3, 4, 6, 7, 9, 10} : t[k] \in 48..57
             /\ ParseDate(t, 1) = <<st[2], st[3], st[4]>>
TimeOK == st[1] = "time" => LET t == PrintTime(st[2], st[3], st[4]) IN
             /\ Len(t) = 8 /\ t[3] = Colon /\ t[6] = Colon /\ ParseTime(t, 1) = <<st[2], st[3], st[4]>>
OffsetOK == st[1] = "offset" => LET t == PrintOffset(st[2]) IN
             /\ Len(t) = 6 /\ t[1] = (IF st[2] < 0 THEN Dash ELSE Plus) /\ t[4] = Colon
             /\ ParseOffset(t, 1) = st[2]
\* concatenation: the parsers are chained by position
ChainOK == st[1] = "offset" => LET t == PrintOffsetDateTime(2019, 12, 31, 23, 59, 58, st[2]) IN
             /\ Len(t) = 25 /\ ParseDate(t, 1) = <<2019, 12, 31>> /\ t[11] = Tee /\ ParseTime(t, 12) = <<23, 59, 58>> /\ ParseOffset(t, 20) = st[2]
Dump == DumpOn => PrintT(ToJson(CASE st[1] = "date" -> <<"date", st[2], st[3], st[4], PrintDate(st[2], st[3], st[4])>>
                                   [] st[1] = "time" -> <<"time", st[2], st[3], st[4], PrintTime(st[2], st[3], st[4])>>
                                   [] OTHER -> <<"offset", st[2], PrintOffset(st[2])>>))
=============================================================================
