---------------------------- MODULE TransitionPool ----------------------------
(***************************************************************************)
(* extended::TransitionStorage<SIZE> (property C09, buffer clause): four   *)
(* sub-pools of a fixed array delimited by three indices,                  *)
(*     active [0, prior)  prior [prior, cand)  candidates [cand, free)     *)
(*     free [free, SIZE)                                                   *)
(* and the operations ExtendedZoneProcessor::init() performs on them, in   *)
(* the order its call protocol allows (findTransitionsForMatch):           *)
(*   simple match : GetFreeAgent ; AddFreeAgentToActivePool                *)
(*   named match  : ResetCandidatePool ; ReservePrior ;                    *)
(*                  ( GetFreeAgent ; [SetFreeAgentAsPrior |                *)
(*                    AddFreeAgentToCandidatePool | nothing] )* ;          *)
(*                  [AddPriorToCandidatePool] ;                            *)
(*                  AddActiveCandidatesToActivePool                        *)
(* Guards are exactly the code's: GetFreeAgent and the two AddFreeAgent    *)
(* operations are guarded against free = SIZE; ReservePrior and            *)
(* SetFreeAgentAsPrior are not.  `oob` records an array access at an index *)
(* >= SIZE.  TLC shows that the design is safe exactly as long as the      *)
(* high-water mark stays below SIZE -- the bound the per-zone              *)
(* transitionBufSize estimate exists to guarantee -- and the conformance   *)
(* step checks that bound, and this protocol, for every zone and year.     *)
(***************************************************************************)
EXTENDS Integers, Sequences, TLC

CONSTANTS SIZE,        \* capacity (8)
          MaxMatches,  \* matches per init() (kMaxMatches = 4)
          MaxAgents    \* free agents requested per named match (bounds the model)

VARIABLES prior, cand, free, hw, oob, pc, matches, agents, priorActive
vars == <<prior, cand, free, hw, oob, pc, matches, agents, priorActive>>
\* (the true peak occupancy is max(free) over time; the code's high-water mark samples free only in getFreeAgent,
\*  so peak <= hw + 1: see PeakVsHighWater)

Init == /\ prior = 0 /\ cand = 0 /\ free = 0 /\ hw = 0 /\ oob = FALSE
        /\ pc = "idle" /\ matches = 0 /\ agents = 0 /\ priorActive = FALSE

Max(a, b) == IF a > b THEN a ELSE b

\* ---- the eight operations (op codes as emitted by hook H2) ----
InitPool == /\ prior' = 0 /\ cand' = 0 /\ free' = 0                         \* 0
ResetCandidatePool == /\ cand' = prior /\ free' = prior /\ prior' = prior   \* 1
GetFreeAgentEff == hw' = Max(hw, free)                                      \* 2 (indices unchanged)
AddFreeAgentToActivePoolEff ==                                              \* 3 (silent no-op when full)
   IF free >= SIZE THEN UNCHANGED <<prior, cand, free>>
   ELSE free' = free + 1 /\ prior' = free + 1 /\ cand' = free + 1
ReservePriorEff == /\ cand' = cand + 1 /\ free' = free + 1 /\ prior' = prior   \* 4 (unguarded)
                   /\ oob' = (oob \/ prior >= SIZE)                            \*   writes through mTransitions[prior]
SetFreeAgentAsPriorEff == oob' = (oob \/ free >= SIZE \/ prior >= SIZE)     \* 5 swaps mTransitions[prior], mTransitions[free]
AddPriorToCandidatePoolEff == cand' = cand - 1                              \* 6
AddFreeAgentToCandidatePoolEff ==                                           \* 7 (silent no-op when full)
   IF free >= SIZE THEN UNCHANGED free ELSE free' = free + 1
\* keeps k of the candidates (those marked active), 0 <= k <= free - cand  \* 8
AddActiveCandidatesEff(k) == /\ prior' = prior + k /\ cand' = prior + k /\ free' = prior + k

\* ---- the call protocol ----
StartSimple == /\ pc = "idle" /\ matches < MaxMatches
               /\ GetFreeAgentEff /\ pc' = "simple" /\ matches' = matches + 1
               /\ UNCHANGED <<prior, cand, free, oob, agents, priorActive>>
FinishSimple == /\ pc = "simple" /\ AddFreeAgentToActivePoolEff /\ pc' = "idle"
                /\ UNCHANGED <<hw, oob, matches, agents, priorActive>>
StartNamed == /\ pc = "idle" /\ matches < MaxMatches
              /\ ResetCandidatePool /\ pc' = "reserve" /\ matches' = matches + 1 /\ agents' = 0 /\ priorActive' = FALSE
              /\ UNCHANGED <<hw, oob>>
Reserve == /\ pc = "reserve" /\ ReservePriorEff /\ pc' = "loop"
           /\ UNCHANGED <<hw, matches, agents, priorActive>>
GetAgent == /\ pc = "loop" /\ agents < MaxAgents
            /\ GetFreeAgentEff /\ pc' = "agent" /\ agents' = agents + 1
            /\ UNCHANGED <<prior, cand, free, oob, matches, priorActive>>
AgentAsPrior == /\ pc = "agent" /\ SetFreeAgentAsPriorEff /\ pc' = "loop" /\ priorActive' = TRUE
                /\ UNCHANGED <<prior, cand, free, hw, matches, agents>>
AgentAsCandidate == /\ pc = "agent" /\ AddFreeAgentToCandidatePoolEff /\ pc' = "loop"
                    /\ UNCHANGED <<prior, cand, hw, oob, matches, agents, priorActive>>
AgentDropped == /\ pc = "agent" /\ pc' = "loop"
                /\ UNCHANGED <<prior, cand, free, hw, oob, matches, agents, priorActive>>
PriorToCandidates == /\ pc = "loop" /\ priorActive /\ AddPriorToCandidatePoolEff /\ pc' = "select"
                     /\ UNCHANGED <<prior, free, hw, oob, matches, agents, priorActive>>
NoPrior == /\ pc = "loop" /\ ~priorActive /\ pc' = "select"
           /\ UNCHANGED <<prior, cand, free, hw, oob, matches, agents, priorActive>>
Select == /\ pc = "select" /\ \E k \in 0..Max(0, free - cand) : AddActiveCandidatesEff(k)
          /\ pc' = "idle" /\ UNCHANGED <<hw, oob, matches, agents, priorActive>>
Next == StartSimple \/ FinishSimple \/ StartNamed \/ Reserve \/ GetAgent \/ AgentAsPrior \/ AgentAsCandidate
        \/ AgentDropped \/ PriorToCandidates \/ NoPrior \/ Select
Spec == Init /\ [][Next]_vars

----------------------------------------------------------------------------
B == SIZE + MaxMatches + 1
TypeOK == prior \in 0..B /\ cand \in 0..B /\ free \in 0..B /\ hw \in 0..B
\* the design's safety theorem: while the high-water mark stays below the capacity the pools are well formed
\* and no access leaves the array
\* `peakOK` = the occupancy (free) has stayed below SIZE so far; the code's own high-water mark samples free only
\* inside getFreeAgent, so it can lag behind the occupancy by the reserved prior and the last agent added
SafeBelowCapacity == (free < SIZE /\ hw < SIZE) => (~oob /\ prior <= cand /\ cand <= free /\ cand - prior <= 1)
\* (unconditionally this is false: TLC refutes it -- the reason transitionBufSize must be checked per zone)
AlwaysInBounds == ~oob /\ free <= SIZE

=============================================================================
