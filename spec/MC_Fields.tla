------------------------------ MODULE MC_Fields ------------------------------
(***************************************************************************)
(* Instants <-> date-time fields at a fixed UTC offset (property C05).     *)
(* An instant is <<day, secondOfDay>> (TLC integers are 32 bit); offsets   *)
(* are minutes.  Fields(e, off) are the UTC fields of the shifted instant; *)
(* Instant(fields, off) inverts it.  Theorems, checked over all days of    *)
(* the int32 range on a stride x boundary seconds x a set of offsets:      *)
(* round trip, conversion between offsets preserves the instant, the Unix  *)
(* epoch differs by exactly 10957 days, order is the order of instants.    *)
(***************************************************************************)
EXTENDS Calendar, Json
CONSTANTS DayStep, DumpOn
Offsets == {-960, -721, -480, -60, -1, 0, 1, 330, 345, 765, 960}
Secs == {0, 1, 3599, 43200, 86398, 86399}
Norm(d, s) == <<d + (s \div 86400), s % 86400>>
Shift(e, mins) == Norm(e[1], e[2] + 60 * mins)
Fields(e, off) == LET l == Shift(e, off)  c == Civil(l[1])
                  IN <<c[1], c[2], c[3], l[2] \div 3600, (l[2] % 3600) \div 60, l[2] % 60>>
Instant(f, off) == Shift(<<DaysFromCivil(f[1], f[2], f[3]), f[4] * 3600 + f[5] * 60 + f[6]>>, 0 - off)
Lt(a, b) == a[1] < b[1] \/ (a[1] = b[1] /\ a[2] < b[2])
Cmp(a, b) == IF Lt(a, b) THEN -1 ELSE IF a = b THEN 0 ELSE 1
UnixDays(e) == e[1] + 10957            \* 946684800 s = 10957 days exactly

VARIABLES e, off
Init == /\ \E d \in -24855..24854 : d % DayStep = 0 /\ \E s \in Secs : e = <<d, s>>
        /\ off \in Offsets
Spec == Init /\ [][UNCHANGED <<e, off>>]_<<e, off>>
F == Fields(e, off)
RoundTrip == Instant(F, off) = e
FieldsValid == F[2] \in 1..12 /\ F[3] \in 1..DaysInMonth(F[1], F[2]) /\ F[4] \in 0..23 /\ F[5] \in 0..59 /\ F[6] \in 0..59
ConvertPreserves == \A o2 \in Offsets : Instant(Fields(e, o2), o2) = e
UnixOffset == 10957 * 86400 = 946684800 /\ UnixDays(e) - e[1] = 10957
OrderIsInstantOrder == \A d \in {-86400, -1, 0, 1, 3600, 86400} : \A o2 \in {0, off} :
                          Cmp(Instant(F, off), Instant(Fields(Norm(e[1], e[2] + d), o2), o2)) = (IF d > 0 THEN -1 ELSE IF d = 0 THEN 0 ELSE 1)
Dump == DumpOn => PrintT(ToJson(<<e[1], e[2], off>> \o F))
=============================================================================
