------------------------------- MODULE Sampler -------------------------------
(***************************************************************************)
(* The transition finder of the validation-data generators (property C19): *)
(* tools/compare_pytz/tdgenerator.py and compare_dateutil/tdgenerator.py   *)
(* share it.  The third-party library's time zone is an arbitrary step     *)
(* function of time (ticks = minutes) with values <<utc offset, dst>>; the *)
(* algorithm samples it every I ticks from the start of the range (the     *)
(* final interval is shortened to end at the last instant H - 1 of the     *)
(* range), bisects every interval whose end points differ down to two      *)
(* adjacent ticks, and records one item on either side.                    *)
(*                                                                         *)
(* TLC enumerates every step function with at most MaxChanges changes on   *)
(* a window of M whole intervals plus a remainder R.  EveryChangeBracketed *)
(* is refuted in general (two changes in one interval)                     *)
(* and holds under EnvOK; both facts are used by the       *)
(* conformance step, which replays every enumerated function through the   *)
(* real generator classes with a fake tzinfo.                              *)
(***************************************************************************)
EXTENDS Integers, Sequences, FiniteSets, TLC, Json
CONSTANTS I, M, R, MaxChanges, DetectDst
H == M * I + R                    \* the end of the range (exclusive), in ticks from the window start
Vals == {<<0, 0>>, <<60, 60>>, <<0, 30>>}     \* <<utc offset, dst offset>>: the third differs from the first in dst only

VARIABLES chg, vals,              \* the step function: change ticks (ascending) and the n+1 values
          dt, nxt, left, right, pc, recorded, items
vars == <<chg, vals, dt, nxt, left, right, pc, recorded, items>>

V(t) == LET S == {k \in 1..Len(chg) : chg[k] <= t} IN vals[Cardinality(S) + 1]
Trans(x, y) == x[1] # y[1] \/ (DetectDst /\ x[2] # y[2])
OnlyDst(x, y) == DetectDst /\ x[1] = y[1] /\ x[2] # y[2]

StepFunctions == UNION {{<<c, v>> : c \in {s \in [1..n -> 1..(H + I)] : \A k \in 1..(n - 1) : s[k] < s[k + 1]},
                                    v \in {w \in [1..(n + 1) -> Vals] : \A k \in 1..n : w[k] # w[k + 1]}} : n \in 0..MaxChanges}
Init == /\ \E f \in StepFunctions : chg = f[1] /\ vals = f[2]
        /\ dt = 0 /\ nxt = 0 /\ left = 0 /\ right = 0 /\ pc = "sample" /\ recorded = <<>> /\ items = <<>>

\* _add_test_item: keyed by the instant; 'A'/'B' replace an existing item, other tags do not
AddItem(its, t, tag) == LET S == {k \in 1..Len(its) : its[k][1] = t}
                        IN IF S = {} THEN Append(its, <<t, tag>>)
                           ELSE IF tag \in {"A", "B"} THEN [k \in 1..Len(its) |-> IF its[k][1] = t THEN <<t, tag>> ELSE its[k]]
                           ELSE its
Last == H - 1                     \* the last instant of the range; the final interval is shortened to end here
Min(a, b) == IF a < b THEN a ELSE b
Sample == /\ pc = "sample"
          /\ IF dt >= Last THEN pc' = "done" /\ UNCHANGED <<dt, nxt, left, right>>
             ELSE LET n == Min(dt + I, Last) IN
                  IF Trans(V(dt), V(n)) THEN pc' = "bisect" /\ left' = dt /\ right' = n /\ nxt' = n /\ dt' = dt
                  ELSE pc' = "sample" /\ dt' = n /\ UNCHANGED <<nxt, left, right>>
          /\ UNCHANGED <<chg, vals, recorded, items>>
Bisect == /\ pc = "bisect"
          /\ LET delta == (right - left) \div 2 IN
             IF delta = 0
             THEN /\ recorded' = Append(recorded, <<left, right, OnlyDst(V(left), V(right))>>)
                  /\ items' = AddItem(AddItem(items, left, IF OnlyDst(V(left), V(right)) THEN "a" ELSE "A"), right, IF OnlyDst(V(left), V(right)) THEN "b" ELSE "B")
                  /\ dt' = nxt /\ pc' = "sample" /\ UNCHANGED <<left, right, nxt>>
             ELSE /\ (IF Trans(V(left), V(left + delta)) THEN right' = left + delta /\ left' = left ELSE left' = left + delta /\ right' = right)
                  /\ UNCHANGED <<dt, nxt, pc, recorded, items>>
          /\ UNCHANGED <<chg, vals>>
Next == Sample \/ Bisect
Spec == Init /\ [][Next]_vars

----------------------------------------------------------------------------
Changes == {chg[k] : k \in {j \in 1..Len(chg) : chg[j] < H /\ Trans(vals[j], vals[j + 1])}}
Bracketed(c) == \E k \in 1..Len(recorded) : recorded[k][1] = c - 1 /\ recorded[k][2] = c
\* every recorded pair is a real change at adjacent ticks (soundness: holds unconditionally)
RecordedAreChanges == \A k \in 1..Len(recorded) : recorded[k][2] = recorded[k][1] + 1 /\ Trans(V(recorded[k][1]), V(recorded[k][2]))
\* completeness: every change of the library inside the range is bracketed
EveryChangeBracketed == pc = "done" => \A c \in Changes : Bracketed(c)
\* the environment under which completeness holds: at most one change per examined interval (k*I, min((k+1)*I, Last)]
EnvOK == \A k \in 0..M : Cardinality({c \in Changes : c > k * I /\ c <= Min((k + 1) * I, Last)}) <= 1
BracketedUnderEnv == (pc = "done" /\ EnvOK) => \A c \in Changes : Bracketed(c)
Dump == pc = "done" => PrintT(ToJson([I |-> I, H |-> H, chg |-> chg, vals |-> vals, recorded |-> recorded, items |-> items,
                                        all |-> (\A c \in Changes : Bracketed(c)), env |-> EnvOK]))
=============================================================================
