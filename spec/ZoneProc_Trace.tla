--------------------------- MODULE ZoneProc_Trace ---------------------------
(* Trace validation for ZoneProc (DESIGN.md P2): call histories recorded   *)
(* from the real TimeZone / ZoneProcessor / ZoneManager classes are        *)
(* replayed through ZoneProc!Call; after every call the logged projection  *)
(* of the real state (bound zone, cached year, filled flag of every        *)
(* processor; round-robin index) and the class of the logged answer must   *)
(* equal the model's.  Many traces per TLC run: one initial state each.    *)
EXTENDS ZoneProc, IOUtils

Traces == JsonDeserialize(IOEnv.ZP_TRACES)
VARIABLES tid, l, bad
tvars == <<procs, rr, last, tid, l, bad>>

Ev == Traces[tid].events[l]
HandleOf(e) == [kind |-> e.hk, zone |-> e.zone, proc |-> e.proc]
ClassOf(a) == a[1]                         \* "ans" | "error" | "name" | "NULLDEREF"
Proj(ps) == [p \in ProcIds |-> <<ps[p].bound, ps[p].year, ps[p].filled>>]
Logged(e) == [p \in ProcIds |-> <<e.state[p][1], e.state[p][2], e.state[p][3] = 1>>]
StepOK(e) ==
   LET h == HandleOf(e)
       r == Reach(h, e.op)
       o == OnProc(r.pr, e.op, e.year)
       np == [procs EXCEPT ![r.p] = o[1]]
   IN /\ <<h, e.op, e.year>> \in Handles \X Ops \X Years
      /\ Proj(np) = Logged(e)
      /\ (K > 0 => r.rr = e.rr)
      /\ ClassOf(o[2]) = e.cls
      /\ (e.cls = "ans" => o[2] = <<"ans", h.zone, e.year>>)     \* the model's table is the handle's zone and year

TInit == /\ Init /\ tid \in 1..Len(Traces) /\ l = 1 /\ bad = 0
TNext == /\ bad = 0 /\ l <= Len(Traces[tid].events)
         /\ IF StepOK(Ev)
            THEN Call(HandleOf(Ev), Ev.op, Ev.year) /\ l' = l + 1 /\ bad' = 0 /\ tid' = tid
            ELSE bad' = l /\ UNCHANGED <<procs, rr, last, tid, l>>
TSpec == TInit /\ [][TNext]_tvars

\* one verdict line per trace: accepted (consumed every event) or the index of the first rejected event
Verdict == (bad # 0 \/ l = Len(Traces[tid].events) + 1) =>
   PrintT(ToJson([trace |-> Traces[tid].id, accepted |-> (bad = 0), at |-> bad, len |-> Len(Traces[tid].events),
                  model |-> (IF bad = 0 THEN <<>> ELSE
                              LET e == Ev
                                  h == HandleOf(e)
                                  r == Reach(h, e.op)
                                  o == OnProc(r.pr, e.op, e.year)
                              IN <<ToString(Proj([procs EXCEPT ![r.p] = o[1]])), ToString(o[2]), ToString(r.rr)>>)]))
\* the properties of ZoneProc hold along every validated trace as well
TraceInv == TypeOK /\ ContentCoherent /\ OneSlotPerZone
=============================================================================
