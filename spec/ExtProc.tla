------------------------------- MODULE ExtProc -------------------------------
(***************************************************************************)
(* The algorithm of ExtendedZoneProcessor::init(year): how the per-year    *)
(* table of transitions is built from a compiled zone (ZoneInfo / ZoneEra  *)
(* / ZonePolicy / ZoneRule records) -- src/ace_time/ExtendedZoneProcessor.h *)
(*                                                                         *)
(*   findMatches            eras overlapping [year-1 Dec, year+1 Feb)      *)
(*   per match                                                             *)
(*     simple era           one transition at the match start              *)
(*     era with a policy    findCandidateTransitions (interior years, most *)
(*                          recent prior year, fuzzy one-month comparison, *)
(*                          candidate pool kept sorted by insertion),      *)
(*                          fixTransitionTimes (w/s/u expansion with the   *)
(*                          previous candidate's offsets),                 *)
(*                          selectActiveTransitions (exact comparison,     *)
(*                          latest prior shifted to the match start),      *)
(*                          active candidates appended to the active pool  *)
(*   fixTransitionTimes, generateStartUntilTimes, calcAbbreviations over   *)
(*   the active pool.                                                      *)
(*                                                                         *)
(* The specification is written the way the code works (one operator per   *)
(* function of the class, same comparisons, same order of evaluation,      *)
(* same fixed limits) so that it can be bound: for every zone and year the *)
(* table held by the real processor must equal Table(zone, year) field by  *)
(* field (ExtProc_MC, Obs), and the pool high-water mark must equal hw.    *)
(* Two things the code leaves to chance are made explicit:                 *)
(*   stale  - a candidate whose `active` flag no branch of                 *)
(*            processActiveTransition assigns keeps whatever the pooled    *)
(*            object held before (NoStaleFlag);                            *)
(*   over   - more transitions than the pool holds (NoOverflow).           *)
(* Glued over consecutive years the tables give the zone's step function   *)
(* (ZonePieces), which TzSem.tla judges against the meaning of the source  *)
(* lines: the algorithm refines the semantics on every zone it is given.   *)
(*                                                                         *)
(* Instants are <<day, second of day>>, day 0 = 2000-01-01 (32-bit TLC).   *)
(***************************************************************************)
EXTENDS ProcCommon, Json, IOUtils

Model == JsonDeserialize(IOEnv.EXTPROC_MODEL)
Zones == Model.zones          \* [name, startYear, untilYear, bufSize, eras]
Pols == Model.policies        \* sequence of sequences of rules
NZ == Len(Zones)
Y0 == Model.y0                \* the zone's step function is glued from the tables of the years Y0..Y1
Y1 == Model.y1
YLast == Model.ylast          \* tables are built (and bound) up to this year; the step function is glued over Y0..Y1

Capacity == 8                 \* kMaxTransitions
MaxMatches == 4               \* kMaxMatches
MaxInterior == 4              \* kMaxInteriorYears
InvalidYear == 1872           \* LocalDate::kInvalidYearTiny + 2000
NullLetter == "<null>"        \* Transition::letter() == nullptr (era without a policy)


----------------------------------------------------------------------------
\* calendar, calcStartDayOfMonth and the string helpers: ProcCommon.tla
----------------------------------------------------------------------------
\* extended::DateTuple
DT(y, m, d, mi, s) == [y |-> y, m |-> m, d |-> d, mi |-> mi, s |-> s]
DLt(a, b) == \/ a.y < b.y
             \/ a.y = b.y /\ a.m < b.m
             \/ a.y = b.y /\ a.m = b.m /\ a.d < b.d
             \/ a.y = b.y /\ a.m = b.m /\ a.d = b.d /\ a.mi < b.mi       \* operator< ignores the suffix
DecDay(t) == IF t.d > 1 THEN [t EXCEPT !.d = @ - 1]
             ELSE IF t.m > 1 THEN [t EXCEPT !.m = @ - 1, !.d = DIM(t.y, t.m - 1)]
             ELSE [t EXCEPT !.y = @ - 1, !.m = 12, !.d = 31]
IncDay(t) == IF t.d < DIM(t.y, t.m) THEN [t EXCEPT !.d = @ + 1]
             ELSE IF t.m < 12 THEN [t EXCEPT !.m = @ + 1, !.d = 1]
             ELSE [t EXCEPT !.y = @ + 1, !.m = 1, !.d = 1]
\* normalizeDateTuple: one day in either direction
Norm(t) == IF t.mi < 0 THEN [DecDay(t) EXCEPT !.mi = t.mi + 1440]
           ELSE IF t.mi >= 1440 THEN [IncDay(t) EXCEPT !.mi = t.mi - 1440]
           ELSE t
\* expandDateTuple: the 'w', 's' and 'u' readings of a time given the offsets in force
Expand(tt, off, delta) ==
  IF tt.s = "s" THEN [w |-> Norm(DT(tt.y, tt.m, tt.d, tt.mi + delta, "w")), s |-> Norm(tt),
                      u |-> Norm(DT(tt.y, tt.m, tt.d, tt.mi - off, "u"))]
  ELSE IF tt.s = "u" THEN [w |-> Norm(DT(tt.y, tt.m, tt.d, tt.mi + off + delta, "w")),
                           s |-> Norm(DT(tt.y, tt.m, tt.d, tt.mi + off, "s")), u |-> Norm(tt)]
  ELSE [w |-> Norm(DT(tt.y, tt.m, tt.d, tt.mi, "w")), s |-> Norm(DT(tt.y, tt.m, tt.d, tt.mi - delta, "s")),
        u |-> Norm(DT(tt.y, tt.m, tt.d, tt.mi - (delta + off), "u"))]

----------------------------------------------------------------------------
\* findMatches / createMatch
Anchor == [pol |-> 0, fmt |-> "", off |-> 0, delta |-> 0, uy |-> InvalidYear, um |-> 1, ud |-> 1, umin |-> 0, usuf |-> "w"]
EraAt(Z, k) == IF k = 0 THEN Anchor ELSE Z.eras[k]
CmpEraYM(e, y, m) == IF e.uy < y THEN -1 ELSE IF e.uy > y THEN 1
                     ELSE IF e.um < m THEN -1 ELSE IF e.um > m THEN 1
                     ELSE IF e.ud > 1 THEN 1 ELSE IF e.umin > 0 THEN 1 ELSE 0
UntilTuple(e) == DT(e.uy, e.um, e.ud, e.umin, e.usuf)
MatchOf(Z, k, year) ==
  LET sd == UntilTuple(EraAt(Z, k - 1))
      lb == DT(year - 1, 12, 1, 0, "w")
      ud == UntilTuple(Z.eras[k])
      ub == DT(year + 1, 2, 1, 0, "w")
  IN [start |-> IF DLt(sd, lb) THEN lb ELSE sd, until |-> IF DLt(ub, ud) THEN ub ELSE ud, e |-> k]
Matches(Z, year) ==
  LET all == SelectSeq([k \in 1..Len(Z.eras) |-> k],
                       LAMBDA k : CmpEraYM(EraAt(Z, k - 1), year + 1, 2) < 0 /\ CmpEraYM(Z.eras[k], year - 1, 12) > 0)
      kept == IF Len(all) > MaxMatches THEN SubSeq(all, 1, MaxMatches) ELSE all
  IN [j \in 1..Len(kept) |-> MatchOf(Z, kept[j], year)]

----------------------------------------------------------------------------
\* createTransitionForYear: r = 0 for an era without a policy
Create(Z, M, r, y) ==
  LET e == Z.eras[M.e] IN
  IF r = 0 THEN [tt |-> M.start, tts |-> M.start, ttu |-> M.start, off |-> e.off, delta |-> e.delta, letter |-> NullLetter,
                 fmt |-> e.fmt, mu |-> M.until, active |-> FALSE, stale |-> TRUE]
  ELSE LET R == Pols[e.pol][r]
           md == StartDay(y, R.mon, R.dow, R.dom)
           t == DT(y, md[1], md[2], R.at, R.suf)
       IN [tt |-> t, tts |-> t, ttu |-> t, off |-> e.off, delta |-> R.delta, letter |-> R.letter,
           fmt |-> e.fmt, mu |-> M.until, active |-> FALSE, stale |-> TRUE]

\* compareTransitionToMatchFuzzy: never 0
Fuzzy(t, M) == LET tm == t.tt.y * 12 + t.tt.m
                   sm == M.start.y * 12 + M.start.m
                   um == M.until.y * 12 + M.until.m
               IN IF tm < sm - 1 THEN -1 ELSE IF um + 2 <= tm THEN 2 ELSE 1

\* calcInteriorYears, getMostRecentPriorYear
Interior(R, sy, ey) == LET ys == SelectSeq([k \in 1..(ey - sy + 1) |-> sy + k - 1], LAMBDA y : R.fr <= y /\ y <= R.to)
                       IN IF Len(ys) > MaxInterior THEN SubSeq(ys, 1, MaxInterior) ELSE ys
PriorYear(R, sy) == IF R.fr < sy THEN (IF R.to < sy THEN R.to ELSE sy - 1) ELSE InvalidYear
\* the order in which findCandidateTransitions creates transitions: <<rule, year, isPriorYear>>
RECURSIVE Events(_, _, _, _)
Events(P, r, sy, ey) ==
  IF r > Len(P) THEN <<>>
  ELSE LET iy == Interior(P[r], sy, ey)
           py == PriorYear(P[r], sy)
       IN [k \in 1..Len(iy) |-> <<r, iy[k], FALSE>>] \o (IF py # InvalidYear THEN <<<<r, py, TRUE>>>> ELSE <<>>) \o Events(P, r + 1, sy, ey)

\* setAsPriorTransition
SetPrior(st, t) == IF st.hasPrior /\ ~DLt(st.prior.tt, t.tt) THEN st
                   ELSE [st EXCEPT !.hasPrior = TRUE, !.prior = [t EXCEPT !.active = TRUE, !.stale = FALSE]]
\* addFreeAgentToCandidatePool: insertion sort from the end of the pool
RECURSIVE InsPos(_, _, _)
InsPos(c, t, k) == IF k = 0 THEN 0 ELSE IF ~DLt(t.tt, c[k].tt) THEN k ELSE InsPos(c, t, k - 1)
Insert(c, t) == LET p == InsPos(c, t, Len(c)) IN SubSeq(c, 1, p) \o <<t>> \o SubSeq(c, p + 1, Len(c))

\* findCandidateTransitions; nAct = size of the active pool when the match is processed
RECURSIVE Collect(_, _, _, _, _, _)
Collect(Z, M, evs, k, nAct, st) ==
  IF k > Len(evs) THEN st
  ELSE LET ev == evs[k]
           t == Create(Z, M, ev[1], ev[2])
           free == nAct + 1 + Len(st.cands)          \* mIndexFree when getFreeAgent() is called
           st1 == [st EXCEPT !.hw = Max(@, free)]
           f == Fuzzy(t, M)
           st2 == IF ev[3] \/ f < 0 THEN SetPrior(st1, t)
                  ELSE IF f = 1 THEN (IF free >= Capacity THEN [st1 EXCEPT !.over = TRUE] ELSE [st1 EXCEPT !.cands = Insert(@, t)])
                  ELSE st1
       IN Collect(Z, M, evs, k + 1, nAct, st2)

\* fixTransitionTimes: each time expanded with the offsets of the transition before it (the first with its own)
FixTimes(s) == [k \in 1..Len(s) |-> LET p == s[IF k = 1 THEN 1 ELSE k - 1]
                                        x == Expand(s[k].tt, p.off, p.delta)
                                    IN [s[k] EXCEPT !.tt = x.w, !.tts = x.s, !.ttu = x.u]]

\* compareTransitionToMatch: -1 before, 0 at the start, 1 inside, 2 at or after the end
Pick(t, suf) == IF suf = "s" THEN t.tts ELSE IF suf = "u" THEN t.ttu ELSE t.tt
Cmp(t, M) == LET a == Pick(t, M.start.s) IN
             IF DLt(a, M.start) THEN -1
             ELSE IF a = M.start THEN 0
             ELSE IF DLt(Pick(t, M.until.s), M.until) THEN 1 ELSE 2
\* selectActiveTransitions / processActiveTransition; pi = index of the latest prior so far (0 = none)
RECURSIVE Select(_, _, _, _)
Select(c, M, k, pi) ==
  IF k > Len(c) THEN <<c, pi>>
  ELSE LET s == Cmp(c[k], M) IN
       IF s = 2 THEN Select([c EXCEPT ![k].active = FALSE, ![k].stale = FALSE], M, k + 1, pi)
       ELSE IF s = 1 THEN Select([c EXCEPT ![k].active = TRUE, ![k].stale = FALSE], M, k + 1, pi)
       ELSE IF s = 0 THEN
            LET c1 == IF pi > 0 THEN [c EXCEPT ![pi].active = FALSE] ELSE c
            IN Select([c1 EXCEPT ![k].active = TRUE, ![k].stale = FALSE], M, k + 1, k)
       ELSE IF pi > 0 THEN
            (IF DLt(c[pi].tt, c[k].tt)
             THEN Select([c EXCEPT ![pi].active = FALSE, ![k].active = TRUE, ![k].stale = FALSE], M, k + 1, k)
             ELSE Select(c, M, k + 1, pi))           \* no branch assigns `active`: it keeps what the pooled object held
       ELSE Select([c EXCEPT ![k].active = TRUE, ![k].stale = FALSE], M, k + 1, k)

\* findTransitionsFromNamedMatch
Named(Z, M, nAct) ==
  LET P == Pols[Z.eras[M.e].pol]
      st == Collect(Z, M, Events(P, 1, M.start.y, M.until.y), 1, nAct,
                    [hasPrior |-> FALSE, prior |-> Create(Z, M, 0, 0), cands |-> <<>>, hw |-> 0, over |-> FALSE])
      cands == FixTimes(IF st.hasPrior THEN <<st.prior>> \o st.cands ELSE st.cands)
      sel == Select(cands, M, 1, 0)
      c2 == IF sel[2] > 0 THEN [sel[1] EXCEPT ![sel[2]].tt = M.start] ELSE sel[1]     \* the latest prior starts with the match
  IN [act |-> SelectSeq(c2, LAMBDA t : t.active), hw |-> st.hw, over |-> st.over,
      stale |-> \E k \in 1..Len(c2) : c2[k].stale]

\* findTransitions
RECURSIVE Build(_, _, _, _)
Build(Z, Ms, k, acc) ==
  IF k > Len(Ms) THEN acc
  ELSE LET M == Ms[k]
           n == Len(acc.act)
       IN IF Z.eras[M.e].pol = 0
          THEN Build(Z, Ms, k + 1, [acc EXCEPT !.act = IF n >= Capacity THEN @ ELSE Append(@, [Create(Z, M, 0, 0) EXCEPT !.active = TRUE, !.stale = FALSE]),
                                               !.hw = Max(@, n), !.over = @ \/ n >= Capacity])
          ELSE LET r == Named(Z, M, n)
               IN Build(Z, Ms, k + 1, [act |-> acc.act \o r.act, hw |-> Max(acc.hw, r.hw), over |-> acc.over \/ r.over,
                                       stale |-> acc.stale \/ r.stale])

----------------------------------------------------------------------------
\* createAbbreviation / copyAndReplace (destination of kAbbrevSize = 7 bytes: six characters are kept)
Abbrev(fmt, delta, letter) ==
  IF Find(fmt, "%") # 0 THEN (IF letter = NullLetter THEN Trunc(fmt) ELSE Trunc(Replace(fmt, letter)))
  ELSE LET p == Find(fmt, "/") IN
       IF p = 0 THEN Trunc(fmt)
       ELSE IF delta = 0 THEN Trunc(SubSeq(fmt, 1, p - 1)) ELSE Trunc(SubSeq(fmt, p + 1, Len(fmt)))

\* generateStartUntilTimes + calcAbbreviations: the rows of the finished table
Rows(a) ==
  [k \in 1..Len(a) |->
     LET t == a[k]
         p == a[IF k = 1 THEN 1 ELSE k - 1]
         sdt == Norm(DT(t.tt.y, t.tt.m, t.tt.d, t.tt.mi - p.off - p.delta + t.off + t.delta, t.tt.s))
     IN [start |-> NormI(Days(sdt.y, sdt.m, sdt.d), 60 * (sdt.mi - (t.off + t.delta))),
         off |-> t.off, delta |-> t.delta, abbrev |-> Abbrev(t.fmt, t.delta, t.letter), sdt |-> sdt,
         udt |-> IF k < Len(a) THEN a[k + 1].tt ELSE Expand(t.mu, t.off, t.delta).w]]

\* ExtendedZoneProcessor::init(year)
Table(Z, year) ==
  IF year < Z.startYear - 1 \/ Z.untilYear < year
  THEN [filled |-> FALSE, nm |-> 0, rows |-> <<>>, hw |-> 0, over |-> FALSE, stale |-> FALSE]
  ELSE LET Ms == Matches(Z, year)
           b == Build(Z, Ms, 1, [act |-> <<>>, hw |-> 0, over |-> FALSE, stale |-> FALSE])
       IN [filled |-> TRUE, nm |-> Len(Ms), rows |-> Rows(FixTimes(b.act)), hw |-> b.hw, over |-> b.over, stale |-> b.stale]

----------------------------------------------------------------------------
\* what a caller sees: findTransition(epochSeconds) on the table of the UTC year of the instant
Val(r) == <<60 * (r.off + r.delta), IF r.delta # 0 THEN 1 ELSE 0, r.abbrev>>
NoRow == <<0, 0, "<none>">>
\* the pieces (maximal runs) that year `y` contributes, given the value `cur` the previous year ended with
RECURSIVE YearRec(_, _, _, _, _, _)
YearRec(rows, k, lo, hi, cur, out) ==
  IF k > Len(rows) THEN <<out, cur>>
  ELSE LET r == rows[k] IN
       IF Le(r.start, lo) \/ ~Lt(r.start, hi) \/ Val(r) = cur THEN YearRec(rows, k + 1, lo, hi, cur, out)
       ELSE YearRec(rows, k + 1, lo, hi, Val(r), Append(out, <<r.start[1], r.start[2]>> \o Val(r)))
YearPieces(tab, y, cur, first) ==
  LET lo == <<Days(y, 1, 1), 0>>
      hi == <<Days(y + 1, 1, 1), 0>>
      B == {k \in 1..Len(tab.rows) : Le(tab.rows[k].start, lo)}
      v0 == IF B = {} THEN NoRow ELSE Val(tab.rows[CHOOSE k \in B : \A j \in B : j <= k])
      out0 == IF first \/ v0 # cur THEN <<(<<lo[1], 0>> \o v0)>> ELSE <<>>
  IN YearRec(tab.rows, 1, lo, hi, v0, out0)

----------------------------------------------------------------------------
\* ExtendedZoneProcessor::getOffsetDateTime(ldt): a local date-time w (read as <<day, second of day>> on the local clock)
\* is resolved on the table of the *local* year: findTransitionForDateTime picks the row before the first one whose
\* startDateTime is after the local minute; the instant obtained with that row's offset is then looked up with
\* findTransition in the same table and re-expressed with the offset found there (normalisation).
\* Result: <<shift, offset>> (instant = w + shift) or Err.
Err == <<"err">>
LocalTuple(w) == LET c == Civil(w[1]) IN DT(c[1], c[2], c[3], w[2] \div 60, "w")
FirstAfter(S) == IF S = {} THEN 0 ELSE CHOOSE k \in S : \A j \in S : k <= j
FindLocal(rows, l) == LET f == FirstAfter({k \in 1..Len(rows) : DLt(l, rows[k].sdt)}) IN IF f = 0 THEN Len(rows) ELSE f - 1
FindInstant(rows, t) == LET f == FirstAfter({k \in 1..Len(rows) : Lt(t, rows[k].start)}) IN IF f = 0 THEN Len(rows) ELSE f - 1
Total(r) == 60 * (r.off + r.delta)
Resolve(t, w) ==
  IF ~t.filled THEN Err
  ELSE LET k == FindLocal(t.rows, LocalTuple(w)) IN
       IF k = 0 THEN Err
       ELSE LET j == FindInstant(t.rows, AddS(w, 0 - Total(t.rows[k]))) IN
            IF j = 0 THEN Err ELSE <<0 - Total(t.rows[k]), Total(t.rows[j])>>
\* wall times at which Resolve(t, _) can change its value
WallOf(d) == <<Days(d.y, d.m, d.d), 60 * d.mi>>
WallBreaksOf(t) == {WallOf(t.rows[k].sdt) : k \in 1..Len(t.rows)}
                   \cup {AddS(t.rows[j].start, Total(t.rows[k])) : j \in 1..Len(t.rows), k \in 1..Len(t.rows)}

----------------------------------------------------------------------------
\* One behaviour per zone: the tables of the years Y0..Y1 are built one after the other.
VARIABLES z, y, tab, pieces, cur
vars == <<z, y, tab, pieces, cur>>
Z == Zones[z]
Init == z \in 1..NZ /\ y = Y0 - 1 /\ tab = Table(Zones[z], Y0 - 1) /\ pieces = <<>> /\ cur = NoRow
InitYear == /\ y < YLast
            /\ y' = y + 1
            /\ LET t == Table(Z, y + 1)
                   yp == IF y + 1 <= Y1 THEN YearPieces(t, y + 1, cur, y + 1 = Y0) ELSE <<<<>>, cur>>
               IN tab' = t /\ pieces' = pieces \o yp[1] /\ cur' = yp[2]
            /\ UNCHANGED z
Next == InitYear
Spec == Init /\ [][Next]_vars

\* ---- properties of every table (design level)
Sorted == \A k \in 1..(Len(tab.rows) - 1) : Lt(tab.rows[k].start, tab.rows[k + 1].start)
\* every year the processor accepts (startYear - 1 .. untilYear) has a transition in force from its first instant on: the
\* compiler's anchor rules exist for exactly this
Covered == tab.filled => (tab.rows # <<>> /\ Le(tab.rows[1].start, <<Days(y, 1, 1), 0>>))
NoOverflow == ~tab.over /\ tab.hw < Capacity
WithinRecordedSize == tab.hw < Z.bufSize
NoStaleFlag == ~tab.stale
=============================================================================
