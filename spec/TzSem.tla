------------------------------- MODULE TzSem -------------------------------
(***************************************************************************)
(* Meaning of TZ-database Zone / Rule lines as a walk through time.        *)
(*                                                                         *)
(* This is the semantics the IANA reference compiler (zic) gives a source: *)
(*   1. generation (zic `outzone`): per era, the running SAVE restarts at  *)
(*      0, the rules of the era's policy are replayed year by year, each   *)
(*      pending rule's nominal local time is converted with the *running*  *)
(*      STDOFF/SAVE according to its w/s/u suffix, the earliest fires;     *)
(*      the era's start transition is emitted when the era ends;           *)
(*   2. merging (zic `writezone`): a transition whose local time under the *)
(*      preceding type does not advance past the previous transition's     *)
(*      local time under the type before that is folded into the previous. *)
(* One zone = one behaviour; Next is deterministic; all zones of the model *)
(* are explored in one TLC run as independent initial states.              *)
(*                                                                         *)
(* TLC integers are 32 bit: an instant is <<day, secondOfDay>> with day 0  *)
(* = 2000-01-01 (UTC).                                                     *)
(*                                                                         *)
(* Binding to the implementation (DESIGN.md P3): the run-length traces     *)
(* recorded from dense sweeps of the real code (Obs.impl) and from zic's   *)
(* own output (Obs.zic) are loaded through IOEnv and judged by Conforms    *)
(* in the state where a zone's walk completes.                             *)
(***************************************************************************)
EXTENDS Integers, Sequences, FiniteSets, TLC, Json, IOUtils

Model == JsonDeserialize(IOEnv.TZ_MODEL)
ZonesSeq == Model.zones
Pol == Model.policies
NZ == Len(ZonesSeq)
YMAX == Model.ymax                 \* last year whose rules are replayed
TMIN == <<Model.tmin, 0>>          \* transitions before this are only remembered (two latest)
WinLo == <<Model.winlo, 0>>        \* observation window [WinLo, WinHi)
WinHi == <<Model.winhi, 0>>

IsLeap(y) == (y % 4 = 0 /\ y % 100 # 0) \/ y % 400 = 0
DIM(y, m) == IF m = 2 THEN (IF IsLeap(y) THEN 29 ELSE 28) ELSE IF m \in {4, 6, 9, 11} THEN 30 ELSE 31
\* days from 2000-01-01 of the proleptic Gregorian date (y0, m, d)
Days(y0, m, d) == LET y == IF m <= 2 THEN y0 - 1 ELSE y0
                      era == y \div 400
                      yoe == y - era * 400
                      mp == (m + 9) % 12
                      doy == (153 * mp + 2) \div 5 + d - 1
                      doe == yoe * 365 + yoe \div 4 - yoe \div 100 + doy
                  IN era * 146097 + doe - 719468 - 10957
Dow(n) == ((n + 5) % 7) + 1        \* ISO weekday: 1 = Monday ... 7 = Sunday; day 0 is a Saturday
\* ON expressions: "d" n | "last" dow | "ge" dow>=n | "le" dow<=n  (may spill into adjacent months)
Resolve(y, mon, k, dow, n) ==
  IF k = "d" THEN Days(y, mon, n)
  ELSE IF k = "last" THEN LET l == Days(y, mon, DIM(y, mon)) IN l - ((Dow(l) - dow + 7) % 7)
  ELSE IF k = "ge" THEN LET b == Days(y, mon, n) IN b + ((dow - Dow(b) + 7) % 7)
  ELSE LET b == Days(y, mon, n) IN b - ((Dow(b) - dow + 7) % 7)
Norm(d, s) == <<d + (s \div 86400), s % 86400>>
AddS(t, n) == Norm(t[1], t[2] + n)
Lt(a, b) == a[1] < b[1] \/ (a[1] = b[1] /\ a[2] < b[2])
Le(a, b) == ~Lt(b, a)
Pad2(n) == IF n < 10 THEN "0" \o ToString(n) ELSE ToString(n)
\* %z : +hh, +hhmm or +hhmmss
ZStr(off) == LET a == IF off < 0 THEN 0 - off ELSE off
                 h == a \div 3600
                 mi == (a % 3600) \div 60
                 s == a % 60
             IN (IF off < 0 THEN "-" ELSE "+") \o Pad2(h) \o (IF mi # 0 \/ s # 0 THEN Pad2(mi) ELSE "")
                    \o (IF s # 0 THEN Pad2(s) ELSE "")
\* FORMAT, pre-split by the exporter: A/B by isdst, %s by LETTER, %z by offset, plain
Abbr(f, letter, isdst, off) ==
   CASE f.k = "slash" -> (IF isdst THEN f.b ELSE f.a)
     [] f.k = "pcts" -> f.a \o letter \o f.b
     [] f.k = "pctz" -> f.a \o ZStr(off) \o f.b
     [] OTHER -> f.a

VARIABLES z,          \* index of the zone being walked
          i,          \* index of the current era
          year,       \* year whose rules are being replayed
          todo,       \* indices of this year's rules that have not fired yet
          save,       \* running SAVE
          startoff,   \* total offset in force at the era's start
          sb, hasSb,  \* abbreviation for the era's start transition (if determined)
          usestart,   \* a separate start transition is still owed for this era
          starttime,  \* UT instant at which the current era starts
          tt,         \* transitions emitted so far (at or after TMIN)
          pre,        \* the two latest transitions before TMIN
          def, hasDef,\* the zone's initial type
          phase
vars == <<z, i, year, todo, save, startoff, sb, hasSb, usestart, starttime, tt, pre, def, hasDef, phase>>

Eras == ZonesSeq[z].eras
E == Eras[i]
R == Pol[E.rn]
UntilRaw == <<Resolve(E.uy, E.um, E.uk, E.udow, E.un), E.uat>>
UOffStd == IF E.usuf = "u" THEN 0 ELSE E.off
\* UT instant of rule r in year y, given the running save sv
JTime(r, y, sv) == LET off == (IF r.suf = "u" THEN 0 ELSE E.off) + (IF r.suf = "w" THEN sv ELSE 0)
                   IN Norm(Resolve(y, r.mon, r.k, r.dow, r.n), r.at - off)
Top2(S) == IF Cardinality(S) <= 2 THEN S ELSE S \ {CHOOSE m \in S : \A x \in S : Le(m[1], x[1])}
\* an emission e = <<time, utoff, isdst, abbr>>
EmitInto(e) == IF Le(TMIN, e[1]) THEN tt' = Append(tt, e) /\ pre' = pre
               ELSE tt' = tt /\ pre' = Top2(pre \cup {e})
NoEmit == tt' = tt /\ pre' = pre
MinYear == LET ys == {R[k].fr : k \in 1..Len(R)} IN CHOOSE m \in ys : \A y \in ys : m <= y

Init == /\ z \in 1..NZ /\ i = 1 /\ year = 0 /\ todo = {} /\ save = 0 /\ startoff = 0 /\ sb = "" /\ hasSb = FALSE
        /\ usestart = FALSE /\ starttime = <<0, 0>> /\ tt = <<>> /\ pre = {} /\ def = <<0, FALSE, "">>
        /\ hasDef = FALSE /\ phase = "era"

\* an era begins: fixed-save eras emit one transition; rule eras start replaying
EraStep == /\ phase = "era"
           /\ IF E.rk # "named" THEN
                LET sv == E.rv
                    isd == sv # 0
                    typ == <<E.off + sv, isd, Abbr(E.fmt, "", isd, E.off + sv)>>
                IN /\ (IF i > 1 THEN EmitInto(<<starttime>> \o typ) ELSE NoEmit)
                   /\ def' = (IF i = 1 THEN typ ELSE def) /\ hasDef' = (hasDef \/ i = 1)
                   /\ save' = sv /\ usestart' = FALSE /\ phase' = "eraend"
                   /\ UNCHANGED <<z, i, year, todo, startoff, sb, hasSb, starttime>>
              ELSE /\ year' = MinYear /\ save' = 0 /\ startoff' = E.off /\ hasSb' = FALSE /\ sb' = ""
                   /\ usestart' = (i > 1) /\ phase' = "year" /\ todo' = {}
                   /\ UNCHANGED <<z, i, starttime, tt, pre, def, hasDef>>

\* collect the rules in force in `year`
YearStep == /\ phase = "year"
            /\ IF (E.hasu /\ year > E.uy) \/ year > YMAX
               THEN phase' = "eraend" /\ UNCHANGED <<z, i, year, todo, save, startoff, sb, hasSb, usestart, starttime, tt, pre, def, hasDef>>
               ELSE /\ todo' = {k \in 1..Len(R) : R[k].fr <= year /\ year <= R[k].to}
                    /\ phase' = "pick"
                    /\ UNCHANGED <<z, i, year, save, startoff, sb, hasSb, usestart, starttime, tt, pre, def, hasDef>>

\* the earliest pending rule fires (or ends the era, or only shapes the era start)
PickStep == /\ phase = "pick"
            /\ IF todo = {} THEN year' = year + 1 /\ phase' = "year"
                    /\ UNCHANGED <<z, i, todo, save, startoff, sb, hasSb, usestart, starttime, tt, pre, def, hasDef>>
               ELSE LET k == CHOOSE kk \in todo : \A j \in todo : Le(JTime(R[kk], year, save), JTime(R[j], year, save))
                        r == R[k]
                        kt == JTime(r, year, save)
                        ur == UntilRaw
                        ut == Norm(ur[1], ur[2] - UOffStd - (IF E.usuf = "w" THEN save ELSE 0))
                        risd == r.save # 0
                        roff == E.off + r.save
                        rab == Abbr(E.fmt, r.letter, risd, roff)
                    IN IF E.hasu /\ Le(ut, kt)
                       THEN \* PastUntil
                            /\ (IF ~hasSb /\ roff = startoff THEN sb' = rab /\ hasSb' = TRUE ELSE sb' = sb /\ hasSb' = hasSb)
                            /\ phase' = "eraend" /\ todo' = {}
                            /\ UNCHANGED <<z, i, year, save, startoff, usestart, starttime, tt, pre, def, hasDef>>
                       ELSE /\ save' = r.save /\ todo' = todo \ {k} /\ phase' = "pick"
                            /\ IF usestart /\ Lt(kt, starttime)
                               THEN \* BeforeStart
                                    /\ startoff' = roff /\ sb' = rab /\ hasSb' = TRUE /\ NoEmit
                                    /\ UNCHANGED <<z, i, year, usestart, starttime, def, hasDef>>
                               ELSE \* AtStart / Fire
                                    /\ usestart' = (usestart /\ kt # starttime)
                                    /\ (IF usestart /\ kt # starttime /\ ~hasSb /\ startoff = roff
                                        THEN sb' = rab /\ hasSb' = TRUE ELSE sb' = sb /\ hasSb' = hasSb)
                                    /\ EmitInto(<<kt, roff, risd, rab>>)
                                    /\ (IF ~hasDef /\ ~risd THEN def' = <<roff, risd, rab>> /\ hasDef' = TRUE ELSE def' = def /\ hasDef' = hasDef)
                                    /\ UNCHANGED <<z, i, year, startoff, starttime>>

\* the era ends: emit the owed start transition, compute the next era's start
EraEndStep == /\ phase = "eraend"
              /\ LET isd == startoff # E.off
                     ab == IF hasSb THEN sb ELSE Abbr(E.fmt, "", isd, startoff)
                 IN IF usestart
                    THEN /\ EmitInto(<<starttime, startoff, isd, ab>>)
                         /\ (IF ~hasDef /\ ~isd THEN def' = <<startoff, isd, ab>> /\ hasDef' = TRUE ELSE def' = def /\ hasDef' = hasDef)
                    ELSE NoEmit /\ def' = def /\ hasDef' = hasDef
              /\ IF E.hasu
                 THEN LET ur == UntilRaw IN
                      /\ starttime' = Norm(ur[1], ur[2] - (IF E.usuf = "w" THEN save ELSE 0) - UOffStd)
                      /\ i' = i + 1 /\ phase' = "era"
                 ELSE starttime' = starttime /\ i' = i /\ phase' = "done"
              /\ UNCHANGED <<z, year, todo, save, startoff, sb, hasSb, usestart>>

Next == EraStep \/ YearStep \/ PickStep \/ EraEndStep
Spec == Init /\ [][Next]_vars

----------------------------------------------------------------------------
\* Final stage: sort, merge (writezone), restrict to the window as maximal runs
SetToSeq(S) == IF S = {} THEN <<>> ELSE LET RECURSIVE F(_)
                                        F(T) == IF T = {} THEN <<>> ELSE LET m == CHOOSE x \in T : \A y \in T : Le(x[1], y[1]) IN <<m>> \o F(T \ {m})
                                    IN F(S)
All == SortSeq(SetToSeq(pre) \o tt, LAMBDA a, b : Lt(a[1], b[1]))
RECURSIVE MergeRec(_, _, _)
MergeRec(s, k, out) ==
  IF k > Len(s) THEN out ELSE
  LET e == s[k] IN
  IF Len(out) > 0 THEN
     LET p == out[Len(out)]
         bp == IF Len(out) >= 2 THEN out[Len(out) - 1][2] ELSE def[1]
     IN IF Le(AddS(e[1], p[2]), AddS(p[1], bp))
        THEN MergeRec(s, k + 1, [out EXCEPT ![Len(out)] = <<p[1], e[2], e[3], e[4]>>])
        ELSE MergeRec(s, k + 1, Append(out, e))
  ELSE MergeRec(s, k + 1, Append(out, e))
Merged == MergeRec(All, 1, <<>>)
RECURSIVE PiecesRec(_, _, _)
PiecesRec(s, k, out) ==
  IF k > Len(s) THEN out ELSE
  LET e == s[k]
      typ == <<e[2], e[3], e[4]>>
      last == out[Len(out)]
  IN IF Le(e[1], WinLo) THEN PiecesRec(s, k + 1, <<<<WinLo[1], 0, typ[1], typ[2], typ[3]>>>>)
     ELSE IF Lt(e[1], WinHi) /\ <<last[3], last[4], last[5]>> # typ THEN PiecesRec(s, k + 1, Append(out, <<e[1][1], e[1][2], typ[1], typ[2], typ[3]>>))
     ELSE PiecesRec(s, k + 1, out)
\* <<day, sec, utoff, isdst, abbr>> : observation from that instant until the next piece
Pieces == PiecesRec(Merged, 1, <<<<WinLo[1], 0, def[1], def[2], def[3]>>>>)
\* the same without the writezone merge: every generated transition takes effect at its own instant
PiecesUnmerged == PiecesRec(All, 1, <<<<WinLo[1], 0, def[1], def[2], def[3]>>>>)

----------------------------------------------------------------------------
\* Model-level sanity, checked in every state of every zone's walk
TypeOK == /\ phase \in {"era", "year", "pick", "eraend", "done"}
          /\ i \in 1..Len(Eras)
          /\ \A k \in 1..Len(tt) : tt[k][2] \in -57600..57600       \* |utoff| <= 16 h
          /\ \A k \in 1..Len(tt) : tt[k][1][2] \in 0..86399
DoneSane == phase = "done" =>
              LET P == Pieces IN
              /\ \A k \in 1..(Len(P) - 1) : Lt(<<P[k][1], P[k][2]>>, <<P[k + 1][1], P[k + 1][2]>>)   \* strictly increasing
              /\ \A k \in 1..(Len(P) - 1) : <<P[k][3], P[k][4], P[k][5]>> # <<P[k + 1][3], P[k + 1][4], P[k + 1][5]>>  \* maximal runs
              /\ \A k \in 1..Len(P) : P[k][5] # ""

----------------------------------------------------------------------------
\* Conformance: observed run-length traces, keyed by zone name.
\*   Obs.impl[name] : recorded from the implementation under test
\*   Obs.zic[name]  : recorded from zic/zdump on the same source lines
\* Each is a sequence of <<day, sec, utoff, isdst(0/1), abbr>>.
Obs == JsonDeserialize(IOEnv.TZ_OBS)
B2I(b) == IF b THEN 1 ELSE 0
ToJ(P) == [k \in 1..Len(P) |-> <<P[k][1], P[k][2], P[k][3], B2I(P[k][4]), P[k][5]>>]
PiecesJ == LET P == Pieces IN ToJ(P)
AsTuple(s) == [k \in 1..Len(s) |-> <<s[k][1], s[k][2], s[k][3], s[k][4], s[k][5]>>]
FirstDiff(a, b) == LET n == IF Len(a) < Len(b) THEN Len(a) ELSE Len(b)
                       D == {k \in 1..n : a[k] # b[k]}
                   IN IF D = {} THEN n + 1 ELSE CHOOSE k \in D : \A j \in D : k <= j
\* p: the spec's pieces (already evaluated once by the caller)
Verdict(which, name, p) ==
   LET o == AsTuple(which[name])
   IN IF o = p THEN [ok |-> TRUE, at |-> 0, spec |-> <<>>, obs |-> <<>>]
      ELSE LET k == FirstDiff(p, o)
           IN [ok |-> FALSE, at |-> k,
               spec |-> (IF k <= Len(p) THEN p[k] ELSE <<>>),
               obs |-> (IF k <= Len(o) THEN o[k] ELSE <<>>)]
Has(which, name) == name \in DOMAIN which
NoVerdict == [ok |-> TRUE, at |-> -1, spec |-> <<>>, obs |-> <<>>]
Conforms == phase = "done" =>
   LET name == ZonesSeq[z].name
       pj == PiecesJ
       iv == IF Has(Obs.impl, name) THEN Verdict(Obs.impl, name, pj) ELSE NoVerdict
   IN PrintT(ToJson([zone |-> name, pieces |-> pj, nstates |-> TLCGet("level"),
                     impl |-> iv,
                     \* a rejected implementation trace that equals the semantics *without* the merge step differs from zic
                     \* exactly by not folding transitions (classification only; the verdict is `impl`)
                     implUnmerged |-> (IF iv.ok THEN TRUE ELSE AsTuple(Obs.impl[name]) = ToJ(PiecesUnmerged)),
                     zic  |-> (IF Has(Obs.zic, name) THEN Verdict(Obs.zic, name, pj) ELSE NoVerdict)]))
\* Export only (no observations): print the pieces of every zone
PrintDone == phase = "done" => PrintT(ToJson([zone |-> ZonesSeq[z].name, pieces |-> PiecesJ]))

SetToSeq2(S) == LET RECURSIVE F(_)
                    F(T) == IF T = {} THEN <<>> ELSE LET m == CHOOSE x \in T : TRUE IN <<m>> \o F(T \ {m})
                IN F(S)

----------------------------------------------------------------------------
\* Local (wall-clock) time resolution -- property C07.
\* A wall time w is a pair <<day, sec>> counted like instants but read on the
\* local clock.  Piece k of P is in force for instants [T(k), T(k+1)) and hence
\* shows wall times [T(k)+Off(k), T(k+1)+Off(k)).
\*   w shown by exactly one piece : that occurrence;
\*   w shown by several pieces    : "later" = the last of them, "either" = any;
\*   w shown by none (gap)        : resolved with the offset in force before the
\*                                  gap, i.e. the wall time moved forward.
\* A resolution is <<shift, off>>: result instant = w + shift, reported offset = off.
NegInf == <<-1000000, 0>>
PosInf == <<1000000, 0>>
PT(P, k) == <<P[k][1], P[k][2]>>
WStart(P, k) == IF k = 1 THEN NegInf ELSE AddS(PT(P, k), P[k][3])
WEnd(P, k) == IF k = Len(P) THEN PosInf ELSE AddS(PT(P, k + 1), P[k][3])
Cands(P, w) == {k \in 1..Len(P) : Le(WStart(P, k), w) /\ Lt(w, WEnd(P, k))}
MaxOf(S) == CHOOSE m \in S : \A x \in S : x <= m
OffAt(P, t) == P[MaxOf({k \in 1..Len(P) : k = 1 \/ Le(PT(P, k), t)})][3]
Allowed(P, w, policy) ==
   LET C == Cands(P, w) IN
   IF C # {} THEN (IF policy = "later" THEN {<<0 - P[MaxOf(C)][3], P[MaxOf(C)][3]>>}
                   ELSE {<<0 - P[k][3], P[k][3]>> : k \in C})
   ELSE LET G == {k \in 1..(Len(P) - 1) : Le(WEnd(P, k), w) /\ Lt(w, WStart(P, k + 1))}
        IN IF G = {} THEN {}
           ELSE LET g == MaxOf(G) IN {<<0 - P[g][3], OffAt(P, AddS(w, 0 - P[g][3]))>>}
\* model-level: resolution is total and normalised at every breakpoint of every zone
WallBreaks(P) == {WStart(P, k) : k \in 2..Len(P)} \cup {WEnd(P, k) : k \in 1..(Len(P) - 1)}
ResolveSane == phase = "done" =>
   LET P == Pieces IN
   \A w \in WallBreaks(P) : \A pol \in {"later", "either"} :
      LET A == Allowed(P, w, pol) IN
      /\ A # {}
      /\ \A r \in A : OffAt(P, AddS(w, r[1])) = r[2]          \* normalised: the reported offset is the one in force at the result

\* Conformance of recorded resolutions.  WallObs[name] is a sequence of windows
\* [w0, w1, pieces]: pieces = <<day, sec, shift, off, err>> run-length encoded
\* results of the real forComponents() for every wall minute of [w0, w1).
WallObs == JsonDeserialize(IOEnv.TZ_WALL)
WallPolicy == IOEnv.TZ_POLICY
\* "raw": the recorded offset is the one *selected* for the wall time (before normalisation), so only the
\* instant (shift) is judged; "norm": the normalised <<shift, offset>> of ZonedDateTime::forComponents
WallRaw == IOEnv.TZ_WALLMODE = "raw"
\* points at which a piece [a, b) with constant value must be checked: its start and every breakpoint inside
CheckPoints(P, a, b) == {a} \cup {w \in WallBreaks(P) : Lt(a, w) /\ Lt(w, b)}
WindowBad(P, win) ==
   LET ps == win.pieces
       n == Len(ps)
   IN {<<j, w>> \in UNION {{<<j, w>> : w \in CheckPoints(P, <<ps[j][1], ps[j][2]>>,
                                        IF j < n THEN <<ps[j + 1][1], ps[j + 1][2]>> ELSE <<win.w1[1], win.w1[2]>>)} : j \in 1..n} :
          \/ ps[j][5] # 0
          \/ (IF WallRaw THEN ps[j][3] \notin {a[1] : a \in Allowed(P, w, WallPolicy)}
                         ELSE <<ps[j][3], ps[j][4]>> \notin Allowed(P, w, WallPolicy))}
WallConforms == phase = "done" =>
   LET name == ZonesSeq[z].name
       P == Pieces
   IN IF name \notin DOMAIN WallObs THEN TRUE
      ELSE LET W == WallObs[name]
               bad == {wi \in 1..Len(W) : WindowBad(P, W[wi]) # {}}
           IN PrintT(ToJson([wzone |-> name, nwin |-> Len(W), nbad |-> Cardinality(bad),
                             first |-> (IF bad = {} THEN <<>>
                                        ELSE LET wi == CHOOSE x \in bad : \A y \in bad : x <= y
                                                 b == CHOOSE x \in WindowBad(P, W[wi]) : TRUE
                                             IN <<wi, b[1], b[2][1], b[2][2],
                                                  W[wi].pieces[b[1]][3], W[wi].pieces[b[1]][4], W[wi].pieces[b[1]][5]>>),
                             want |-> (IF bad = {} THEN <<>>
                                       ELSE LET wi == CHOOSE x \in bad : \A y \in bad : x <= y
                                                b == CHOOSE x \in WindowBad(P, W[wi]) : TRUE
                                            IN SetToSeq2(Allowed(P, b[2], WallPolicy)))]))
=============================================================================
