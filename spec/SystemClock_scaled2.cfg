SPECIFICATION Spec
CONSTANTS W = 16
 S = 3
 Phases = {0,1,2,3,4,5,6,7,8,9,10,11,12,13,14,15}
 Gaps = {1,2,3,4,5,6,7,8,9,10,11,12,13,14,16,17}
 Values = {100,101}
 MaxDepth = 5
 ResyncStale = FALSE
INVARIANT TypeOK
INVARIANT ExactTime
INVARIANT SentinelBeforeSet
INVARIANT RemainderSmall
PROPERTY SetInvalidIgnored
PROPERTY Monotone
PROPERTY BackupLaw
CHECK_DEADLOCK FALSE
