SPECIFICATION Spec
CONSTANTS DayStep = 97
 DumpOn = TRUE
INVARIANT RoundTrip
INVARIANT FieldsValid
INVARIANT ConvertPreserves
INVARIANT UnixOffset
INVARIANT OrderIsInstantOrder
INVARIANT Dump
CHECK_DEADLOCK FALSE
