SPECIFICATION Spec
INVARIANT Anchor
INVARIANT InductionStep
INVARIANT ClosedFormsAgree
INVARIANT MutationsAgree
INVARIANT Dump
CHECK_DEADLOCK FALSE
