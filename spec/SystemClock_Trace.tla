-------------------------- MODULE SystemClock_Trace --------------------------
(* Trace validation for SystemClock (P2): schedules recorded from the real   *)
(* class (injected clockMillis) are replayed through the specification's     *)
(* actions; after every operation the logged code state (mEpochSeconds,      *)
(* mPrevMillis, mIsInit, mLastSyncTime, backup writes) and the logged reading *)
(* must equal the model's, and ExactTime etc. are evaluated along the way.    *)
EXTENDS SystemClock, Sequences, IOUtils

Traces == JsonDeserialize(IOEnv.SC_TRACES)
VARIABLES tid, l, bad
tvars == <<vars, tid, l, bad>>
Ev == Traces[tid].events[l]
Val(x) == x       \* the recorder writes the sentinel as the model's Invalid (-1000000)
Matches(e) == /\ epoch' = Val(e.epoch) /\ prev' = e.prev /\ isInit' = (e.init = 1) /\ lastSync' = Val(e.last)
              /\ backupWrites' = e.bw /\ backupVal' = Val(e.bv)
              /\ (e.op = "get" => reading' = Val(e.reading))
Step(e) == CASE e.op = "adv" -> Advance(e.arg)
             [] e.op = "get" -> GetNow
             [] e.op = "keep" -> KeepAlive
             [] e.op = "set" -> SetNow(Val(e.arg))
TInit == /\ tid \in 1..Len(Traces) /\ l = 1 /\ bad = 0
         /\ msLow = Traces[tid].phase /\ epoch = Invalid /\ prev = 0 /\ isInit = FALSE /\ lastSync = Invalid
         /\ backupWrites = 0 /\ backupVal = Invalid
         /\ T = Invalid /\ el = 0 /\ sinceOp = 0 /\ gapOk = TRUE /\ op = <<"init", 0>> /\ reading = Invalid /\ lastRead = Invalid /\ depth = 0
TNext == /\ bad = 0 /\ l <= Len(Traces[tid].events)
         /\ \/ (Step(Ev) /\ Matches(Ev) /\ l' = l + 1 /\ UNCHANGED <<tid, bad>>)
            \/ (~ENABLED (Step(Ev) /\ Matches(Ev)) /\ bad' = l /\ UNCHANGED <<vars, tid, l>>)
TSpec == TInit /\ [][TNext]_tvars
Verdict == (bad # 0 \/ l = Len(Traces[tid].events) + 1) =>
   PrintT(ToJson([trace |-> Traces[tid].id, accepted |-> (bad = 0), at |-> bad, len |-> Len(Traces[tid].events),
                  model |-> <<epoch, prev, isInit, lastSync, backupWrites, reading>>]))
=============================================================================
