SPECIFICATION Spec
CONSTANTS YearLo = 1873
 YearHi = 2126
 YearStep = 11
 DumpOn = TRUE
INVARIANT DefIsRight
INVARIANT AdmittedAgree
INVARIANT SpillRejected
INVARIANT Dump
CHECK_DEADLOCK FALSE
