------------------------------ MODULE ZoneProc ------------------------------
(***************************************************************************)
(* The zone-processor cache as a state machine (properties C08, C09-i).    *)
(*                                                                         *)
(* A ZoneProcessor holds: the zone it is bound to, the year its transition *)
(* table was (last) keyed for, a `filled` flag, and the table itself --    *)
(* abstracted to `content`, the <<zone, year>> it was computed for (or     *)
(* Empty).  TimeZone values ("handles") are either direct (bound to one    *)
(* explicitly given processor, which several handles may share) or managed *)
(* (they obtain a processor from a round-robin cache of K slots).          *)
(*                                                                         *)
(* Every public call is decomposed as the code is:                         *)
(*     [rebind]  ->  isFilled test  ->  set year, clear  ->  range check   *)
(*               ->  fill, set filled  ->  lookup                          *)
(* Which direct calls rebind (RebindOps) and whether a failed fill clears  *)
(* `filled` (ClearsFilled) are parameters, so that the same module states  *)
(* the code as it was found (AsRead: refuted by TLC) and as it is intended *)
(* and now implemented (Intended: the configuration the checks run).       *)
(*                                                                         *)
(* Answers are abstract: a query answers <<"ans", zone, year>> -- "what a  *)
(* table computed for (zone, year) says" -- so the oracle of a call on a   *)
(* handle for zone z is <<"ans", z, year>>, i.e. what a freshly built time *)
(* zone with its own processor answers.                                    *)
(***************************************************************************)
EXTENDS Integers, Sequences, FiniteSets, TLC, Json

CONSTANTS Zones,        \* zone names (strings)
          Years,        \* years that calls may ask about (integers)
          OutOfRange,   \* subset of Years outside the zone data
          NDirect,      \* number of directly shared processors (0..)
          K,            \* cache slots for managed handles (0 = no manager)
          RebindOps,    \* ops through which a direct handle rebinds its processor
          ClearsFilled  \* a failed init() resets the filled flag

QueryOps == {"utc", "delta", "abbrev", "odt"}
PrintOps == {"print", "printshort"}
Ops == QueryOps \cup PrintOps
DerefOps == {"delta", "abbrev"}      \* dereference the found transition without a null test (extended)
NoZone == "-"
NoYear == 0
Empty == <<NoZone, NoYear>>

\* processors 1..NDirect are direct, NDirect+1..NDirect+K are the cache slots
ProcIds == 1..(NDirect + K)
SlotIds == (NDirect + 1)..(NDirect + K)
Handles == [kind : {"direct"}, zone : Zones, proc : 1..NDirect] \cup [kind : {"managed"}, zone : Zones, proc : {0}]

VARIABLES procs,   \* [ProcIds -> [bound, year, filled, content]]
          rr,      \* round-robin index into the slots (0-based)
          last     \* the call that led here (for replay; hidden by VIEW, no property reads it)
vars == <<procs, rr, last>>
View == <<procs, rr>>

FreshProc == [bound |-> NoZone, year |-> NoYear, filled |-> FALSE, content |-> Empty]
Init == /\ procs = [p \in ProcIds |-> FreshProc]
        /\ rr = 0
        /\ last = [h |-> [kind |-> "none", zone |-> NoZone, proc |-> 0], op |-> "init", year |-> NoYear, answer |-> <<"init", NoZone, NoYear>>, used |-> 0]

\* setZoneInfo(z): a no-op when already bound to z, else reset
Rebound(pr, zn) == IF pr.bound = zn THEN pr ELSE [bound |-> zn, year |-> NoYear, filled |-> FALSE, content |-> Empty]

\* init(year) on a processor record; result <<record', success>>
InitYear(pr, y) ==
   IF pr.filled /\ pr.year = y THEN <<pr, TRUE>>
   ELSE IF y \in OutOfRange
        THEN <<[pr EXCEPT !.year = y, !.content = Empty, !.filled = (IF ClearsFilled THEN FALSE ELSE pr.filled)], FALSE>>
        ELSE <<[pr EXCEPT !.year = y, !.content = <<pr.bound, y>>, !.filled = TRUE], TRUE>>

Err == <<"error", NoZone, NoYear>>
NullDeref == <<"NULLDEREF", NoZone, NoYear>>

\* the call proper, on the processor record it reaches: <<record', answer>>
OnProc(pr, op, y) ==
   IF op \in PrintOps
   THEN <<pr, IF pr.bound = NoZone THEN NullDeref ELSE <<"name", pr.bound, NoYear>>>>
   ELSE IF pr.bound = NoZone THEN <<pr, NullDeref>>        \* a query on a never-bound processor reads a null ZoneInfo
   ELSE LET r == InitYear(pr, y)
            q == r[1]
        IN <<q, IF ~r[2] THEN Err
                ELSE IF q.content = Empty THEN (IF op \in DerefOps THEN NullDeref ELSE Err)
                ELSE <<"ans", q.content[1], q.content[2]>>>>

\* which processor a handle reaches, and the state of processors / rr after the lookup
FoundSlots(zn) == {s \in SlotIds : procs[s].bound = zn}
MinOf(S) == CHOOSE m \in S : \A x \in S : m <= x
Reach(h, op) ==
   IF h.kind = "direct"
   THEN LET p == h.proc
            pr == IF op \in RebindOps THEN Rebound(procs[p], h.zone) ELSE procs[p]
        IN [p |-> p, pr |-> pr, rr |-> rr]
   ELSE IF FoundSlots(h.zone) # {}
        THEN LET p == MinOf(FoundSlots(h.zone)) IN [p |-> p, pr |-> procs[p], rr |-> rr]
        ELSE LET p == NDirect + 1 + rr IN [p |-> p, pr |-> Rebound(procs[p], h.zone), rr |-> (rr + 1) % K]

Answer(h, op, y) == OnProc(Reach(h, op).pr, op, y)[2]
Oracle(h, op, y) == IF op \in PrintOps THEN <<"name", h.zone, NoYear>>
                    ELSE IF y \in OutOfRange THEN Err ELSE <<"ans", h.zone, y>>

Call(h, op, y) ==
   LET r == Reach(h, op)
       o == OnProc(r.pr, op, y)
   IN /\ procs' = [procs EXCEPT ![r.p] = o[1]]
      /\ rr' = r.rr
      /\ last' = [h |-> h, op |-> op, year |-> y, answer |-> o[2], used |-> r.p]

CallArgs == {<<h, op, y>> \in Handles \X Ops \X Years : (op \in PrintOps => y = MinOf(Years)) /\ (h.kind = "managed" => K > 0)}
Next == \E c \in CallArgs : Call(c[1], c[2], c[3])
Spec == Init /\ [][Next]_vars

----------------------------------------------------------------------------
\* Properties: state invariants quantified over every call enabled in the state
TypeOK == /\ rr \in 0..(IF K = 0 THEN 0 ELSE K - 1)
          /\ \A p \in ProcIds : /\ procs[p].bound \in Zones \cup {NoZone}
                                /\ procs[p].year \in Years \cup {NoYear}
                                /\ procs[p].filled \in BOOLEAN
\* C08: the answer depends only on the zone and the argument
HistoryIndependent == \A c \in CallArgs : Answer(c[1], c[2], c[3]) = Oracle(c[1], c[2], c[3])
\* C09-i: no lookup dereferences a missing transition / zone; out-of-range calls answer an error, every time
NoNullDeref == \A c \in CallArgs : Answer(c[1], c[2], c[3]) # NullDeref
ErrorsRepeat == \A c \in CallArgs : (c[2] \in QueryOps /\ c[3] \in OutOfRange) => Answer(c[1], c[2], c[3]) = Err
\* the table a processor holds is always the one for its bound zone and cached year
ContentCoherent == \A p \in ProcIds : procs[p].filled => procs[p].content = <<procs[p].bound, procs[p].year>>
\* a zone bound to some slot is found there: at most one slot per zone
OneSlotPerZone == \A s1, s2 \in SlotIds : (procs[s1].bound = procs[s2].bound /\ procs[s1].bound # NoZone) => s1 = s2

\* Edge dump for replay into the real code (P1): evaluated by TLC for every generated transition
DumpEdge == PrintT(ToJson([from |-> [procs |-> procs, rr |-> rr], call |-> last', to |-> [procs |-> procs', rr |-> rr']]))
=============================================================================
