--------------------------- MODULE SystemClockLoop ---------------------------
(***************************************************************************)
(* SystemClockLoop (property C14): the synchronisation state machine run   *)
(* from loop(), together with the embedded SystemClock and the reference   *)
(* and backup clocks.                                                      *)
(*                                                                         *)
(* One step = "the environment lets d milliseconds pass and puts the       *)
(* reference clock into some state (ready or not, valid or invalid value), *)
(* then loop() runs once" -- the schedule the property calls polling.      *)
(* Time moves on a lattice (Steps) to keep the exhaustive model finite.    *)
(*                                                                         *)
(* loop() is transcribed branch by branch: keepAlive(); return if there is *)
(* no reference clock; switch on the request status.                       *)
(***************************************************************************)
EXTENDS Integers, TLC, FiniteSets, Json

CONSTANTS Sync,       \* syncPeriodSeconds
          Initial,    \* initialSyncPeriodSeconds
          Timeout,    \* requestTimeoutMillis
          Steps,      \* possible times between consecutive loop() calls (ms)
          TMax,       \* horizon (ms)
          Mode,       \* "distinct" (backup # reference) | "same" (backup = reference) | "none" (no reference clock)
          Preset,     \* value given to setNow() before the first loop() call (PresetNone: the clock starts unset)
          ExtraRef    \* further absolute values the reference clock may report (e.g. {0}: the epoch itself)

Inv == -999999       \* stands for kInvalidSeconds
PresetNone == -999999
VARIABLES now,        \* millisecond counter
          status, cur, reqStart, lastSyncMs,          \* mRequestStatus, mCurrentSyncPeriodSeconds, mRequestStartMillis, mLastSyncMillis
          epoch, prev, isInit, lastSyncTime,          \* the embedded SystemClock
          refReady, refVal,                            \* the reference clock: response ready?, value it would return (Inv = invalid)
          backupVal, backupWrites,                     \* last value written to the backup clock, number of writes
          requests,                                    \* number of sendRequest() calls received by the reference clock
          lastReqAt, needGap,                          \* ghost: time of the last request, separation owed before the next one
          ev                                           \* what this loop() call did
vars == <<now, status, cur, reqStart, lastSyncMs, epoch, prev, isInit, lastSyncTime, refReady, refVal, backupVal, backupWrites, requests, lastReqAt, needGap, ev>>
MaxStep == CHOOSE m \in Steps : \A s \in Steps : s <= m

\* setNow(Preset) at time 0: syncNow() sets the clock and its last-sync time, and the value is passed on (to the backup
\* clock when it is not the reference clock, and to the reference clock itself: one write is seen on the observed clock)
Init == /\ now = 0 /\ status = "Ready" /\ cur = Initial /\ reqStart = 0 /\ lastSyncMs = 0
        /\ epoch = Preset /\ prev = 0 /\ isInit = (Preset # PresetNone) /\ lastSyncTime = Preset
        /\ refReady = FALSE /\ refVal = Inv /\ backupVal = Preset /\ backupWrites = (IF Preset # PresetNone THEN 1 ELSE 0) /\ requests = 0
        /\ lastReqAt = -1 /\ needGap = 0 /\ ev = "init"

\* the value a valid reference clock reports at time t (true time + 100 s), possibly skewed
RefValues(t) == {(t \div 1000) + 100, (t \div 1000) + 107, Inv} \cup ExtraRef

\* keepAlive(): getNow() at time t. The clock keeps only the low 16 bits of the millisecond counter: whole seconds of the
\* elapsed time *modulo 65536 ms* are folded in (exact as long as the clock is looked at every 65.535 s, the documented bound)
Ticks(t) == IF isInit THEN ((t - prev) % 65536) \div 1000 ELSE 0
\* syncNow(v) at time t, after keepAlive: returns <<epoch', prev', isInit', lastSyncTime', backupVal', backupWrites'>>
SyncNow(v, t, e1, p1) ==
   IF e1 = v THEN <<e1, p1, isInit, v, backupVal, backupWrites>>
   ELSE <<v, t, TRUE, v, IF Mode = "distinct" THEN v ELSE backupVal, IF Mode = "distinct" THEN backupWrites + 1 ELSE backupWrites>>

Tick(d, ready, rv) ==
  LET t == now + d
      e1 == IF isInit THEN epoch + Ticks(t) ELSE epoch
      p1 == IF isInit THEN prev + 1000 * Ticks(t) ELSE prev
  IN /\ now' = t /\ refReady' = ready /\ refVal' = rv
     /\ IF Mode = "none"
        THEN /\ ev' = "noref" /\ epoch' = e1 /\ prev' = p1
             /\ UNCHANGED <<status, cur, reqStart, lastSyncMs, isInit, lastSyncTime, backupVal, backupWrites, requests, lastReqAt, needGap>>
        ELSE
        CASE status = "Ready" ->
               /\ status' = "Sent" /\ reqStart' = t /\ requests' = requests + 1 /\ lastReqAt' = t /\ ev' = "send"
               /\ epoch' = e1 /\ prev' = p1
               /\ UNCHANGED <<cur, lastSyncMs, isInit, lastSyncTime, backupVal, backupWrites, needGap>>
          [] status = "Sent" ->
               IF ready THEN
                 IF rv = Inv THEN
                    /\ status' = "Wait" /\ needGap' = cur /\ ev' = "invalid"
                    /\ epoch' = e1 /\ prev' = p1
                    /\ UNCHANGED <<cur, reqStart, lastSyncMs, isInit, lastSyncTime, backupVal, backupWrites, requests, lastReqAt>>
                 ELSE LET r == SyncNow(rv, t, e1, p1) IN
                    /\ status' = "Ok" /\ cur' = Sync /\ lastSyncMs' = t /\ needGap' = Sync /\ ev' = "valid"
                    /\ epoch' = r[1] /\ prev' = r[2] /\ isInit' = r[3] /\ lastSyncTime' = r[4] /\ backupVal' = r[5] /\ backupWrites' = r[6]
                    /\ UNCHANGED <<reqStart, requests, lastReqAt>>
               ELSE IF t - reqStart >= Timeout THEN
                    /\ status' = "Wait" /\ needGap' = cur /\ ev' = "timeout"
                    /\ epoch' = e1 /\ prev' = p1
                    /\ UNCHANGED <<cur, reqStart, lastSyncMs, isInit, lastSyncTime, backupVal, backupWrites, requests, lastReqAt>>
               ELSE /\ ev' = "waiting" /\ epoch' = e1 /\ prev' = p1
                    /\ UNCHANGED <<status, cur, reqStart, lastSyncMs, isInit, lastSyncTime, backupVal, backupWrites, requests, lastReqAt, needGap>>
          [] status = "Ok" ->
               /\ (IF t - lastSyncMs >= cur * 1000 THEN status' = "Ready" ELSE status' = status)
               /\ ev' = "ok" /\ epoch' = e1 /\ prev' = p1
               /\ UNCHANGED <<cur, reqStart, lastSyncMs, isInit, lastSyncTime, backupVal, backupWrites, requests, lastReqAt, needGap>>
          [] status = "Wait" ->
               /\ (IF t - reqStart >= cur * 1000
                   THEN status' = "Ready" /\ cur' = (IF cur >= Sync \div 2 THEN Sync ELSE 2 * cur)
                   ELSE status' = status /\ cur' = cur)
               /\ ev' = "wait" /\ epoch' = e1 /\ prev' = p1
               /\ UNCHANGED <<reqStart, lastSyncMs, isInit, lastSyncTime, backupVal, backupWrites, requests, lastReqAt, needGap>>

Next == \E d \in Steps, ready \in BOOLEAN : \E rv \in RefValues(now + d) : Tick(d, ready, rv)
Spec == Init /\ [][Next]_vars
Bound == now <= TMax

----------------------------------------------------------------------------
Reading == IF isInit THEN epoch ELSE Inv
\* a valid response is applied immediately: the clock then reads the reference value
ValidApplied == ev = "valid" => (Reading = lastSyncTime /\ Reading = refVal /\ status = "Ok" /\ cur = Sync)
\* ... and whenever that changes the clock, a distinct backup clock receives the same value (and only then)
BackupLaw == [][(backupWrites' # backupWrites) <=> (ev' = "valid" /\ Mode = "distinct" /\ Reading' # (IF isInit THEN epoch + Ticks(now') ELSE Inv))]_vars
BackupValue == [][backupWrites' # backupWrites => backupVal' = refVal']_vars
\* an invalid or timed-out request never changes the clock or its last-sync time
NoCorrupt == [][ev' \in {"invalid", "timeout", "waiting", "send", "ok", "wait", "noref"} =>
                  (lastSyncTime' = lastSyncTime /\ backupWrites' = backupWrites /\ isInit' = isInit
                   /\ (isInit /\ now' - prev < 65536 => epoch' = epoch + ((now' - prev) \div 1000)))]_vars
\* consecutive requests are separated by at least the retry period in force
Separation == [][(ev' = "send" /\ lastReqAt >= 0) => now' - lastReqAt >= 1000 * needGap]_vars
\* the retry period: initial period doubling per failure up to the sync period, the sync period after a success
BackoffLaw == [][/\ (ev' = "valid" => cur' = Sync)
                 /\ ((ev' = "wait" /\ status' = "Ready") => cur' = (IF 2 * cur >= Sync THEN Sync ELSE 2 * cur))
                 /\ (ev' \notin {"valid", "wait"} => cur' = cur)]_vars
\* the machine always issues another request within a bounded time (safety form)
BoundedResponse == (Mode # "none" /\ lastReqAt >= 0) => now - lastReqAt <= 1000 * (IF cur > Sync THEN cur ELSE Sync) + Timeout + 2 * MaxStep
\* with no reference clock it only keeps time
NoReferenceOnlyKeepsTime == Mode = "none" => /\ requests = 0 /\ status = "Ready" /\ lastSyncTime = Preset
                                             /\ backupWrites = (IF Preset # PresetNone THEN 1 ELSE 0)
                                             /\ (isInit /\ MaxStep < 65536 => epoch = Preset + (prev \div 1000) /\ now - prev < 1000)   \* time is kept: folded at every loop()
\* one request per Ready -> Sent transition, none otherwise
RequestCount == [][requests' # requests <=> ev' = "send"]_vars

DumpEdge == PrintT(ToJson([from |-> [now |-> now, status |-> status, cur |-> cur, reqStart |-> reqStart, lastSyncMs |-> lastSyncMs, epoch |-> epoch, prev |-> prev,
                                     init |-> isInit, last |-> lastSyncTime, bv |-> backupVal, bw |-> backupWrites, req |-> requests],
                           d |-> now' - now, ready |-> refReady', rv |-> refVal', ev |-> ev',
                           to |-> [now |-> now', status |-> status', cur |-> cur', reqStart |-> reqStart', lastSyncMs |-> lastSyncMs', epoch |-> epoch', prev |-> prev',
                                   init |-> isInit', last |-> lastSyncTime', bv |-> backupVal', bw |-> backupWrites', req |-> requests']]))
=============================================================================
