------------------------------ MODULE BasicProc ------------------------------
(***************************************************************************)
(* The algorithm of BasicZoneProcessor::init(year): how the cache of at    *)
(* most five transitions is built -- src/ace_time/BasicZoneProcessor.h     *)
(*                                                                         *)
(*   addTransitionPriorToYear   the era of year-1 and its latest rule      *)
(*                              before `year`                              *)
(*   addTransitionsForYear      the era of `year`; when it differs from    *)
(*                              the prior era its latest prior rule is     *)
(*                              "shifted to January"; then every rule      *)
(*                              whose [from, to] contains the year         *)
(*   addTransitionAfterYear     when the era of year+1 differs, its latest *)
(*                              prior rule shifted to January of year+1    *)
(*   addTransition              at most five entries, kept ordered by      *)
(*                              (year, month) with one bubble pass         *)
(*   calcTransitions            start instants: the rule's ON/AT in the    *)
(*                              transition's month, read with the offset   *)
(*                              its suffix asks for                        *)
(*   calcAbbreviations                                                     *)
(* and findMatch(): the last entry, in array order, that starts at or      *)
(* before the instant (the first entry when there is none).                *)
(*                                                                         *)
(* Written the way the code works, so that it can be bound: the cache the  *)
(* real processor holds after init(year) must equal Table(zone, year) entry*)
(* by entry (BasicProc_MC).  Glued over the years (the table of year y     *)
(* serves the UTC dates Jan 2 of y .. Jan 1 of y+1) it gives the zone's    *)
(* step function, which TzSem.tla judges against the source lines.         *)
(* Basic transitions carry the *total* offset in offsetMinutes.            *)
(***************************************************************************)
EXTENDS ProcCommon, Json, IOUtils

Model == JsonDeserialize(IOEnv.BASICPROC_MODEL)
Zones == Model.zones          \* [name, startYear, untilYear, eras]
Pols == Model.policies
NZ == Len(Zones)
Y0 == Model.y0                \* step function glued over [Jan 1 of Y0, Jan 1 of Y1 + 1); tables of Y0-1 .. YLast are built
Y1 == Model.y1
YLast == Model.ylast

MaxCache == 5                 \* kMaxCacheEntries
NullLetter == "<null>"
MinStart == <<-24856, 74753>>       \* kMinEpochSeconds = INT32_MIN + 1
InvalidStart == <<-24856, 74752>>   \* kInvalidEpochSeconds = INT32_MIN

\* findZoneEra: the first era whose UNTIL year is after `year`, else the last one (index into Z.eras)
EraIdx(Z, year) == LET S == {k \in 1..Len(Z.eras) : year < Z.eras[k].uy}
                   IN IF S = {} THEN Len(Z.eras) ELSE CHOOSE k \in S : \A j \in S : k <= j

\* priorYearOfRule, compareRulesBeforeYear, findLatestPriorRule (0 = none)
PriorYearOf(R, year) == IF R.to < year THEN R.to ELSE year - 1
CmpYM(ay, am, by, bm) == IF ay < by THEN -1 ELSE IF ay > by THEN 1 ELSE IF am < bm THEN -1 ELSE IF am > bm THEN 1 ELSE 0
RECURSIVE LatestRec(_, _, _, _)
LatestRec(P, year, k, latest) ==
  IF k > Len(P) THEN latest
  ELSE IF P[k].fr < year /\ (latest = 0 \/ CmpYM(PriorYearOf(P[k], year), P[k].mon, PriorYearOf(P[latest], year), P[latest].mon) > 0)
       THEN LatestRec(P, year, k + 1, k)
       ELSE LatestRec(P, year, k + 1, latest)
LatestPrior(pol, year) == IF pol = 0 THEN 0 ELSE LatestRec(Pols[pol], year, 1, 0)

\* createTransition: e = era index, r = rule index in the era's policy (0 = none), month 0 = "the rule's month"
CreateT(Z, year, month, e, r) ==
  LET era == Z.eras[e]
      R == IF r = 0 THEN [mon |-> 1, delta |-> era.delta, letter |-> NullLetter] ELSE Pols[era.pol][r]
  IN [y |-> year, m |-> IF month # 0 THEN month ELSE R.mon, e |-> e, r |-> r, off |-> era.off + R.delta, delta |-> R.delta,
      letter |-> R.letter]
\* addTransition: append, then one pass from the end swapping neighbours that are out of (year, month) order
RECURSIVE Bubble(_, _)
Bubble(c, i) == IF i <= 1 THEN c
                ELSE IF CmpYM(c[i - 1].y, c[i - 1].m, c[i].y, c[i].m) > 0
                     THEN Bubble([c EXCEPT ![i - 1] = c[i], ![i] = c[i - 1]], i - 1)
                     ELSE Bubble(c, i - 1)
Add(st, t) == IF Len(st.c) >= MaxCache THEN [st EXCEPT !.dropped = @ + 1]
              ELSE [st EXCEPT !.c = Bubble(Append(@, t), Len(@) + 1)]

\* addTransitionsForYear, the loop over the rules of the year
RECURSIVE AddRules(_, _, _, _, _)
AddRules(Z, year, e, k, st) ==
  LET P == Pols[Z.eras[e].pol] IN
  IF k > Len(P) THEN st
  ELSE AddRules(Z, year, e, k + 1, IF P[k].fr <= year /\ year <= P[k].to THEN Add(st, CreateT(Z, year, 0, e, k)) ELSE st)

Collected(Z, year) ==
  LET ep == EraIdx(Z, year - 1)
      s1 == Add([c |-> <<>>, dropped |-> 0], CreateT(Z, year - 1, 0, ep, LatestPrior(Z.eras[ep].pol, year)))
      ec == EraIdx(Z, year)
      s2 == IF Z.eras[ec].pol = 0 THEN Add(s1, CreateT(Z, year, 0, ec, 0))
            ELSE AddRules(Z, year, ec, 1,
                          IF ec # ep THEN Add(s1, CreateT(Z, year, 1, ec, LatestPrior(Z.eras[ec].pol, year))) ELSE s1)
      ea == EraIdx(Z, year + 1)
  IN IF ea = ec THEN s2 ELSE Add(s2, CreateT(Z, year + 1, 1, ea, LatestPrior(Z.eras[ea].pol, year + 1)))

\* calcTransitions: the instant each entry starts at
StartOf(Z, t, prev) ==
  IF t.r = 0 THEN NormI(Days(t.y, 1, 1), 0 - 60 * prev.off)
  ELSE LET era == Z.eras[t.e]
           R == Pols[era.pol][t.r]
           md == StartDay(t.y, t.m, R.dow, R.dom)           \* the transition's month: January for a shifted prior rule
           poff == IF R.suf = "w" THEN prev.off ELSE IF R.suf = "s" THEN era.off ELSE 0
       IN IF md[1] \notin 1..12 \/ md[2] \notin 1..31 \/ R.at > 1440 THEN InvalidStart    \* OffsetDateTime::isError (24:00 is a valid LocalTime)
          ELSE NormI(Days(t.y, md[1], md[2]), 60 * (R.at - poff))
\* createAbbreviation with a single character (or none)
AbbrevB(fmt, delta, letter) ==
  IF Find(fmt, "%") # 0 THEN (IF letter = NullLetter THEN Trunc(fmt) ELSE Trunc(Replace(fmt, IF letter = "-" THEN "" ELSE letter)))
  ELSE LET p == Find(fmt, "/") IN
       IF p = 0 THEN Trunc(fmt)
       ELSE IF delta = 0 THEN Trunc(SubSeq(fmt, 1, p - 1)) ELSE Trunc(SubSeq(fmt, p + 1, Len(fmt)))
Rows(Z, c) == [k \in 1..Len(c) |-> [start |-> IF k = 1 THEN MinStart ELSE StartOf(Z, c[k], c[k - 1]), off |-> c[k].off, delta |-> c[k].delta,
                                     abbrev |-> AbbrevB(Z.eras[c[k].e].fmt, c[k].delta, c[k].letter), y |-> c[k].y, m |-> c[k].m]]

\* BasicZoneProcessor::init(year)
Table(Z, year) ==
  IF year < Z.startYear - 1 \/ Z.untilYear < year THEN [filled |-> FALSE, rows |-> <<>>, dropped |-> 0]
  ELSE LET st == Collected(Z, year) IN [filled |-> TRUE, rows |-> Rows(Z, st.c), dropped |-> st.dropped]

----------------------------------------------------------------------------
\* findMatch: what a caller sees at instant t
Val(r) == <<60 * r.off, IF r.delta # 0 THEN 1 ELSE 0, r.abbrev>>
NoRow == <<0, 0, "<none>">>
At(tab, t) == IF tab.rows = <<>> THEN NoRow
              ELSE LET S == {k \in 1..Len(tab.rows) : Le(tab.rows[k].start, t)}
                   IN Val(tab.rows[IF S = {} THEN 1 ELSE CHOOSE k \in S : \A j \in S : j <= k])
\* the pieces (maximal runs) the table of year y contributes on [lo, hi): evaluated at lo and at every start inside
RECURSIVE Walk(_, _, _, _)
Walk(tab, pts, cur, out) ==
  IF pts = {} THEN <<out, cur>>
  ELSE LET p == CHOOSE x \in pts : \A q \in pts : Le(x, q)
           v == At(tab, p)
       IN IF v = cur THEN Walk(tab, pts \ {p}, cur, out) ELSE Walk(tab, pts \ {p}, v, Append(out, <<p[1], p[2]>> \o v))
YearPieces(tab, lo, hi, cur, first) ==
  LET v0 == At(tab, lo)
      out0 == IF first \/ v0 # cur THEN <<(<<lo[1], lo[2]>> \o v0)>> ELSE <<>>
  IN Walk(tab, {tab.rows[k].start : k \in {j \in 1..Len(tab.rows) : Lt(lo, tab.rows[j].start) /\ Lt(tab.rows[j].start, hi)}}, v0, out0)

----------------------------------------------------------------------------
\* BasicZoneProcessor::getOffsetDateTime(ldt): a local date-time w (<<day, second of day>> on the local clock).
\*   init(local date) must succeed; offset0 = offset at w read as an instant; offset1 = offset at w - offset0;
\*   offset2 = offset at w - offset1; if offset1 = offset2 the result is w - offset1 with offset1, otherwise the later of
\*   the two instants with the offset found *at* it.  Each getUtcOffset() re-selects the table by the UTC date of its
\*   argument (the year before on January 1).  tabOf: year -> table.
Err == <<"err">>
ServeYear(t) == LET c == Civil(t[1]) IN IF c[2] = 1 /\ c[3] = 1 THEN c[1] - 1 ELSE c[1]
NoOff == -1000000
OffAtT(tabOf, t) == LET tb == tabOf[ServeYear(t)] IN
                    IF ~tb.filled \/ tb.rows = <<>> THEN NoOff
                    ELSE LET S == {k \in 1..Len(tb.rows) : Le(tb.rows[k].start, t)}
                         IN 60 * tb.rows[IF S = {} THEN 1 ELSE CHOOSE k \in S : \A j \in S : j <= k].off
ResolveB(tabOf, w) ==
  IF ~tabOf[ServeYear(w)].filled THEN Err
  ELSE LET o0 == OffAtT(tabOf, w) IN
       IF o0 = NoOff THEN Err
       ELSE LET e1 == AddS(w, 0 - o0)
                o1 == OffAtT(tabOf, e1)
            IN IF o1 = NoOff THEN Err
               ELSE LET e2 == AddS(w, 0 - o1)
                        o2 == OffAtT(tabOf, e2)
                    IN IF o2 = NoOff THEN Err
                       ELSE IF o1 = o2 THEN <<0 - o1, o1>>
                       ELSE IF Lt(e2, e1) THEN <<0 - o0, o1>> ELSE <<0 - o1, o2>>
\* wall times at which ResolveB can change its value: an instant at which a table row starts or the serving table
\* changes, shifted by any total offset the tables hold (or by none)
BreaksB(tabOf, years) ==
  LET B0 == UNION {{tabOf[yy].rows[k].start : k \in 1..Len(tabOf[yy].rows)} \cup {<<Days(yy, 1, 1), 0>>, <<Days(yy, 1, 2), 0>>} : yy \in years}
      O == {0} \cup UNION {{60 * tabOf[yy].rows[k].off : k \in 1..Len(tabOf[yy].rows)} : yy \in years}
  IN {AddS(b, o) : b \in B0, o \in O}

----------------------------------------------------------------------------
\* One behaviour per zone: the tables of the years Y0-1 .. YLast are built one after the other.
\* init() of an instant uses the UTC year of the instant, and the year before on January 1.
VARIABLES z, y, tab, pieces, cur
vars == <<z, y, tab, pieces, cur>>
Z == Zones[z]
WinLo == <<Days(Y0, 1, 1), 0>>
WinHi == <<Days(Y1 + 1, 1, 1), 0>>
Serve(t, yy, c, ps) ==     \* pieces after the table t of year yy has served its dates
  LET lo == IF yy < Y0 THEN WinLo ELSE <<Days(yy, 1, 2), 0>>
      hi == IF yy >= Y1 THEN WinHi ELSE <<Days(yy + 1, 1, 2), 0>>
  IN IF yy > Y1 THEN <<ps, c>>
     ELSE LET yp == YearPieces(t, lo, hi, c, yy < Y0) IN <<ps \o yp[1], yp[2]>>
Init == /\ z \in 1..NZ /\ y = Y0 - 1 /\ tab = Table(Zones[z], Y0 - 1)
        /\ LET s == Serve(Table(Zones[z], Y0 - 1), Y0 - 1, NoRow, <<>>) IN pieces = s[1] /\ cur = s[2]
InitYear == /\ y < YLast
            /\ y' = y + 1
            /\ LET t == Table(Z, y + 1)
                   s == Serve(t, y + 1, cur, pieces)
               IN tab' = t /\ pieces' = s[1] /\ cur' = s[2]
            /\ UNCHANGED z
Next == InitYear
Spec == Init /\ [][Next]_vars

\* ---- properties of every table (design level)
FitsCache == tab.dropped = 0                                   \* never more than five transitions needed
Sorted == \A k \in 1..(Len(tab.rows) - 1) : Lt(tab.rows[k].start, tab.rows[k + 1].start)
NoInvalidStart == \A k \in 1..Len(tab.rows) : tab.rows[k].start # InvalidStart
=============================================================================
