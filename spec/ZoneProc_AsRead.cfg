SPECIFICATION Spec
CONSTANTS
 Zones = {"America/Los_Angeles", "Europe/London", "Australia/Sydney"}
 Years = {2005, 2020, 1990, 2060}
 OutOfRange = {1990, 2060}
 NDirect = 1
 K = 0
 RebindOps = {"utc", "delta", "odt"}
 ClearsFilled = FALSE
VIEW View
INVARIANT TypeOK
INVARIANT HistoryIndependent
INVARIANT NoNullDeref
INVARIANT ErrorsRepeat
INVARIANT ContentCoherent
INVARIANT OneSlotPerZone
