------------------------- MODULE TransitionPool_Trace -------------------------
EXTENDS TransitionPool, Json, IOUtils
----------------------------------------------------------------------------
\* Trace validation (hook H2): each trace is the sequence of pool events of one init() of the real
\* ExtendedZoneProcessor: <<op, prior, cand, free>> after the operation.  The events must be explained
\* by the operations above in an order the protocol allows; silent no-ops (guards) emit no event.
Traces == JsonDeserialize(IOEnv.POOL_TRACES)
\* a deterministic replay as a fold over the events
RECURSIVE Replay(_, _, _)
\* st = <<prior, cand, free, pc, ok-so-far>>, returns index of first rejected event or 0
Replay(t, i, st) ==
   IF i > Len(t) THEN (IF st[4] \in {"idle"} THEN 0 ELSE Len(t) + 1)
   ELSE LET e == t[i]
            op == e[1]
            p == st[1]  c == st[2]  f == st[3]  q == st[4]
            post == <<e[2], e[3], e[4]>>
            exp == CASE op = 0 -> <<<<0, 0, 0>>, "idle", q \in {"idle", "fresh"}>>
                     [] op = 1 -> <<<<p, p, p>>, "reserve", q = "idle">>
                     [] op = 2 -> <<<<p, c, f>>, (IF q = "idle" THEN "simple" ELSE "agent"), q \in {"idle", "loop", "agent"}>>
                     [] op = 3 -> <<<<f + 1, f + 1, f + 1>>, "idle", q = "simple" /\ f < SIZE>>
                     [] op = 4 -> <<<<p, c + 1, f + 1>>, "loop", q = "reserve">>
                     [] op = 5 -> <<<<p, c, f>>, "loop", q = "agent">>
                     [] op = 6 -> <<<<p, c - 1, f>>, "select", q \in {"loop", "agent"}>>
                     [] op = 7 -> <<<<p, c, f + 1>>, "loop", q = "agent" /\ f < SIZE>>
                     [] op = 8 -> <<<<post[1], post[1], post[1]>>, "idle", q \in {"loop", "agent", "select"} /\ post[1] >= p /\ post[1] <= p + (f - c)>>
                     [] OTHER -> <<<<0, 0, 0>>, "bad", FALSE>>
        IN IF exp[3] /\ exp[1] = post /\ post[3] <= SIZE /\ post[1] <= post[2] /\ post[2] <= post[3]
           THEN Replay(t, i + 1, <<post[1], post[2], post[3], exp[2]>>)
           ELSE i
TraceVerdicts == [k \in 1..Len(Traces) |-> Replay(Traces[k].ev, 1, <<0, 0, 0, "fresh">>)]
\* evaluated once, as a constant-level check (no behaviours needed: the replay is a deterministic fold)
ASSUME PrintT(ToJson([pool_verdicts |-> TraceVerdicts]))
TInit == prior = 0 /\ cand = 0 /\ free = 0 /\ hw = 0 /\ oob = FALSE /\ pc = "idle" /\ matches = 0 /\ agents = 0 /\ priorActive = FALSE
TSpec == TInit /\ [][UNCHANGED vars]_vars
=============================================================================
