------------------------------ MODULE Calendar ------------------------------
(***************************************************************************)
(* The proleptic Gregorian calendar as its definition (month lengths and   *)
(* the 4/100/400 rule), epoch day 0 = 2000-01-01 (a Saturday), and         *)
(* transcriptions of the library's closed forms (properties C06, C18).     *)
(*                                                                         *)
(* The day count is *defined* inductively (NextDay adds one day).  To let  *)
(* TLC use all workers the induction is checked locally: MC_Calendar makes *)
(* every epoch day of 1873..2127 an initial state and checks               *)
(*    Civil(d + 1) = NextDay(Civil(d)), Civil(d - 1) = PrevDay(Civil(d)),  *)
(*    Dow(d + 1) = Dow(d) mod 7 + 1,  anchored at Civil(0), Dow(0),        *)
(* which is the inductive definition, in both directions.  Civil is        *)
(* Hinnant's closed form; the library's formulas are checked against it.   *)
(***************************************************************************)
EXTENDS Integers, Sequences, TLC

\* ---- the definition ----
IsLeap(y) == (y % 4 = 0 /\ y % 100 # 0) \/ y % 400 = 0
DaysInMonth(y, m) == IF m = 2 THEN (IF IsLeap(y) THEN 29 ELSE 28) ELSE IF m \in {4, 6, 9, 11} THEN 30 ELSE 31
NextDay(c) == IF c[3] < DaysInMonth(c[1], c[2]) THEN <<c[1], c[2], c[3] + 1>>
              ELSE IF c[2] < 12 THEN <<c[1], c[2] + 1, 1>> ELSE <<c[1] + 1, 1, 1>>
PrevDay(c) == IF c[3] > 1 THEN <<c[1], c[2], c[3] - 1>>
              ELSE IF c[2] > 1 THEN <<c[1], c[2] - 1, DaysInMonth(c[1], c[2] - 1)>> ELSE <<c[1] - 1, 12, 31>>

\* ---- closed forms (H. Hinnant), floor division ----
DaysFromCivil(y0, m, d) ==
   LET y == IF m <= 2 THEN y0 - 1 ELSE y0
       era == y \div 400
       yoe == y - era * 400
       mp == (m + 9) % 12
       doy == (153 * mp + 2) \div 5 + d - 1
       doe == yoe * 365 + yoe \div 4 - yoe \div 100 + doy
   IN era * 146097 + doe - 719468 - 10957
Civil(n) ==
   LET z == n + 10957 + 719468
       era == z \div 146097
       doe == z - era * 146097
       yoe == (doe - doe \div 1460 + doe \div 36524 - doe \div 146096) \div 365
       doy == doe - (365 * yoe + yoe \div 4 - yoe \div 100)
       mp == (5 * doy + 2) \div 153
       d == doy - (153 * mp + 2) \div 5 + 1
       m == IF mp < 10 THEN mp + 3 ELSE mp - 9
       y == yoe + era * 400 + (IF m <= 2 THEN 1 ELSE 0)
   IN <<y, m, d>>
Dow(n) == ((n + 5) % 7) + 1          \* ISO: 1 = Monday .. 7 = Sunday; day 0 is a Saturday (6)

\* ---- the library's formulas, transcribed (C integer arithmetic: division truncates toward zero) ----
TDiv(a, b) == IF a >= 0 THEN a \div b ELSE 0 - ((0 - a) \div b)
TMod(a, b) == a - b * TDiv(a, b)
\* LocalDate::toEpochDays (Julian day number formula)
ToEpochDaysImpl(yy, month, day) ==
   LET mm == TDiv(month - 14, 12)
       jdn == TDiv(1461 * (yy + 4800 + mm), 4) + TDiv(367 * (month - 2 - 12 * mm), 12)
              - TDiv(3 * TDiv(yy + 4900 + mm, 100), 4) + day - 32075
   IN jdn - 2451545
\* LocalDate::extractYearMonthDay (unsigned arithmetic; all intermediate values are non-negative in range)
ExtractYMDImpl(epochDays) ==
   LET J == epochDays + 2451545
       f == J + 1401 + (((4 * J + 274277) \div 146097) * 3) \div 4 - 38
       e == 4 * f + 3
       g == (e % 1461) \div 4
       h == 5 * g + 2
       day == (h % 153) \div 5 + 1
       month == ((h \div 153 + 2) % 12) + 1
       year == (e \div 1461) - 4716 + (12 + 2 - month) \div 12
   IN <<year, month, day>>
\* LocalDate::dayOfWeek (table formula, including its d < -1 branch)
SDayOfWeek == <<5, 1, 0, 3, 5, 1, 3, 6, 2, 4, 0, 2>>
DayOfWeekImpl(year, month, day) ==
   LET y == year - (IF month < 3 THEN 1 ELSE 0)
       d == y + TDiv(y, 4) - TDiv(y, 100) + TDiv(y, 400) + SDayOfWeek[month] + day
   IN IF d < -1 THEN TMod(d + 1, 7) + 8 ELSE TMod(d + 1, 7) + 1
\* local_date_mutation::incrementOneDay / decrementOneDay
IncrementOneDayImpl(c) ==
   LET day == c[3] + 1
   IN IF day > DaysInMonth(c[1], c[2])
      THEN (IF c[2] + 1 > 12 THEN <<c[1] + 1, 1, 1>> ELSE <<c[1], c[2] + 1, 1>>)
      ELSE <<c[1], c[2], day>>
DecrementOneDayImpl(c) ==
   LET day == c[3] - 1
   IN IF day = 0
      THEN (IF c[2] = 1 THEN <<c[1] - 1, 12, 31>> ELSE <<c[1], c[2] - 1, DaysInMonth(c[1], c[2] - 1)>>)
      ELSE <<c[1], c[2], day>>

\* LocalTime: the documented validity of (hour, minute, second) bytes -- 24:00:00 is a valid value
ValidTime(h, mi, s) == (h <= 23 /\ mi <= 59 /\ s <= 59) \/ (h = 24 /\ mi = 0 /\ s = 0)

----------------------------------------------------------------------------
\* Rule day expressions (C18): ON = d | lastDow | Dow>=d | Dow<=d, resolved declaratively on the day count
\*   dow 1..7 ; dom = 0 : last <dow> of the month ; dom > 0 : first <dow> on or after dom ; dom < 0 : last <dow> on or before -dom
ResolveDef(y, m, dow, dom) ==
   IF dom = 0 THEN LET l == DaysFromCivil(y, m, DaysInMonth(y, m)) IN l - ((Dow(l) - dow + 7) % 7)
   ELSE IF dom > 0 THEN LET b == DaysFromCivil(y, m, dom) IN b + ((dow - Dow(b) + 7) % 7)
   ELSE LET b == DaysFromCivil(y, m, 0 - dom) IN b - ((Dow(b) - dow + 7) % 7)
\* BasicZoneProcessor::calcStartDayOfMonth, transcribed; result <<month, day>> (month 0 / 13 when it spills over a year boundary)
CalcCpp(y, m, dow, dom) ==
   IF dom >= 0
   THEN LET dim == DaysInMonth(y, m)
            od == IF dom = 0 THEN dim - 6 ELSE dom
            shift == (dow - DayOfWeekImpl(y, m, od) + 7) % 7
            day == od + shift
        IN IF day > dim THEN <<m + 1, day - dim>> ELSE <<m, day>>
   ELSE LET od == 0 - dom
            shift == (DayOfWeekImpl(y, m, od) - dow + 7) % 7
            day == od - shift
        IN IF day < 1 THEN <<m - 1, day + (IF m - 1 >= 1 THEN DaysInMonth(y, m - 1) ELSE 31)>> ELSE <<m, day>>
\* transformer.calc_day_of_month, transcribed (Python datetime arithmetic = the day count)
CalcPy(y, m, dow, dom) ==
   LET n == ResolveDef(y, m, dow, dom)
       c == Civil(n)
   IN IF c[1] = y THEN <<c[2], c[3]>> ELSE IF c[1] < y THEN <<0, c[3]>> ELSE <<13, c[3]>>
\* the compiler's rejection predicate for rules (after the repair of the January case):
\*   Dow>=d in December with d >= 26 and Dow<=d in January with d <= 7 may leave the year
Admitted(m, dow, dom) == ~(m = 12 /\ dom >= 26) /\ ~(m = 1 /\ dom < 0 /\ dom >= -7)
SpillsYear(y, m, dow, dom) == Civil(ResolveDef(y, m, dow, dom))[1] # y
=============================================================================
