SPECIFICATION Spec
INVARIANT FitsCache
INVARIANT Sorted
INVARIANT NoInvalidStart
INVARIANT Judge
INVARIANT Done
INVARIANT WallJudge
CHECK_DEADLOCK FALSE
