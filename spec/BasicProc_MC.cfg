SPECIFICATION Spec
INVARIANT FitsCache
INVARIANT Sorted
INVARIANT NoInvalidStart
INVARIANT Judge
INVARIANT Done
CHECK_DEADLOCK FALSE
