----------------------------- MODULE MC_Encoding -----------------------------
(***************************************************************************)
(* The packed encodings of the generated zone tables (property C12):       *)
(* Enc* transcribe tools/zonedb/argenerator.py, Dec* transcribe the        *)
(* brokers of src/ace_time/internal/Brokers.h (with the int8 / uint8       *)
(* storage of the table fields).  Theorem: Dec(Enc(v)) = v on the full     *)
(* product of admissible values, for both scopes.                          *)
(***************************************************************************)
EXTENDS Integers, Sequences, TLC, Json
DivToZero(a, b) == IF a >= 0 THEN a \div b ELSE ((a - 1) \div b) + 1     \* transformer.div_to_zero
I8(x) == ((x + 128) % 256) - 128        \* what an int8_t field holds
U8(x) == x % 256
SuffixCode(s) == CASE s = "w" -> 0 [] s = "s" -> 16 [] s = "u" -> 32
\* AT / UNTIL: _to_code_and_modifier -> (timeCode, modifier) ; timeCodeToMinutes / toSuffix
EncTime(seconds, suf) == <<DivToZero(seconds, 900), SuffixCode(suf) + ((seconds % 900) \div 60)>>
DecTimeMinutes(code, modifier) == U8(code) * 15 + (U8(modifier) % 16)
DecSuffix(modifier) == (U8(modifier) \div 16) * 16
\* basic scope: offsetCode = div_to_zero(offsetSeconds, 900), deltaCode = div_to_zero(deltaSeconds, 900); 15 * (int8_t) code
EncBasicOffset(seconds) == DivToZero(seconds, 900)
DecBasic(code) == 15 * I8(code)
\* extended scope: _to_extended_offset_and_delta / _to_extended_delta_code ; toOffsetMinutes / toDeltaMinutes
EncExtOffsetCode(offsetSeconds) == offsetSeconds \div 900
EncExtDeltaCode(offsetSeconds, deltaSeconds) == (((offsetSeconds % 900) \div 60) * 16) + ((deltaSeconds \div 900) + 4)
\* deltaCode is a (signed) int8_t field: the initializer the generator writes must *be* a value of that type (a C++11
\* initializer list rejects 128..255), i.e. the byte pattern read as int8_t
EncExtDeltaField(offsetSeconds, deltaSeconds) == I8(EncExtDeltaCode(offsetSeconds, deltaSeconds))
DecExtDeltaMinutes(deltaCode) == (I8(U8(deltaCode) % 16) - 4) * 15
DecExtOffsetMinutes(offsetCode, deltaCode) == (I8(offsetCode) * 15) + (U8(deltaCode) \div 16)
\* years: to_tiny_year ; broker adds 2000 (max / min have reserved tiny values)
MaxYear == 9999  MinYear == 0
EncYear(y) == IF y = MaxYear THEN 126 ELSE IF y = MinYear THEN -127 ELSE y - 2000
DecYear(t) == I8(t) + 2000

VARIABLE st
Init == \/ \E sec \in 0..1500, suf \in {"w", "s", "u"} : st = <<"time", sec * 60, suf>>            \* 00:00 .. 25:00 by the minute
        \/ \E m \in -960..960 : st = <<"offset", m * 60>>                                            \* -16:00 .. +16:00 by the minute
        \/ \E d \in -4..11 : st = <<"delta", d * 900>>                                               \* -1:00 .. +2:45 in 15-minute steps
        \/ \E y \in 1872..2127 : st = <<"year", y>>          \* every year the transformer admits (is_year_tiny)
        \/ st = <<"year", MaxYear>> \/ st = <<"year", MinYear>>
Spec == Init /\ [][UNCHANGED st]_st
TimeOK == st[1] = "time" => LET e == EncTime(st[2], st[3]) IN
             /\ DecTimeMinutes(e[1], e[2]) * 60 = st[2] /\ DecSuffix(e[2]) = SuffixCode(st[3]) /\ e[1] \in 0..255 /\ e[2] \in 0..255
\* the extended encoding keeps one-minute resolution for every offset and every DST shift
ExtOffsetOK == st[1] = "offset" => \A d \in -4..11 :
             LET oc == EncExtOffsetCode(st[2])  dc == EncExtDeltaField(st[2], d * 900) IN
             /\ DecExtOffsetMinutes(oc, dc) * 60 = st[2] /\ DecExtDeltaMinutes(dc) = d * 15 /\ oc \in -128..127 /\ dc \in -128..127
\* the basic encoding is exact on multiples of 15 minutes
BasicOffsetOK == (st[1] = "offset" /\ st[2] % 900 = 0) => DecBasic(EncBasicOffset(st[2])) * 60 = st[2]
BasicDeltaOK == st[1] = "delta" => DecBasic(EncBasicOffset(st[2])) * 60 = st[2]
YearOK == st[1] = "year" => (IF st[2] = MaxYear THEN DecYear(EncYear(st[2])) = 2126 ELSE IF st[2] = MinYear THEN DecYear(EncYear(st[2])) = 1873
                             ELSE DecYear(EncYear(st[2])) = st[2] /\ EncYear(st[2]) \in -128..127)
Dump == PrintT(ToJson(CASE st[1] = "time" -> <<"time", st[2], st[3]>> \o EncTime(st[2], st[3])
                        [] st[1] = "offset" -> <<"offset", st[2], EncBasicOffset(st[2]), EncExtOffsetCode(st[2]), EncExtDeltaField(st[2], 0), EncExtDeltaField(st[2], 3600)>>
                        [] st[1] = "delta" -> <<"delta", st[2], EncBasicOffset(st[2]), (st[2] \div 900) + 4>>
                        [] OTHER -> <<"year", st[2], EncYear(st[2])>>))
=============================================================================
