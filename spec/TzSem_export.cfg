SPECIFICATION Spec
INVARIANT TypeOK
INVARIANT DoneSane
INVARIANT PrintDone
CHECK_DEADLOCK FALSE
