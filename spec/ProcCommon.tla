----------------------------- MODULE ProcCommon -----------------------------
(* What the two zone processors share: the civil calendar, the resolution  *)
(* of "ON" day expressions (BasicZoneProcessor::calcStartDayOfMonth, used  *)
(* by both), instants as <<day, second of day>> pairs (day 0 = 2000-01-01; *)
(* TLC integers are 32 bit) and the string helpers of createAbbreviation.  *)
EXTENDS Integers, Sequences, TLC

Max(a, b) == IF a > b THEN a ELSE b
\* calendar
IsLeap(y) == (y % 4 = 0 /\ y % 100 # 0) \/ y % 400 = 0
DIM(y, m) == IF m = 2 THEN (IF IsLeap(y) THEN 29 ELSE 28) ELSE IF m \in {4, 6, 9, 11} THEN 30 ELSE 31
Days(y0, m, d) == LET y == IF m <= 2 THEN y0 - 1 ELSE y0
                      era == y \div 400
                      yoe == y - era * 400
                      mp == (m + 9) % 12
                      doy == (153 * mp + 2) \div 5 + d - 1
                      doe == yoe * 365 + yoe \div 4 - yoe \div 100 + doy
                  IN era * 146097 + doe - 719468 - 10957
Dow(n) == ((n + 5) % 7) + 1        \* ISO weekday 1 = Monday ... 7 = Sunday
\* the civil date <<y, m, d>> of day n (inverse of Days)
Civil(n) == LET z == n + 10957 + 719468
               era == z \div 146097
               doe == z - era * 146097
               yoe == (doe - doe \div 1460 + doe \div 36524 - doe \div 146096) \div 365
               doy == doe - (365 * yoe + yoe \div 4 - yoe \div 100)
               mp == (5 * doy + 2) \div 153
               d == doy - (153 * mp + 2) \div 5 + 1
               m == IF mp < 10 THEN mp + 3 ELSE mp - 9
           IN <<yoe + era * 400 + (IF m <= 2 THEN 1 ELSE 0), m, d>>
NormI(d, s) == <<d + (s \div 86400), s % 86400>>

\* BasicZoneProcessor::calcStartDayOfMonth
StartDay(y, mon, dow, dom) ==
  IF dow = 0 THEN <<mon, dom>>
  ELSE IF dom >= 0 THEN
     LET dim == DIM(y, mon)
         lim == IF dom = 0 THEN dim - 6 ELSE dom
         day == lim + ((dow - Dow(Days(y, mon, lim)) + 7) % 7)
     IN IF day > dim THEN <<mon + 1, day - dim>> ELSE <<mon, day>>
  ELSE LET lim == 0 - dom
           day == lim - ((Dow(Days(y, mon, lim)) - dow + 7) % 7)
       IN IF day < 1 THEN <<mon - 1, day + DIM(y, mon - 1)>> ELSE <<mon, day>>


\* instants
Lt(a, b) == a[1] < b[1] \/ (a[1] = b[1] /\ a[2] < b[2])
Le(a, b) == ~Lt(b, a)
AddS(t, n) == NormI(t[1], t[2] + n)

\* abbreviations are kept in kAbbrevSize = 7 bytes: six characters survive
Trunc(s) == IF Len(s) > 6 THEN SubSeq(s, 1, 6) ELSE s
Find(s, ch) == LET P == {k \in 1..Len(s) : SubSeq(s, k, k) = ch} IN IF P = {} THEN 0 ELSE CHOOSE k \in P : \A j \in P : k <= j
RECURSIVE Replace(_, _)
Replace(s, letter) == LET p == Find(s, "%") IN
                      IF p = 0 THEN s ELSE SubSeq(s, 1, p - 1) \o letter \o Replace(SubSeq(s, p + 1, Len(s)), letter)
=============================================================================
