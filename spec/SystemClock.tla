----------------------------- MODULE SystemClock -----------------------------
(***************************************************************************)
(* SystemClock (property C13): a seconds counter driven by a free-running  *)
(* millisecond counter of which only the low 16 bits are kept.             *)
(*                                                                         *)
(* State of the code: epoch (mEpochSeconds), prev (mPrevMillis, uint16),   *)
(* isInit, lastSync (mLastSyncTime), and the writes made to a distinct     *)
(* backup clock.  Environment: the millisecond counter, of which the code  *)
(* only ever sees msLow = counter mod W.                                   *)
(* Ghost state for the property: T (value of the last setting), el         *)
(* (milliseconds elapsed since that setting), gapOk (every interval        *)
(* between consecutive polls/settings since then was at most W - S).       *)
(*                                                                         *)
(* W = 65536 and S = 1000 in the code; the exhaustive configuration scales *)
(* them down (W = 64, S = 5) so that every phase x gap x depth-4 history   *)
(* is covered; a second configuration keeps the real constants on          *)
(* boundary sets and is the one replayed into the real class.              *)
(*                                                                         *)
(* syncNow() returns early when the new value equals the *stored* seconds  *)
(* (which may be stale: not yet caught up).  ResyncStale controls whether  *)
(* the environment may do that; with it TLC refutes ExactTime (recorded    *)
(* as a known finding), without it ExactTime holds.                        *)
(***************************************************************************)
EXTENDS Integers, TLC, Json

CONSTANTS W,            \* modulus of the stored millisecond value (65536)
          S,            \* milliseconds per second (1000)
          Phases,       \* initial values of the counter's low bits
          Gaps,         \* amounts by which the environment advances the counter
          Values,       \* values the clock may be set to (the sentinel Invalid is always offered too)
          MaxDepth,     \* bound on the length of histories
          ResyncStale   \* allow SetNow(v) with v = stored seconds while initialised

Invalid == -1000000      \* stands for kInvalidSeconds (INT32_MIN in the code)

VARIABLES msLow, epoch, prev, isInit, lastSync, backupWrites, backupVal,
          T, el, sinceOp, gapOk, op, reading, lastRead, depth
vars == <<msLow, epoch, prev, isInit, lastSync, backupWrites, backupVal, T, el, sinceOp, gapOk, op, reading, lastRead, depth>>
CodeState == <<epoch, prev, isInit, lastSync, backupWrites, backupVal>>

Init == /\ msLow \in Phases /\ epoch = Invalid /\ prev = 0 /\ isInit = FALSE /\ lastSync = Invalid
        /\ backupWrites = 0 /\ backupVal = Invalid
        /\ T = Invalid /\ el = 0 /\ sinceOp = 0 /\ gapOk = TRUE /\ op = <<"init", 0>> /\ reading = Invalid /\ lastRead = Invalid /\ depth = 0

\* environment: the counter advances by d
Advance(d) == /\ depth < MaxDepth
              /\ msLow' = (msLow + d) % W /\ el' = el + d /\ sinceOp' = sinceOp + d
              /\ op' = <<"adv", d>> /\ depth' = depth + 1
              /\ UNCHANGED <<epoch, prev, isInit, lastSync, backupWrites, backupVal, T, gapOk, reading, lastRead>>

\* getNow(): the catch-up loop, as its closed form (n iterations of prev += S; epoch += 1)
Ticks == ((msLow - prev) % W) \div S
GetNow == /\ depth < MaxDepth
          /\ IF ~isInit THEN reading' = Invalid /\ UNCHANGED <<epoch, prev>>
             ELSE /\ epoch' = epoch + Ticks /\ prev' = (prev + Ticks * S) % W /\ reading' = epoch + Ticks
          /\ lastRead' = reading'
          /\ gapOk' = (gapOk /\ sinceOp <= W - S) /\ sinceOp' = 0
          /\ op' = <<"get", 0>> /\ depth' = depth + 1
          /\ UNCHANGED <<msLow, isInit, lastSync, backupWrites, backupVal, T, el>>

\* keepAlive(): the same catch-up without handing a reading to the caller -- what SystemClockLoop::loop() does on every
\* call (also when there is no reference clock); a poll in the sense of the property
KeepAlive == /\ depth < MaxDepth
             /\ IF ~isInit THEN UNCHANGED <<epoch, prev>>
                ELSE epoch' = epoch + Ticks /\ prev' = (prev + Ticks * S) % W
             /\ gapOk' = (gapOk /\ sinceOp <= W - S) /\ sinceOp' = 0
             /\ op' = <<"keep", 0>> /\ depth' = depth + 1
             /\ UNCHANGED <<msLow, isInit, lastSync, backupWrites, backupVal, T, el, reading, lastRead>>

\* setNow(v) -> syncNow(v), with a distinct backup clock.
\* The class has three entry points that set the clock, all of them this one step: setNow(v) itself, setup() (v is what
\* the backup clock reports) and forceSync() (v is what the reference clock reports); the conformance replay performs
\* every SetNow edge of the state graph through each of the three (vf/clocks.py sc_replay_edges, setvia = T / U / F).
SetNow(v) == /\ depth < MaxDepth
             /\ (ResyncStale \/ ~isInit \/ v # epoch)
             /\ op' = <<"set", v>> /\ depth' = depth + 1
             /\ IF v = Invalid THEN UNCHANGED <<epoch, prev, isInit, lastSync, backupWrites, backupVal, T, el, sinceOp, gapOk, lastRead>>
                ELSE /\ lastSync' = v /\ lastRead' = Invalid
                     /\ T' = v /\ el' = 0 /\ sinceOp' = 0 /\ gapOk' = TRUE            \* the property's view: set to v now
                     /\ IF epoch = v THEN UNCHANGED <<epoch, prev, isInit, backupWrites, backupVal>>
                        ELSE /\ epoch' = v /\ prev' = msLow /\ isInit' = TRUE
                             /\ backupWrites' = backupWrites + 1 /\ backupVal' = v
             /\ UNCHANGED <<msLow, reading>>

Next == (\E d \in Gaps : Advance(d)) \/ GetNow \/ KeepAlive \/ (\E v \in Values \cup {Invalid} : SetNow(v))
Spec == Init /\ [][Next]_vars

----------------------------------------------------------------------------
TypeOK == /\ msLow \in 0..(W - 1) /\ prev \in 0..(W - 1) /\ isInit \in BOOLEAN
\* C13: a reading is T + floor(elapsed / S) provided every polling gap since the setting was <= W - S
ExactTime == (op[1] = "get" /\ isInit /\ gapOk) => reading = T + (el \div S)
\* before the first setting the clock reports the sentinel
SentinelBeforeSet == (op[1] = "get" /\ T = Invalid) => reading = Invalid
\* setting it to the sentinel is ignored
SetInvalidIgnored == [][(op'[1] = "set" /\ op'[2] = Invalid) => CodeState' = CodeState]_vars
\* readings never decrease between settings
Monotone == [][(op'[1] = "get" /\ isInit /\ lastRead # Invalid) => reading' >= lastRead]_vars
\* the stored remainder stays below one second after a poll
RemainderSmall == (op[1] = "get" /\ isInit) => ((msLow - prev) % W) < S
\* the backup clock is written exactly when the stored value changes
BackupLaw == [][backupWrites' # backupWrites => (op'[1] = "set" /\ backupVal' = op'[2] /\ epoch' = op'[2] /\ epoch # epoch')]_vars

\* edge dump for replay into the real class (P1)
DumpEdge == PrintT(ToJson([from |-> [ms |-> msLow, epoch |-> epoch, prev |-> prev, init |-> isInit, last |-> lastSync, bw |-> backupWrites, bv |-> backupVal],
                           op |-> op', reading |-> reading',
                           to |-> [ms |-> msLow', epoch |-> epoch', prev |-> prev', init |-> isInit', last |-> lastSync', bw |-> backupWrites', bv |-> backupVal']]))
=============================================================================
