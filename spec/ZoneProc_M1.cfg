SPECIFICATION Spec
CONSTANTS
 Zones = {"America/Los_Angeles", "Europe/London", "Australia/Sydney"}
 Years = {2005, 2020, 1990, 2060}
 OutOfRange = {1990, 2060}
 NDirect = 0
 K = 1
 RebindOps = {"utc", "delta", "abbrev", "odt", "print", "printshort"}
 ClearsFilled = TRUE
VIEW View
INVARIANT TypeOK
INVARIANT HistoryIndependent
INVARIANT NoNullDeref
INVARIANT ErrorsRepeat
INVARIANT ContentCoherent
INVARIANT OneSlotPerZone
ACTION_CONSTRAINT DumpEdge
