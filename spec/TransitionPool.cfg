SPECIFICATION Spec
CONSTANTS SIZE = 8
 MaxMatches = 4
 MaxAgents = 6
INVARIANT TypeOK
INVARIANT SafeBelowCapacity
CHECK_DEADLOCK FALSE
