---------------------------- MODULE MC_TimeValid ----------------------------
(* The validity predicate of LocalTime over all hours and the boundary      *)
(* classes of minute and second bytes (property C06, third clause).         *)
EXTENDS Calendar, Json, FiniteSets
Cls == {0, 1, 58, 59, 60, 61, 255}
VARIABLES h, mi, s
Init == h \in 0..255 /\ mi \in Cls /\ s \in Cls
Spec == Init /\ [][UNCHANGED <<h, mi, s>>]_<<h, mi, s>>
\* exactly the 86,400 seconds of a day plus 24:00:00 are valid
CountOK == Cardinality({x \in (0..24) \X (0..59) \X (0..59) : ValidTime(x[1], x[2], x[3])}) = 86401
Dump == PrintT(ToJson(<<h, mi, s, IF ValidTime(h, mi, s) THEN 1 ELSE 0>>))
=============================================================================
