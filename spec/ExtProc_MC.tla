----------------------------- MODULE ExtProc_MC -----------------------------
(* ExtProc bound to the implementation: for every zone and year the table   *)
(* the real ExtendedZoneProcessor holds after init(year) -- read out of the *)
(* object by harness/pairdrv.cpp `tables` -- must equal Table(zone, year)   *)
(* in every field, together with the number of matches and the pool         *)
(* high-water mark.  Obs[name][year] = [filled, nm, hw, rows], a row being   *)
(* <<startEpochSeconds, offsetMinutes, deltaMinutes, abbrev, startDateTime, *)
(* untilDateTime>> with date tuples <<y, m, d, minutes, suffix>>.  The same *)
(* judgement binds the Python reference implementation (ZoneSpecifier, hw   *)
(* = -1: its pool accounting is a different quantity).                      *)
EXTENDS ExtProc

Obs == JsonDeserialize(IOEnv.EXTPROC_OBS)
TupleOf(d) == <<d.y, d.m, d.d, d.mi, d.s>>
ModelRow(r) == <<r.start, r.off, r.delta, r.abbrev, TupleOf(r.sdt), TupleOf(r.udt)>>
ObsRow(o) == <<<<o[1] \div 86400, o[1] % 86400>>, o[2], o[3], o[4], o[5], o[6]>>
HasObs == Z.name \in DOMAIN Obs /\ ToString(y) \in DOMAIN Obs[Z.name]
Judge ==
  HasObs =>
    LET o == Obs[Z.name][ToString(y)]
        mrows == [k \in 1..Len(tab.rows) |-> ModelRow(tab.rows[k])]
        orows == [k \in 1..Len(o.rows) |-> ObsRow(o.rows[k])]
        same == (o.filled = 1) = tab.filled /\ (tab.filled => (o.nm = tab.nm /\ (o.hw = -1 \/ o.hw = tab.hw) /\ orows = mrows))
    IN same \/ PrintT(ToJson([bad |-> Z.name, year |-> y, model |-> [filled |-> tab.filled, nm |-> tab.nm, hw |-> tab.hw, rows |-> mrows],
                              impl |-> [filled |-> o.filled, nm |-> o.nm, hw |-> o.hw, rows |-> orows]]))
\* the zone's step function over [Y0, Y1], for TzSem to judge; and what was compared
Done == y = YLast => PrintT(ToJson([zone |-> Z.name, pieces |-> pieces, judged |-> Z.name \in DOMAIN Obs]))
Hazards == tab.stale => PrintT(ToJson([stale |-> Z.name, year |-> y]))
=============================================================================
