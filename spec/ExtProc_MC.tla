----------------------------- MODULE ExtProc_MC -----------------------------
(* ExtProc bound to the implementation: for every zone and year the table   *)
(* the real ExtendedZoneProcessor holds after init(year) -- read out of the *)
(* object by harness/pairdrv.cpp `tables` -- must equal Table(zone, year)   *)
(* in every field, together with the number of matches and the pool         *)
(* high-water mark.  Obs[name][year] = [filled, nm, hw, rows], a row being   *)
(* <<startEpochSeconds, offsetMinutes, deltaMinutes, abbrev, startDateTime, *)
(* untilDateTime>> with date tuples <<y, m, d, minutes, suffix>>.  The same *)
(* judgement binds the Python reference implementation (ZoneSpecifier, hw   *)
(* = -1: its pool accounting is a different quantity).                      *)
EXTENDS ExtProc, FiniteSets

Obs == JsonDeserialize(IOEnv.EXTPROC_OBS)
TupleOf(d) == <<d.y, d.m, d.d, d.mi, d.s>>
ModelRow(r) == <<r.start, r.off, r.delta, r.abbrev, TupleOf(r.sdt), TupleOf(r.udt)>>
ObsRow(o) == <<<<o[1] \div 86400, o[1] % 86400>>, o[2], o[3], o[4], o[5], o[6]>>
HasObs == Z.name \in DOMAIN Obs /\ ToString(y) \in DOMAIN Obs[Z.name]
Judge ==
  HasObs =>
    LET o == Obs[Z.name][ToString(y)]
        mrows == [k \in 1..Len(tab.rows) |-> ModelRow(tab.rows[k])]
        orows == [k \in 1..Len(o.rows) |-> ObsRow(o.rows[k])]
        same == (o.filled = 1) = tab.filled /\ (tab.filled => (o.nm = tab.nm /\ (o.hw = -1 \/ o.hw = tab.hw) /\ orows = mrows))
    IN same \/ PrintT(ToJson([bad |-> Z.name, year |-> y, model |-> [filled |-> tab.filled, nm |-> tab.nm, hw |-> tab.hw, rows |-> mrows],
                              impl |-> [filled |-> o.filled, nm |-> o.nm, hw |-> o.hw, rows |-> orows]]))
\* the zone's step function over [Y0, Y1], for TzSem to judge; and what was compared
Done == y = YLast => PrintT(ToJson([zone |-> Z.name, pieces |-> pieces, judged |-> Z.name \in DOMAIN Obs]))
\* ---- wall-clock resolution bound to the implementation (ZonedDateTime::forComponents on an extended zone).
\* WallObs[name][year] = windows [w0, w1, pieces] whose first wall minute lies in that local year; a piece
\* <<day, sec, shift, off, err>> holds from its start to the next piece (run-length of every wall minute of the window).
\* The model is evaluated at the start of every piece and at every wall time inside it where its value can change.
WallObs == JsonDeserialize(IOEnv.EXTPROC_WALL)
HasWall == Z.name \in DOMAIN WallObs /\ ToString(y) \in DOMAIN WallObs[Z.name]
TabFor(yy) == IF yy = y THEN tab ELSE Table(Z, yy)
YearOfWall(w) == Civil(w[1])[1]
ModelAt(w) == Resolve(TabFor(YearOfWall(w)), w)
PieceBad(ps, j, w1) ==
  LET a == <<ps[j][1], ps[j][2]>>
      b == IF j < Len(ps) THEN <<ps[j + 1][1], ps[j + 1][2]>> ELSE w1
      ys == {YearOfWall(a), YearOfWall(AddS(b, -1))}
      brk == UNION {WallBreaksOf(TabFor(yy)) \cup {<<Days(yy, 1, 1), 0>>} : yy \in ys}
      pts == {a} \cup {c \in brk : Lt(a, c) /\ Lt(c, b)}
      want == IF ps[j][5] # 0 THEN Err ELSE <<ps[j][3], ps[j][4]>>
  IN {c \in pts : ModelAt(c) # want}
WallJudge ==
  HasWall =>
    LET W == WallObs[Z.name][ToString(y)]
        bad == {<<wi, j>> \in UNION {{<<wi, j>> : j \in 1..Len(W[wi].pieces)} : wi \in 1..Len(W)} :
                  PieceBad(W[wi].pieces, j, <<W[wi].w1[1], W[wi].w1[2]>>) # {}}
    IN bad = {} \/ LET b == CHOOSE x \in bad : TRUE
                       c == CHOOSE x \in PieceBad(W[b[1]].pieces, b[2], <<W[b[1]].w1[1], W[b[1]].w1[2]>>) : TRUE
                   IN PrintT(ToJson([wbad |-> Z.name, year |-> y, nbad |-> Cardinality(bad), at |-> c, model |-> ModelAt(c),
                                     impl |-> W[b[1]].pieces[b[2]]]))
WallCount == HasWall => PrintT(ToJson([wzone |-> Z.name, year |-> y, nwin |-> Len(WallObs[Z.name][ToString(y)])]))
Hazards == tab.stale => PrintT(ToJson([stale |-> Z.name, year |-> y]))
=============================================================================
