SPECIFICATION Spec
INVARIANT TimeOK
INVARIANT ExtOffsetOK
INVARIANT BasicOffsetOK
INVARIANT BasicDeltaOK
INVARIANT YearOK
INVARIANT Dump
CHECK_DEADLOCK FALSE
