SPECIFICATION FairSpec
CONSTANTS MaxN = 40
 MaxPermN = 5
 Threshold = 6
 HalfOpen = TRUE
 TrackProbes = FALSE
INVARIANT TypeOK
INVARIANT Exact
INVARIANT InBounds
PROPERTY Terminates
CHECK_DEADLOCK FALSE
