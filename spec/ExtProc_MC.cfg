SPECIFICATION Spec
INVARIANT Sorted
INVARIANT Covered
INVARIANT NoOverflow
INVARIANT WithinRecordedSize
INVARIANT Hazards
INVARIANT Judge
INVARIANT Done
CHECK_DEADLOCK FALSE
