SPECIFICATION Spec
INVARIANT Sorted
INVARIANT Covered
INVARIANT NoOverflow
INVARIANT WithinRecordedSize
INVARIANT Hazards
INVARIANT Judge
INVARIANT Done
INVARIANT WallJudge
CHECK_DEADLOCK FALSE
