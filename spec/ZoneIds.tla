------------------------------- MODULE ZoneIds -------------------------------
(***************************************************************************)
(* Zone identifiers (property C11): id = djb2(name) in 32-bit unsigned     *)
(* arithmetic, computed here on two 16-bit limbs because TLC integers are  *)
(* 32-bit signed.  The audited data (names as character codes, ids as      *)
(* <<hi, lo>> limbs, registry orders, link targets, baseline) is extracted *)
(* from the real accessors / generated files and loaded through IOEnv; the *)
(* properties are first-order formulas over it, evaluated by TLC.          *)
(***************************************************************************)
EXTENDS Integers, Sequences, FiniteSets, TLC, Json, IOUtils
Data == JsonDeserialize(IOEnv.ZONEIDS_DATA)
\* hash = 5381 ; hash = hash * 33 + c (mod 2^32), on limbs <<hi, lo>>
Step(h, c) == LET lo == h[2] * 33 + c
              IN <<(h[1] * 33 + (lo \div 65536)) % 65536, lo % 65536>>
RECURSIVE Fold(_, _, _)
Fold(s, k, h) == IF k > Len(s) THEN h ELSE Fold(s, k + 1, Step(h, s[k]))
Djb2(s) == Fold(s, 1, <<0, 5381>>)
\* lexicographic order on character-code sequences (strcmp order)
RECURSIVE LessAt(_, _, _)
LessAt(a, b, k) == IF k > Len(a) THEN k <= Len(b)
                   ELSE IF k > Len(b) THEN FALSE
                   ELSE IF a[k] # b[k] THEN a[k] < b[k] ELSE LessAt(a, b, k + 1)
Less(a, b) == LessAt(a, b, 1)

Names == Data.names                     \* name index -> [text |-> string, codes |-> Seq(0..255)]
NN == Len(Names)
Hash(i) == Djb2(Names[i].codes)
\* each database: [label, ids : seq of [n, id], registry : seq of n, links : seq of [alias n, target n, resolves n]]
DBs == Data.dbs
IdOf(db, n) == LET S == {k \in 1..Len(db.ids) : db.ids[k].n = n} IN db.ids[CHOOSE k \in S : TRUE].id
HasId(db, n) == \E k \in 1..Len(db.ids) : db.ids[k].n = n

\* every id equals the hash of the full name
IdsAreDjb2(db) == {k \in 1..Len(db.ids) : <<db.ids[k].id[1], db.ids[k].id[2]>> # Hash(db.ids[k].n)}
\* ids are unique within a database
Collisions(db) == {<<a, b>> \in (1..Len(db.ids)) \X (1..Len(db.ids)) : a < b /\ db.ids[a].id = db.ids[b].id /\ db.ids[a].n # db.ids[b].n}
\* the registry lists every zone of the database exactly once, in ascending name order
RegistryBad(db) == {k \in 1..(Len(db.registry) - 1) : ~Less(Names[db.registry[k]].codes, Names[db.registry[k + 1]].codes)}
RegistryComplete(db) == db.zoneset = 0 \/ {db.registry[k] : k \in 1..Len(db.registry)} = {db.zones[k] : k \in 1..Len(db.zones)}
\* every link name denotes exactly its target zone
LinksBad(db) == {k \in 1..Len(db.links) : db.links[k].resolves # db.links[k].target}
\* the same name has the same id in every database and in the baseline
CrossBad == {<<a, b, n>> \in (1..Len(DBs)) \X (1..Len(DBs)) \X (1..NN) :
               a < b /\ HasId(DBs[a], n) /\ HasId(DBs[b], n) /\ IdOf(DBs[a], n) # IdOf(DBs[b], n)}
BaselineBad == {k \in 1..Len(Data.baseline) : \E d \in 1..Len(DBs) : HasId(DBs[d], Data.baseline[k].n) /\ IdOf(DBs[d], Data.baseline[k].n) # Data.baseline[k].id}
\* boundary strings hashed by the real transformer.hash_name
HashProbesBad == {k \in 1..Len(Data.probes) : <<Data.probes[k].id[1], Data.probes[k].id[2]>> # Djb2(Data.probes[k].codes)}

Verdict == [db \in 1..Len(DBs) |-> [label |-> DBs[db].label, notdjb2 |-> IdsAreDjb2(DBs[db]), collisions |-> Collisions(DBs[db]),
                                    registry |-> RegistryBad(DBs[db]), complete |-> RegistryComplete(DBs[db]), links |-> LinksBad(DBs[db])]]
ASSUME PrintT(ToJson([zoneids |-> Verdict, cross |-> CrossBad, baseline |-> BaselineBad, probes |-> HashProbesBad, nnames |-> NN]))
VARIABLE dummy
Spec == dummy = 0 /\ [][UNCHANGED dummy]_dummy
=============================================================================
