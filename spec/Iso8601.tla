------------------------------- MODULE Iso8601 -------------------------------
(***************************************************************************)
(* Printed forms and the chainable parsers (property C15).  Text is a      *)
(* sequence of character codes.  Print* produce exactly                    *)
(*   yyyy-mm-dd   hh:mm:ss   +hh:mm / -hh:mm   and their concatenations;   *)
(* Parse* are the library's parsers transcribed with their uint8 / int16   *)
(* digit arithmetic (they only look at positions, not separators).         *)
(***************************************************************************)
EXTENDS Integers, Sequences, TLC, Json
D(n) == 48 + n                             \* the digit character
Pad2(n) == <<D(n \div 10), D(n % 10)>>     \* printPad2To(n, '0') for 0 <= n <= 99
Dec(n) == IF n < 10 THEN <<D(n)>> ELSE IF n < 100 THEN Pad2(n)
          ELSE IF n < 1000 THEN <<D(n \div 100)>> \o Pad2(n % 100)
          ELSE <<D(n \div 1000), D((n \div 100) % 10)>> \o Pad2(n % 100)      \* Print::print(int) for 0 <= n <= 9999
Dash == 45  Colon == 58  Plus == 43  Tee == 84
PrintDate(y, m, d) == Dec(y) \o <<Dash>> \o Pad2(m) \o <<Dash>> \o Pad2(d)
PrintTime(h, mi, s) == Pad2(h) \o <<Colon>> \o Pad2(mi) \o <<Colon>> \o Pad2(s)
\* TimeOffset::printTo: the sign is taken from the total minutes, so -00:30 keeps its sign
TDiv(a, b) == IF a >= 0 THEN a \div b ELSE 0 - ((0 - a) \div b)
TMod(a, b) == a - b * TDiv(a, b)
PrintOffset(mins) == LET h == TDiv(mins, 60)  mi == TMod(mins, 60)
                     IN IF mins < 0 THEN <<Dash>> \o Pad2(0 - h) \o <<Colon>> \o Pad2(0 - mi)
                        ELSE <<Plus>> \o Pad2(h) \o <<Colon>> \o Pad2(mi)
PrintDateTime(y, m, d, h, mi, s) == PrintDate(y, m, d) \o <<Tee>> \o PrintTime(h, mi, s)
PrintOffsetDateTime(y, m, d, h, mi, s, off) == PrintDateTime(y, m, d, h, mi, s) \o PrintOffset(off)

\* ---- parsers (positions only; uint8 arithmetic for month/day/hour/minute/second, int16 for the year) ----
U8(x) == x % 256
I8(x) == ((x + 128) % 256) - 128
Dig(t, k) == t[k] - 48
ParseDate(t, p) == <<((Dig(t, p) * 10 + Dig(t, p + 1)) * 10 + Dig(t, p + 2)) * 10 + Dig(t, p + 3),
                     U8(10 * U8(Dig(t, p + 5)) + Dig(t, p + 6)), U8(10 * U8(Dig(t, p + 8)) + Dig(t, p + 9))>>
ParseTime(t, p) == <<U8(10 * U8(Dig(t, p)) + Dig(t, p + 1)), U8(10 * U8(Dig(t, p + 3)) + Dig(t, p + 4)), U8(10 * U8(Dig(t, p + 6)) + Dig(t, p + 7))>>
\* forOffsetStringChainable: error unless the first character is + or -; forHourMinute takes int8 arguments
ParseOffset(t, p) == IF t[p] # Plus /\ t[p] # Dash THEN "error"
                     ELSE LET h == U8(10 * U8(Dig(t, p + 1)) + Dig(t, p + 2))
                              mi == U8(10 * U8(Dig(t, p + 4)) + Dig(t, p + 5))
                          IN IF t[p] = Plus THEN I8(h) * 60 + I8(mi) ELSE I8(0 - h) * 60 + I8(0 - mi)
=============================================================================
