SPECIFICATION Spec
CONSTANTS DayStep = 7
 SecStep = 61
 DumpOn = TRUE
INVARIANT DateOK
INVARIANT TimeOK
INVARIANT OffsetOK
INVARIANT ChainOK
INVARIANT Dump
CHECK_DEADLOCK FALSE
