----------------------------- MODULE Sampler_Data -----------------------------
(* Completeness of the generated validation data on the real library zones     *)
(* (property C19): the step function is the library's own transition table,    *)
(* the items are what the real generator produced.  For every zone, every      *)
(* change of the library inside the range must be bracketed by two items at    *)
(* adjacent minutes (instants in seconds from 2000-01-01).                     *)
EXTENDS Integers, Sequences, FiniteSets, TLC, Json, IOUtils
Data == JsonDeserialize(IOEnv.SAMPLER_DATA)
Zones == Data.zones
ToSet(s) == {s[k] : k \in 1..Len(s)}
Bracketed(items, c) == \E e \in items : e < c /\ c <= e + 60 /\ (e + 60) \in items
Missing(z) == LET it == ToSet(z.items) IN {k \in 1..Len(z.changes) : ~Bracketed(it, z.changes[k])}
\* the transition items come in pairs one minute apart
Unpaired(z) == LET a == ToSet(z.left)  b == ToSet(z.right) IN {e \in a : (e + 60) \notin b} \cup {e \in b : (e - 60) \notin a}
ASSUME PrintT(ToJson([sampler |-> [k \in 1..Len(Zones) |-> [zone |-> Zones[k].zone, missing |-> Missing(Zones[k]), unpaired |-> Unpaired(Zones[k])]]]))
VARIABLE dummy
Spec == dummy = 0 /\ [][UNCHANGED dummy]_dummy
=============================================================================
