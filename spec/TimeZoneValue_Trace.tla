------------------------- MODULE TimeZoneValue_Trace -------------------------
(* Cases recorded from the real TimeZone / ZoneManager are judged by the     *)
(* specification's Save / Restore / Equal (conformance for C16).             *)
EXTENDS TimeZoneValue, Json, IOUtils
Cases == JsonDeserialize(IOEnv.TZV_CASES)
\* a save/restore case: [tz, mk, inreg, data, restored, eq_created]
SaveRestoreOK(c) ==
   LET tz == Tz(c.tz[1], c.tz[2], c.tz[3], c.tz[4])
       reg == IF c.inreg = 1 THEN {c.tz[2]} ELSE {}
       d == Save(tz)
       r == Restore(c.mk, reg, d)
   IN /\ <<d.type, d.id, d.std, d.dst>> = <<c.data[1], c.data[2], c.data[3], c.data[4]>>
      /\ <<r.kind, r.zone, r.std, r.dst>> = <<c.restored[1], c.restored[2], c.restored[3], c.restored[4]>>
      /\ (c.eq_created = 1) = (IsZoneKind(tz.kind) /\ c.inreg = 1)
      /\ (tz.kind = TzManual => c.utc = UtcOffsetOf(tz))      \* a manual zone's offset is standard plus DST
\* an equality case: [a, b, eq]
EqualOK(c) == (c.eq = 1) = Equal(Tz(c.a[1], c.a[2], c.a[3], c.a[4]), Tz(c.b[1], c.b[2], c.b[3], c.b[4]))
BadSave == {k \in 1..Len(Cases.save) : ~SaveRestoreOK(Cases.save[k])}
BadEq == {k \in 1..Len(Cases.eq) : ~EqualOK(Cases.eq[k])}
ASSUME PrintT(ToJson([tzv_bad_save |-> BadSave, tzv_bad_eq |-> BadEq, nsave |-> Len(Cases.save), neq |-> Len(Cases.eq)]))
=============================================================================
