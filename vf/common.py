"""Shared plumbing for the /verif checks (stdlib only).

  * paths, environment (VERIF_SEED, VERIF_TIER)
  * host build of the library under test from /repo's *current working tree*
    (object cache keyed by the SHA-256 of every input, so an edited source is
    always recompiled and an unedited one never is)
  * TLC runner (timeout-wrapped, private metadir, stats parsed from output)
  * evidence / replay / known-findings / verdict plumbing

Exit codes of a check: 0 held, 1 violation (with VIOLATION line), 2 machinery
failure (never expected on the unchanged tree).
"""
import concurrent.futures
import glob
import hashlib
import json
import os
import re
import shutil
import subprocess
import sys
import time

VERIF = os.path.dirname(os.path.dirname(os.path.abspath(__file__)))
REPO = os.environ.get("VERIF_REPO", "/repo")
BUILD = os.environ.get("VERIF_BUILD", os.path.join(VERIF, "build"))
SPEC = os.path.join(VERIF, "spec")
HARNESS = os.path.join(VERIF, "harness")
SHIM = os.path.join(VERIF, "hostshim")
EVIDENCE = os.environ.get("VERIF_EVIDENCE", os.path.join(VERIF, "evidence"))
REPLAYS = os.environ.get("VERIF_REPLAYS", os.path.join(VERIF, "replays"))
DATA = os.path.join(VERIF, "data")
PY = "/venv/bin/python"
NCPU = os.cpu_count() or 4

# hooks in /repo are compiled in only when this environment variable is set
HOOK_GUARD_ENV = "ACETIME_VERIF"
HOOK_MACRO = "ACE_TIME_VERIF_HOOKS"


class MachineryError(Exception):
    pass


def seed():
    try:
        return int(os.environ.get("VERIF_SEED", "0"))
    except ValueError:
        return 0


def sha256_files(paths, extra=""):
    h = hashlib.sha256()
    h.update(extra.encode())
    for p in sorted(paths):
        h.update(p.encode())
        with open(p, "rb") as f:
            h.update(f.read())
    return h.hexdigest()


def mkdir(p):
    os.makedirs(p, exist_ok=True)
    return p


def scratch(name):
    """fresh scratch directory under build/ (removed and recreated)"""
    p = os.path.join(BUILD, "scratch", name)
    shutil.rmtree(p, ignore_errors=True)
    os.makedirs(p)
    return p


# --------------------------------------------------------------------------
# C++ build of the code under test
# --------------------------------------------------------------------------
FLAVORS = {
    # dense sweeps
    "opt": ["g++", "-std=c++11", "-O2", "-g0", "-w"],
    # replay of histories and error paths, with sanitizers as monitors
    "san": ["clang++", "-std=c++11", "-O1", "-g", "-w",
            "-fsanitize=address,undefined", "-fno-sanitize-recover=undefined",
            "-fno-omit-frame-pointer"],
    # UB reported but execution continues (used to enumerate all UB sites)
    "sanrec": ["clang++", "-std=c++11", "-O1", "-g", "-w",
               "-fsanitize=address,undefined", "-fsanitize-recover=address", "-fno-omit-frame-pointer"],
}


def repo_src_files():
    out = []
    for root, _dirs, files in os.walk(os.path.join(REPO, "src")):
        for f in files:
            if f.endswith((".h", ".cpp", ".inc")):
                out.append(os.path.join(root, f))
    return sorted(out)


def lib_cpp_files():
    pats = ["src/ace_time/*.cpp", "src/ace_time/common/*.cpp",
            "src/ace_time/zonedb/*.cpp", "src/ace_time/zonedbx/*.cpp"]
    out = []
    for p in pats:
        out += sorted(glob.glob(os.path.join(REPO, p)))
    return out


def _cflags(flavor, hooks=True, extra=()):
    # include directories given in `extra` are searched before the repository's (generated variants of single headers)
    fl = list(FLAVORS[flavor]) + ["-DUNIX_HOST_DUINO"] + [x for x in extra if x.startswith("-I")] + ["-I" + SHIM,
                                  "-I" + os.path.join(REPO, "src"), "-I" + HARNESS]
    if hooks:
        fl.append("-D%s=1" % HOOK_MACRO)
    fl += [x for x in extra if not x.startswith("-I")]
    return fl


def _run(cmd, **kw):
    r = subprocess.run(cmd, stdout=subprocess.PIPE, stderr=subprocess.STDOUT, text=True, **kw)
    return r.returncode, r.stdout


def _compile_one(args):
    src, obj, flags = args
    rc, out = _run(flags + ["-c", src, "-o", obj])
    return src, rc, out


def build_binary(name, sources, flavor="opt", hooks=True, extra_flags=(), extra_sources=(), link_flags=()):
    """Compile harness `sources` (paths under harness/ or absolute) + the whole
    library from REPO's working tree; returns the path of the executable.
    Everything that influences the result is hashed into the cache key."""
    os.environ[HOOK_GUARD_ENV] = "1"
    srcs = [s if os.path.isabs(s) else os.path.join(HARNESS, s) for s in sources]
    srcs += list(extra_sources)
    flags = _cflags(flavor, hooks, extra_flags)
    hdrs = repo_src_files() + glob.glob(os.path.join(SHIM, "*.h")) + glob.glob(os.path.join(HARNESS, "*.h")) + glob.glob(os.path.join(HARNESS, "*.inc"))
    key = sha256_files(hdrs + srcs, extra=" ".join(flags) + "|" + " ".join(link_flags))[:24]
    outdir = mkdir(os.path.join(BUILD, "bin", "%s-%s-%s" % (name, flavor, key)))
    exe = os.path.join(outdir, name)
    if os.path.exists(exe):
        return exe
    # drop stale builds of the same name/flavor to bound disk use
    for old in glob.glob(os.path.join(BUILD, "bin", "%s-%s-*" % (name, flavor))):
        if old != outdir:
            shutil.rmtree(old, ignore_errors=True)
    jobs = []
    objs = []
    for s in lib_cpp_files() + srcs:
        tag = hashlib.sha256(s.encode()).hexdigest()[:10]
        obj = os.path.join(outdir, os.path.basename(s) + "." + tag + ".o")
        objs.append(obj)
        jobs.append((s, obj, flags))
    with concurrent.futures.ThreadPoolExecutor(max_workers=NCPU) as ex:
        for src, rc, out in ex.map(_compile_one, jobs):
            if rc != 0:
                shutil.rmtree(outdir, ignore_errors=True)
                raise MachineryError("compile failed: %s\n%s" % (src, out[-4000:]))
    rc, out = _run(flags + objs + ["-o", exe + ".tmp"] + list(link_flags))
    if rc != 0:
        shutil.rmtree(outdir, ignore_errors=True)
        raise MachineryError("link failed: %s" % out[-4000:])
    os.rename(exe + ".tmp", exe)
    for o in objs:
        try:
            os.remove(o)
        except OSError:
            pass
    return exe


def san_env():
    e = dict(os.environ)
    e["ASAN_OPTIONS"] = "detect_leaks=0:abort_on_error=0:exitcode=99:allocator_may_return_null=1"
    e["UBSAN_OPTIONS"] = "print_stacktrace=1:halt_on_error=1:exitcode=98"
    return e


def run_cmd(cmd, timeout=None, env=None, cwd=None, input=None):
    t0 = time.time()
    try:
        r = subprocess.run(cmd, stdout=subprocess.PIPE, stderr=subprocess.PIPE, text=True,
                           timeout=timeout, env=env, cwd=cwd, input=input)
        return r.returncode, r.stdout, r.stderr, time.time() - t0
    except subprocess.TimeoutExpired as e:
        return -999, (e.stdout or b"").decode("utf8", "replace") if isinstance(e.stdout, bytes) else (e.stdout or ""), "TIMEOUT", time.time() - t0


# --------------------------------------------------------------------------
# TLC
# --------------------------------------------------------------------------
class TlcResult:
    def __init__(self):
        self.rc = None
        self.out = ""
        self.generated = 0
        self.distinct = 0
        self.depth = 0
        self.wall = 0.0
        self.ok = False
        self.violated = []      # names of violated invariants / properties
        self.timed_out = False
        self.cmd = ""
        self.prints = []        # lines printed by PrintT / Print
        self.coverage = {}      # action name -> count (when -coverage)


_counter = [0]
TLA_CP = "/opt/veriftools/tla/tla2tools.jar:/opt/veriftools/tla/CommunityModules-deps.jar"


def run_tlc(module, cfg=None, env=None, workers=None, timeout=600, extra=(), simulate=None, depth=None,
            seed_=None, coverage=False, cwd=SPEC, dfs=False, cont=False, java_opts=(), _retry=True):
    """Run TLC on spec/<module>.tla with spec/<cfg>; returns TlcResult."""
    res = _run_tlc(module, cfg, env, workers, timeout, extra, simulate, depth, seed_, coverage, cwd, dfs, cont, java_opts)
    if _retry and not res.ok and not res.violated and not res.timed_out and 'Error:' not in res.out and 'error' not in res.out.lower():
        # the JVM ended without a verdict and without an error message (seen once under heavy parallel load): run it again
        sys.stderr.write('note: TLC gave no verdict for %s (rc=%s); running it once more\n%s\n' % (module, res.rc, res.out[-1500:]))
        res = _run_tlc(module, cfg, env, workers, timeout, extra, simulate, depth, seed_, coverage, cwd, dfs, cont, java_opts)
    return res


def _run_tlc(module, cfg, env, workers, timeout, extra, simulate, depth, seed_, coverage, cwd, dfs, cont, java_opts):
    _counter[0] += 1
    meta = mkdir(os.path.join(BUILD, "tlc", "%s-%d-%d" % (module, os.getpid(), _counter[0])))
    # java is started directly (same class path as the `tlc` wrapper) so that -Xss is on the *command line*: the launcher
    # sizes the main thread -- which evaluates ASSUMEs and computes the initial states -- from its own arguments only;
    # a -Xss in JAVA_TOOL_OPTIONS reaches the worker threads but not the main thread, whose deep (finite) recursions
    # then overflow when the JIT is starved and frames stay interpreted (seen under load)
    jopts = ["-Xss512m", "-Djava.io.tmpdir=" + meta] + list(java_opts)      # (TLC's own scratch directory goes with the metadir, not to /tmp)
    if dfs:
        jopts.append("-Dtlc2.tool.queue.IStateQueue=StateDeque")
    cmd = ["java"] + jopts + ["-XX:+UseParallelGC", "-cp", TLA_CP, "tlc2.TLC", "-metadir", meta, "-noGenerateSpecTE", "-workers", str(workers or NCPU)]
    if cfg:
        cmd += ["-config", cfg]
    if simulate:
        cmd += ["-simulate", simulate]
    if depth:
        cmd += ["-depth", str(depth)]
    if seed_ is not None:
        cmd += ["-seed", str(seed_)]
    if coverage:
        cmd += ["-coverage", "1"]
    if cont:
        cmd += ["-continue"]
    cmd += list(extra)
    cmd += [module + ".tla" if not module.endswith(".tla") else module]
    e = dict(os.environ)
    if env:
        e.update({k: str(v) for k, v in env.items()})
    e["JAVA_TOOL_OPTIONS"] = "-Xss64m"      # threads TLC creates itself
    res = TlcResult()
    res.cmd = " ".join(cmd)
    t0 = time.time()
    try:
        r = subprocess.run(["timeout", "-k", "5", str(timeout)] + cmd, cwd=cwd, env=e,
                           stdout=subprocess.PIPE, stderr=subprocess.STDOUT, text=True)
        res.rc = r.returncode
        res.out = r.stdout
    finally:
        shutil.rmtree(meta, ignore_errors=True)
    res.wall = time.time() - t0
    res.timed_out = res.rc in (124, 137)
    m = None
    for m in re.finditer(r"(\d+) states generated, (\d+) distinct states found", res.out):
        pass
    if m:
        res.generated = int(m.group(1))
        res.distinct = int(m.group(2))
    m = re.search(r"The depth of the complete state graph search is (\d+)", res.out)
    if m:
        res.depth = int(m.group(1))
    for m in re.finditer(r"Invariant (\S+) is violated", res.out):
        res.violated.append(m.group(1))
    for m in re.finditer(r"Action property (\S+) is violated|Temporal properties were violated|property (\S+) .*violated", res.out):
        res.violated.append(m.group(1) or m.group(2) or "temporal")
    if "Deadlock reached" in res.out:
        res.violated.append("Deadlock")
    if coverage:
        for m in re.finditer(r"<(\w+) line \d+, col \d+ to line \d+, col \d+ of module (\w+)>: (\d+):(\d+)", res.out):
            res.coverage[m.group(1)] = res.coverage.get(m.group(1), 0) + int(m.group(4))
    res.ok = (res.rc == 0 and "Model checking completed. No error has been found" in res.out) or \
             (simulate is not None and res.rc == 0 and not res.violated)
    return res


def tlc_must_pass(res, what):
    if not res.ok:
        raise MachineryError("TLC did not accept %s (rc=%s, violated=%s, timed_out=%s; output ends: %s)\n%s\n%s" % (
            what, res.rc, res.violated, res.timed_out, " | ".join(res.out.strip().splitlines()[-4:])[-400:], res.cmd, res.out[-3000:]))


def tlc_prints(out):
    """values printed with PrintT(ToJson(x)) -- each is a JSON string containing JSON"""
    vals = []
    for line in out.splitlines():
        line = line.strip()
        if line.startswith('"{') or line.startswith('"['):
            try:
                vals.append(json.loads(json.loads(line)))
            except Exception:
                pass
    return vals


# --------------------------------------------------------------------------
# verdicts, evidence, known findings
# --------------------------------------------------------------------------
def load_known():
    p = os.path.join(VERIF, "known_findings.json")
    if not os.path.exists(p):
        return []
    return json.load(open(p))["findings"]


class Check:
    """Collects violations and coverage for one property run and produces the
    verdict / evidence / replay files."""

    def __init__(self, pid, tier, level):
        self.pid = pid
        self.tier = tier
        self.level = level
        self.t0 = time.time()
        self.violations = []   # (key, description, replay-dict)
        self.known_hits = []
        self.cov = {"samples": []}
        self.assumptions = []
        self.known = [k for k in load_known() if k.get("property") == pid and k.get("status") == "known"]
        self.notes = []

    def add(self, **kw):
        for k, v in kw.items():
            if isinstance(v, int) and not isinstance(v, bool) and isinstance(self.cov.get(k), int):
                self.cov[k] += v
            else:
                self.cov[k] = v

    def sample(self, s, cap=12):
        if len(self.cov["samples"]) < cap:
            self.cov["samples"].append(s)

    def assume(self, text):
        if text not in self.assumptions:
            self.assumptions.append(text)

    def violation(self, key, desc, replay=None):
        """key: stable identifier of the failing input / call site / history,
        matched against known_findings.json entries (regex `match`)."""
        for k in self.known:
            if re.search(k["match"], key):
                if not any(h[0] is k for h in self.known_hits):
                    self.known_hits.append((k, key, desc))
                return False
        if len(self.violations) < 200:
            self.violations.append((key, desc, replay if replay is not None else {}))
        else:
            self.violations.append((key, desc, None))
        return True

    def finish(self):
        mkdir(EVIDENCE)
        wall = time.time() - self.t0
        replay_path = None
        if self.violations:
            d = mkdir(os.path.join(REPLAYS, self.pid))
            replay_path = os.path.join(d, "%s-%s-seed%d.json" % (self.pid, self.tier, seed()))
            json.dump({"property": self.pid, "tier": self.tier, "seed": seed(),
                       "violations": [{"key": k, "what": w, "replay": r} for k, w, r in self.violations[:200]],
                       "total": len(self.violations)}, open(replay_path, "w"), indent=1, default=str)
        ev = {"property_id": self.pid, "tier": self.tier, "seed": seed(), "level": self.level,
              "coverage": self.cov, "assumptions": self.assumptions, "wall_s": round(wall, 2),
              "violations": len(self.violations)}
        if self.known_hits:
            ev["known_findings_observed"] = [k["match"] for k, _key, _d in self.known_hits]
        if self.notes:
            ev["notes"] = self.notes
        json.dump(ev, open(os.path.join(EVIDENCE, self.pid + ".json"), "w"), indent=1, default=str)
        for k, key, desc in self.known_hits:
            print("KNOWN-FINDING: property=%s %s [%s]" % (self.pid, k.get("what", ""), key))
        if self.violations:
            for key, desc, _r in self.violations[:20]:
                print("  violation: %s :: %s" % (key, desc))
            if len(self.violations) > 20:
                print("  ... %d violations in total" % len(self.violations))
            print("VIOLATION property=%s replay=%s" % (self.pid, replay_path))
            return 1
        print("OK property=%s tier=%s wall=%.1fs %s" % (self.pid, self.tier, wall, json.dumps(
            {k: v for k, v in self.cov.items() if k != "samples" and not isinstance(v, (list, dict))})))
        return 0


def pmap(fn, items, workers=None):
    """process-parallel map preserving order (fn must be picklable: top level)"""
    if not items:
        return []
    with concurrent.futures.ProcessPoolExecutor(max_workers=workers or NCPU) as ex:
        return list(ex.map(fn, items))


def tmap(fn, items, workers=None):
    if not items:
        return []
    with concurrent.futures.ThreadPoolExecutor(max_workers=workers or NCPU) as ex:
        return list(ex.map(fn, items))
