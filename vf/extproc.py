"""Glue for spec/ExtProc.tla (algorithm of ExtendedZoneProcessor::init): export of compiled tables as the model's input,
the real processor's finished tables as observations, and the TLC run that judges them."""
import json
import os
import re
from . import common


def dump_tables(dbdump_exe, scope='extended'):
    rc, out, err, _ = common.run_cmd([dbdump_exe, scope], timeout=300)
    if rc != 0:
        raise common.MachineryError('dbdump failed: ' + err[-400:])
    return json.loads(out)


def model_from_dbdump(d, y0, y1, only=None, ylast=None):
    """pure re-labelling of what the brokers return (no computation)"""
    zones = []
    for z in d['zones']:
        if only is not None and z['name'] not in only:
            continue
        zones.append({'name': z['name'], 'startYear': z['startYear'], 'untilYear': z['untilYear'], 'bufSize': z['bufSize'],
                      'eras': [{'pol': e['policy'] + 1, 'fmt': e['format'], 'off': e['offsetMinutes'], 'delta': e['deltaMinutes'], 'uy': e['untilYear'],
                                'um': e['untilMonth'], 'ud': e['untilDay'], 'umin': e['untilMinutes'], 'usuf': e['untilSuffix']} for e in z['eras']]})
    pols = [[{'fr': r['fromYear'], 'to': r['toYear'], 'mon': r['inMonth'], 'dow': r['onDayOfWeek'], 'dom': r['onDayOfMonth'], 'at': r['atMinutes'],
              'suf': r['atSuffix'], 'delta': r['deltaMinutes'], 'letter': ('' if (r['letterRaw'] >= 32 and r['letter'] == '-') else r['letter'])} for r in rules]
            for rules in d['policies']]
    return {'zones': zones, 'policies': pols, 'y0': y0, 'y1': y1, 'ylast': ylast if ylast is not None else y1}


def impl_tables(pairdrv_exe, nz, y0, y1, chunk=25, mode='tables'):
    def job(rng):
        rc, out, err, _ = common.run_cmd([pairdrv_exe, mode, str(rng[0]), str(rng[1]), str(y0), str(y1)], timeout=3000)
        return rng, rc, out, err
    obs = {}
    for rng, rc, out, err in common.tmap(job, [(i, min(i + chunk, nz)) for i in range(0, nz, chunk)]):
        if rc != 0:
            raise common.MachineryError('pairdrv tables %s failed rc=%s %s' % (rng, rc, err[-400:]))
        for l in out.splitlines():
            if l.startswith('{'):
                r = json.loads(l)
                obs[r['zone']] = r['years']
    return obs


def run(model, obs, work, tag='', timeout=3000, which='ExtProc', invariants=None, wall=None):
    mp = os.path.join(work, '%s_model%s.json' % (which, tag))
    op = os.path.join(work, '%s_obs%s.json' % (which, tag))
    json.dump(model, open(mp, 'w'))
    json.dump(dict(obs, __none__={}), open(op, 'w'))
    cfg = which + '_MC.cfg'
    wp = os.path.join(work, '%s_wall%s.json' % (which, tag))
    json.dump(dict(wall or {}, __none__={}), open(wp, 'w'))
    if invariants is not None:
        # a chosen subset of the design invariants (binding and output are always on)
        cfg = os.path.join(work, '%s_MC%s.cfg' % (which, tag))
        open(cfg, 'w').write('SPECIFICATION Spec\n' + ''.join('INVARIANT %s\n' % i for i in list(invariants) + ['Judge', 'Done', 'WallJudge'] + (['Hazards'] if which == 'ExtProc' else [])) + 'CHECK_DEADLOCK FALSE\n')
    res = common.run_tlc(which + '_MC', cfg, env={which.upper() + '_MODEL': mp, which.upper() + '_OBS': op, which.upper() + '_WALL': wp}, timeout=timeout)
    bad, pieces, stale = [], {}, []
    for v in common.tlc_prints(res.out):
        if isinstance(v, dict):
            if 'bad' in v:
                bad.append(v)
            elif 'zone' in v:
                pieces[v['zone']] = v['pieces']
            elif 'stale' in v:
                stale.append((v['stale'], v['year']))
            elif 'wbad' in v:
                bad.append(v)
    return res, bad, pieces, stale


SPECS = {'extended': ('ExtProc', 'tables', 'zonedbx', 'ExtendedZoneProcessor::init'), 'basic': ('BasicProc', 'btables', 'zonedb', 'BasicZoneProcessor::init')}


def check_shipped(chk, scope='extended', y0=2000, y1=2049, ylast=2050):
    """ExtProc.tla / BasicProc.tla on the shipped database: (1) the real processor's finished table (and match count, pool
    high-water mark / dropped transitions) equals the model's for every zone x year; (2) the model's own invariants; (3) the
    model's step function is accepted by TzSem.tla on the recorded source lines."""
    from . import dbsource
    which, mode, dbdir, _ = SPECS[scope]
    dd = common.build_binary('dbdump', ['dbdump.cpp'], 'opt')
    pd = common.build_binary('pairdrv', ['pairdrv.cpp'], 'opt')
    d = dump_tables(dd, scope)
    work = common.scratch('%s-%s-%s' % (chk.pid, which, dbdir))
    lines, _links = dbsource.reconstruct(os.path.join(common.REPO, 'src/ace_time', dbdir))
    return check_tables(chk, dbdir, d, impl_tables(pd, len(d['zones']), y0 - 1, ylast, mode=mode), lines, work, y0, y1, ylast, scope=scope)


def check_tables(chk, label, d, obs, lines, work, y0=2000, y1=2049, ylast=2050, known_bad=(), scope='extended', invariants=None):
    from . import tzconf, tzparse
    which, _mode, _dbdir, fn = SPECS[scope]
    model = model_from_dbdump(d, y0, y1, ylast=ylast)
    res, bad, pieces, stale = run(model, obs, work, which=which, tag='-' + re.sub(r'[^A-Za-z0-9]', '_', label), invariants=invariants)
    if not res.ok:
        for inv in res.violated:
            m = re.search(r'/\\ z = (\d+)', res.out)
            my = re.search(r'/\\ y = (\d+)', res.out)
            zname = model['zones'][int(m.group(1)) - 1]['name'] if m else '?'
            chk.violation('%s:%s:%s:%s' % (label, which, inv, zname), 'TLC: invariant %s of %s.tla fails on the tables of %s (zone %s, year %s)' % (inv, which, label, zname, my.group(1) if my else '?'),
                          {'invariant': inv, 'zone': zname, 'tlc': res.out[-2500:]})
        if not res.violated:
            raise common.MachineryError('%s_MC failed: %s' % (which, res.out[-1500:]))
    names = [z['name'] for z in model['zones']]
    if res.ok and set(pieces) != set(names):
        raise common.MachineryError('%s_MC finished %d zones of %d' % (which, len(pieces), len(names)))
    for b in [x for x in bad if 'wbad' in x]:
        chk.violation('%s:%s:%d:wall-algorithm' % (label, b['wbad'], b['year']),
                      'forComponents on %s, wall time day %s sec %s (local year %d): the code answers [day, sec, shift, offset, err] = %s, the %s.tla algorithm gives %s (%d piece(s) of that year differ)' % (
                          b['wbad'], b['at'][0], b['at'][1], b['year'], b['impl'], which, b['model'], b['nbad']), b)
    for b in [x for x in bad if 'bad' in x]:
        m, i = b['model'], b['impl']
        keys = [k for k in ('filled', 'nm', 'hw', 'dropped') if k in m and int(m[k]) != int(i[k])]
        k = next((j for j in range(min(len(m['rows']), len(i['rows']))) if m['rows'][j] != i['rows'][j]), min(len(m['rows']), len(i['rows'])))
        chk.violation('%s:%s:%d:table' % (label, b['bad'], b['year']),
                      '%s(%d) of %s differs from %s.tla in %s (model: %s row %d=%s; real: %s row %d=%s)' % (
                          fn, b['year'], b['bad'], which, ', '.join(keys) or 'the rows', {q: m[q] for q in m if q != 'rows'}, k, m['rows'][k] if k < len(m['rows']) else None,
                          {q: i[q] for q in i if q != 'rows'}, k, i['rows'][k] if k < len(i['rows']) else None), b)
    for zname, yr in stale:
        chk.violation('%s:%s:%d:stale-active-flag' % (label, zname, yr), 'ExtProc.tla: in init(%d) of %s a candidate transition reaches addActiveCandidatesToActivePool with an `active` flag no branch assigned (answer depends on what the pooled object held before)' % (yr, zname), {'zone': zname, 'year': yr})
    nsem = 0
    if lines is not None and pieces:
        rules, zones, _ = tzparse.parse(lines)
        mp = os.path.join(work, 'sem_model.json')
        judged = set(n for n in pieces if n in zones)
        tzparse.write_model(mp, rules, zones, only=judged)
        op = os.path.join(work, 'sem_obs.json')
        json.dump({'impl': dict({n: pieces[n] for n in judged}, __none__=[]), 'zic': {'__none__': []}}, open(op, 'w'))
        r2, verdicts = tzconf.run_tzsem(mp, op)
        for n in sorted(judged):
            v = verdicts.get(n)
            if v is None:
                raise common.MachineryError('TzSem gave no verdict for %s' % n)
            nsem += 1
            if not v['impl']['ok'] and n not in known_bad:
                chk.violation('%s:%s:algorithm-vs-semantics' % (label, n), 'the step function %s.tla computes from the compiled tables of %s differs from TzSem.tla on the source lines at piece %s: algorithm=%s semantics=%s' % (
                    which, n, v['impl']['at'], v['impl']['obs'], v['impl']['spec']), {'zone': n})
    nty = sum(len(v) for v in obs.values())
    lw = which.lower()
    chk.add(**{lw + '_states': res.distinct, lw + '_tables_bound_to_real_processor': nty, lw + '_zones_judged_by_tzsem': nsem})
    return res, bad, pieces


def _days(y, m, d):
    import datetime
    return (datetime.date(y, m, d) - datetime.date(2000, 1, 1)).days


def split_windows_by_year(wobs):
    """{zone: [{w0, w1, pieces}]} -> {zone: {year: [{w0, w1, pieces}]}}: windows are cut at every Jan 1 00:00 on the local
    clock (a piece that runs across the cut continues, with its value, as the first piece of the next part)"""
    import datetime
    out = {}
    for z, wins in wobs.items():
        per = {}
        for w in wins:
            a, b = tuple(w['w0']), tuple(w['w1'])
            ps = [list(p) for p in w['pieces']]
            ya = (datetime.date(2000, 1, 1) + datetime.timedelta(days=a[0])).year
            last = (b[0], b[1] - 1) if b[1] > 0 else (b[0] - 1, 86399)
            yb = (datetime.date(2000, 1, 1) + datetime.timedelta(days=last[0])).year
            for y in range(ya, yb + 1):
                lo = max(a, (_days(y, 1, 1), 0))
                hi = min(b, (_days(y + 1, 1, 1), 0))
                part = [p for p in ps if lo <= (p[0], p[1]) < hi]
                before = [p for p in ps if (p[0], p[1]) < lo]
                if (not part or (part[0][0], part[0][1]) != lo) and before:
                    part = [[lo[0], lo[1]] + before[-1][2:]] + part
                if part:
                    per.setdefault(str(y), []).append({'w0': list(lo), 'w1': list(hi), 'pieces': part})
        out[z] = per
    return out


def check_wall_algorithm(chk, label, scope, wobs, work):
    """the recorded resolutions of forComponents judged against the algorithm-level specification (exact equality)"""
    which = SPECS[scope][0]
    dd = common.build_binary('dbdump', ['dbdump.cpp'], 'opt')
    d = dump_tables(dd, scope)
    model = model_from_dbdump(d, 2000, 2049, only=set(wobs), ylast=2050)
    wall = split_windows_by_year(wobs)
    res, bad, pieces, stale = run(model, {}, work, which=which, tag='-wall', invariants=[], wall=wall, timeout=6000)
    if not res.ok:
        raise common.MachineryError('%s_MC (wall) failed: %s' % (which, res.out[-1500:]))
    for b in [x for x in bad if 'wbad' in x]:
        chk.violation('%s:%s:%d:wall-algorithm' % (label, b['wbad'], b['year']),
                      'forComponents on %s, wall time day %s sec %s (local year %d): the code answers [day, sec, shift, offset, err] = %s, the %s.tla algorithm gives %s (%d piece(s) of that year differ)' % (
                          b['wbad'], b['at'][0], b['at'][1], b['year'], b['impl'], which, b['model'], b['nbad']), b)
    nw = sum(len(v) for per in wall.values() for v in per.values())
    chk.add(**{'wall_windows_judged_by_%s' % which.lower(): nw})
    return res
