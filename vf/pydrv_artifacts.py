"""Extracts the abstract contents of one compilation's generated files (C20).
usage: pydrv_artifacts.py <out_dir>   (out_dir as written by pydrv_compile with flags arduino python inmem) -> JSON on stdout"""
import hashlib
import importlib.util
import json
import os
import re
import sys

out = sys.argv[1]
res = json.load(open(os.path.join(out, 'result.json')))


def digest(x):
    return hashlib.sha256(json.dumps(x, sort_keys=True).encode()).hexdigest()[:16]


def load(path, name):
    spec = importlib.util.spec_from_file_location(name, path)
    m = importlib.util.module_from_spec(spec)
    sys.modules[name] = m
    spec.loader.exec_module(m)
    return m


pydir = os.path.join(out, 'python')
sys.path.insert(0, pydir)
# the generated zone_infos.py does "from .zone_policies import *": import it as a package
pkg = 'genpkg_%s' % digest(out)
spec = importlib.util.spec_from_file_location(pkg, os.path.join(pydir, '__init__.py'), submodule_search_locations=[pydir])
if not os.path.exists(os.path.join(pydir, '__init__.py')):
    open(os.path.join(pydir, '__init__.py'), 'w').write('')
m = importlib.util.module_from_spec(spec)
sys.modules[pkg] = m
spec.loader.exec_module(m)
zi = importlib.import_module(pkg + '.zone_infos')
zp = importlib.import_module(pkg + '.zone_policies')


def clean_info(z):
    return {'name': z['name'], 'eras': [{k: ({'rules': v['rules']} if k == 'zonePolicy' and isinstance(v, dict) else v) for k, v in e.items()} for e in z['eras']]}


py_infos = {z['name']: clean_info(z) for z in zi.ZONE_INFO_MAP.values()}
in_infos = {z['name']: z for z in res['inmem_infos'].values()}
names = sorted(set(py_infos) | set(in_infos))
py_pol = {k: {'rules': v['rules']} for k, v in zp.ZONE_POLICY_MAP.items()}
in_pol = {k: {'rules': v['rules']} for k, v in res['inmem_policies'].items()}
pnames = sorted(set(py_pol) | set(in_pol))
first_diff = None
for n in names:
    if py_infos.get(n) != in_infos.get(n) and first_diff is None:
        first_diff = ['zone', n, py_infos.get(n), in_infos.get(n)]
for n in pnames:
    if py_pol.get(n) != in_pol.get(n) and first_diff is None:
        first_diff = ['policy', n]
counts = []
src = open(os.path.join(pydir, 'zone_infos.py')).read()
counts.append({'what': 'zone_infos.py numInfos', 'stated': int(re.search(r'# numInfos: (\d+)', src).group(1)), 'actual': len(zi.ZONE_INFO_MAP)})
counts.append({'what': 'zone_infos.py numEras', 'stated': int(re.search(r'# numEras: (\d+)', src).group(1)), 'actual': sum(len(z['eras']) for z in zi.ZONE_INFO_MAP.values())})
srcp = open(os.path.join(pydir, 'zone_policies.py')).read()
counts.append({'what': 'zone_policies.py numPolicies', 'stated': int(re.search(r'# numPolicies: (\d+)', srcp).group(1)), 'actual': len(zp.ZONE_POLICY_MAP)})
counts.append({'what': 'zone_policies.py numRules', 'stated': int(re.search(r'# numRules: (\d+)', srcp).group(1)), 'actual': sum(len(p['rules']) for p in zp.ZONE_POLICY_MAP.values())})
for m2 in re.finditer(r'# Zone name: (\S+)\n# Era count: (\d+)', src):
    if m2.group(1) in py_infos and int(m2.group(2)) != len(py_infos[m2.group(1)]['eras']):
        counts.append({'what': 'Era count of %s' % m2.group(1), 'stated': int(m2.group(2)), 'actual': len(py_infos[m2.group(1)]['eras'])})
ard = os.path.join(out, 'arduino')
h = open(os.path.join(ard, 'zone_infos.h')).read()
cpp = open(os.path.join(ard, 'zone_infos.cpp')).read()
reg = open(os.path.join(ard, 'zone_registry.cpp')).read()
regh = open(os.path.join(ard, 'zone_registry.h')).read()
pol = open(os.path.join(ard, 'zone_policies.cpp')).read()
nz_h = len(re.findall(r'extern const \w+::ZoneInfo kZone\w+;', h))
nl_h = len(re.findall(r'extern const \w+::ZoneInfo& kZone\w+;', h))
counts.append({'what': 'zone_infos.h "Supported zones"', 'stated': int(re.search(r'// Supported zones: (\d+)', h).group(1)), 'actual': nz_h})
counts.append({'what': 'zone_infos.h "Supported links"', 'stated': int(re.search(r'// Supported links: (\d+)', h).group(1)), 'actual': nl_h})
counts.append({'what': 'zone_infos.h "Unsupported zones"', 'stated': int(re.search(r'// Unsupported zones: (\d+)', h).group(1)), 'actual': len(res['removed_zones'])})
counts.append({'what': 'zone_infos.h "Unsupported links"', 'stated': int(re.search(r'// Unsupported links: (\d+)', h).group(1)), 'actual': len(res['removed_links'])})
ph = open(os.path.join(ard, 'zone_policies.h')).read()
counts.append({'what': 'zone_policies.h "Supported zone policies"', 'stated': int(re.search(r'// Supported zone policies: (\d+)', ph).group(1)), 'actual': len(re.findall(r'^extern const \w+::ZonePolicy kPolicy\w+;', ph, re.M))})
counts.append({'what': 'zone_policies.cpp "// Policies:"', 'stated': int(re.search(r'// Policies: (\d+)', pol).group(1)), 'actual': len(re.findall(r'^const \w+::ZonePolicy kPolicy\w+ ACE_TIME_PROGMEM', pol, re.M))})
counts.append({'what': 'zone_policies.cpp "// Rules:"', 'stated': int(re.search(r'// Rules: (\d+)', pol).group(1)), 'actual': len(re.findall(r'/\*fromYearTiny\*/', pol))})
counts.append({'what': 'zone_infos.cpp "// Zones:"', 'stated': int(re.search(r'// Zones: (\d+)', cpp).group(1)), 'actual': len(re.findall(r'^const \w+::ZoneInfo kZone\w+ ACE_TIME_PROGMEM', cpp, re.M))})
counts.append({'what': 'zone_infos.cpp "// Links:"', 'stated': int(re.search(r'// Links: (\d+)', cpp).group(1)), 'actual': len(re.findall(r'^const \w+::ZoneInfo& kZone\w+ = ', cpp, re.M))})
counts.append({'what': 'kZoneRegistrySize', 'stated': int(re.search(r'kZoneRegistrySize = (\d+)', regh).group(1)), 'actual': len(re.findall(r'^\s+&kZone\w+,', reg, re.M))})
for m2 in re.finditer(r'// Zone name: (\S+)\n// Zone Eras: (\d+)', cpp):
    zsym = re.sub(r'[^0-9a-zA-Z]', '_', m2.group(1))
    body = re.search(r'kZoneEra%s\[\] ACE_TIME_PROGMEM = \{(.*?)\n\};' % re.escape(zsym), cpp, re.S)
    actual = len(re.findall(r'/\*zonePolicy\*/', body.group(1))) if body else -1
    m3 = re.search(r'(\d+) /\*numEras\*/,\s*kZoneEra%s /\*eras\*/' % re.escape(zsym), cpp)
    if actual != int(m2.group(2)) or (m3 and int(m3.group(1)) != actual):
        counts.append({'what': 'Zone Eras of %s' % m2.group(1), 'stated': int(m2.group(2)), 'actual': actual})
for m2 in re.finditer(r'// Policy name: (\S+)\n// Rules: (\d+)', pol):
    psym = re.sub(r'[^0-9a-zA-Z]', '_', m2.group(1))
    body = re.search(r'kZoneRules%s\[\] ACE_TIME_PROGMEM = \{(.*?)\n\};' % re.escape(psym), pol, re.S)
    actual = len(re.findall(r'/\*fromYearTiny\*/', body.group(1))) if body else -1
    if actual != int(m2.group(2)):
        counts.append({'what': 'Rules of policy %s' % m2.group(1), 'stated': int(m2.group(2)), 'actual': actual})
zt = [l.strip() for l in open(os.path.join(pydir, 'zones.txt')) if l.strip() and not l.startswith('#')]
# per policy: numRules and numLetters stated in the ZonePolicy record against the entries of its rule and letter arrays
for m4 in re.finditer(r'const \w+::ZonePolicy kPolicy(\w+) ACE_TIME_PROGMEM = \{\s*(\w+) /\*rules\*/,\s*(\w+) /\* letters \*/,\s*(\d+) /\*numRules\*/,\s*(\d+) /\* numLetters \*/', pol):
    pname, rarr, larr, nr, nl = m4.group(1), m4.group(2), m4.group(3), int(m4.group(4)), int(m4.group(5))
    mr = re.search(r'%s\[\] ACE_TIME_PROGMEM = \{(.*?)\n\};' % re.escape(rarr), pol, re.S)
    if mr:
        counts.append({'what': 'numRules of policy %s' % pname, 'stated': nr, 'actual': len(re.findall(r'/\*fromYearTiny\*/', mr.group(1)))})
    if larr != 'nullptr':
        ml = re.search(r'%s\[\] ACE_TIME_PROGMEM = \{(.*?)\n\};' % re.escape(larr), pol, re.S)
        counts.append({'what': 'numLetters of policy %s' % pname, 'stated': nl, 'actual': len(re.findall(r'/\*\d+\*/ "', ml.group(1))) if ml else -1})
    else:
        counts.append({'what': 'numLetters of policy %s' % pname, 'stated': nl, 'actual': 0})
print(json.dumps({'emitted': res['emitted_zones'], 'zones_txt': zt, 'names': names + ['policy:' + p for p in pnames],
                  'py_digests': [digest(py_infos.get(n)) for n in names] + [digest(py_pol.get(n)) for n in pnames],
                  'inmem_digests': [digest(in_infos.get(n)) for n in names] + [digest(in_pol.get(n)) for n in pnames],
                  'counts': counts, 'first_diff': first_diff}))
