"""Binding of spec/ZoneProc.tla to the real TimeZone / ZoneProcessor / ZoneManager
(C08, C09-i): P1 replay of every model edge, P2 trace validation of random histories."""
import calendar
import collections
import json
import os
import random

from . import common

EPOCH2000 = 946684800
ZONES = ["America/Los_Angeles", "Europe/London", "Australia/Sydney"]
YEARS = [2005, 2020, 1990, 2060]
OUT = [1990, 2060]
ALLOPS = ["utc", "delta", "abbrev", "odt", "print", "printshort"]
ND = 2   # direct processors in histdrv


SENTINEL_YEAR = 1872      # LocalDate::forEpochSeconds(kInvalidEpochSeconds).year()


ARG_VARIANT = [0]     # 0: mid-July, 1: 20 January (before the year's first transition in most zones)


def arg_for_year(y):
    if y == SENTINEL_YEAR:
        return -2**31         # the error sentinel as the argument
    if ARG_VARIANT[0] == 1:
        return calendar.timegm((y, 1, 20, 3, 0, 0)) - EPOCH2000
    return calendar.timegm((y, 7, 15, 12, 0, 0)) - EPOCH2000


def write_cfg(path, zones, years, out, ndirect, k, rebind=ALLOPS, clears=True, dump=True, trace=False):
    q = lambda xs: '{' + ', '.join('"%s"' % x for x in xs) + '}'
    n = lambda xs: '{' + ', '.join(str(x) for x in xs) + '}'
    s = ['SPECIFICATION %s' % ('TSpec' if trace else 'Spec'), 'CONSTANTS',
         ' Zones = ' + q(zones), ' Years = ' + n(years), ' OutOfRange = ' + n(out),
         ' NDirect = %d' % ndirect, ' K = %d' % k, ' RebindOps = ' + q(rebind),
         ' ClearsFilled = %s' % ('TRUE' if clears else 'FALSE')]
    if trace:
        s += ['INVARIANT TraceInv', 'INVARIANT Verdict', 'CHECK_DEADLOCK FALSE']
    else:
        s += ['VIEW View', 'INVARIANT TypeOK', 'INVARIANT HistoryIndependent', 'INVARIANT NoNullDeref',
              'INVARIANT ErrorsRepeat', 'INVARIANT ContentCoherent', 'INVARIANT OneSlotPerZone']
        if dump:
            s += ['ACTION_CONSTRAINT DumpEdge']
    open(path, 'w').write('\n'.join(s) + '\n')


def model_edges(ndirect, k, work, tag, years=None, out=None):
    cfg = os.path.join(work, 'ZoneProc_%s.cfg' % tag)
    write_cfg(cfg, ZONES, years or YEARS, out or OUT, ndirect, k)
    res = common.run_tlc('ZoneProc', cfg, workers=1, timeout=1200)
    common.tlc_must_pass(res, 'ZoneProc %s (Intended parameterisation)' % tag)
    edges = [e for e in common.tlc_prints(res.out) if isinstance(e, dict) and 'call' in e]
    if len(edges) + 1 != res.generated:
        raise common.MachineryError('edge dump incomplete: %d edges, %d states generated' % (len(edges), res.generated))
    return res, edges


def refute_asread(work):
    """the parameterisation of the code as it was found must be refuted by TLC (documents the defects D1, D2)"""
    cfg = os.path.join(work, 'ZoneProc_AsRead.cfg')
    write_cfg(cfg, ZONES, YEARS, OUT, 1, 0, rebind=["utc", "delta", "odt"], clears=False, dump=False)
    res = common.run_tlc('ZoneProc', cfg, workers=4, timeout=300, cont=True)
    return sorted(set(res.violated))


def key(st):
    return json.dumps(st, sort_keys=True)


def scripts_from_edges(edges, init_state):
    """shortest call path to every state (BFS over the model graph), one script per edge"""
    adj = collections.defaultdict(list)
    for e in edges:
        adj[key(e['from'])].append(e)
    path = {key(init_state): []}
    dq = collections.deque([key(init_state)])
    while dq:
        u = dq.popleft()
        for e in adj[u]:
            v = key(e['to'])
            if v not in path:
                path[v] = path[u] + [e]
                dq.append(v)
    scripts = []
    for e in edges:
        u = key(e['from'])
        if u not in path:
            raise common.MachineryError('model edge from an unreachable state')
        scripts.append(path[u] + [e])
    return scripts


def call_line(c, zidx):
    h = c['h']
    hk = 'd' if h['kind'] == 'direct' else 'm'
    y = c['year']
    return 'C %s %d %d %s %d' % (hk, zidx[h['zone']], h['proc'] if hk == 'd' else 0, c['op'], c.get('arg', arg_for_year(y)))


def run_scripts(exe, kind, k, scripts, zidx, env=None):
    """scripts: list of lists of call dicts (h, op, year[, arg]); returns list of result dicts (same order)"""
    nproc = common.NCPU
    buckets = [list(range(i, len(scripts), nproc)) for i in range(nproc)]

    def one(ids):
        if not ids:
            return []
        lines = []
        for i in ids:
            lines.append('S %d %s %d' % (i, kind, k))
            lines += [call_line(c, zidx) for c in scripts[i]]
            lines.append('E')
        rc, out, err, _ = common.run_cmd([exe], input='\n'.join(lines) + '\n', env=env or common.san_env(), timeout=3600)
        res = {}
        for ln in out.splitlines():
            ln = ln.strip()
            if not ln:
                continue
            try:
                r = json.loads(ln)
                res.setdefault(int(r['id']), {}).update(r)
            except Exception:
                # partial line of a crashed child: {"id":"7","steps":[{...},{...}
                if ln.startswith('{"id":"'):
                    i = int(ln.split('"')[3])
                    res.setdefault(i, {})['partial_steps'] = ln.count('{"ans"')
        return [(i, res.get(i, {'missing': True}), err[-3000:] if ('crash' in res.get(i, {}) or 'missing' in res.get(i, {})) else '') for i in ids]

    out = [None] * len(scripts)
    for lst in common.tmap(one, buckets):
        for i, r, err in lst:
            r['stderr'] = err
            out[i] = r
    return out


def real_class(op, ans):
    if ans == 'err':
        return 'error'
    return 'name' if op in ('print', 'printshort') else 'ans'


def model_proj(procs, kind='extended'):
    # BasicZoneProcessor keys its cache by an int8 "tiny year": the error date's year is its invalid marker
    return [[p['bound'], 0 if (kind == 'basic' and p['year'] == SENTINEL_YEAR) else p['year'], 1 if p['filled'] else 0] for p in procs]


def real_proj(state, ndirect, k):
    return [state[i] for i in range(ndirect)] + [state[ND + j] for j in range(k)]


def replay_edges(chk, exe, kind, ndirect, k, edges, zidx, tag):
    init = {'procs': [{'bound': '-', 'year': 0, 'filled': False, 'content': ['-', 0]}] * (ndirect + k), 'rr': 0}
    scripts = scripts_from_edges(edges, init)
    calls = [[e['call'] for e in s] for s in scripts]
    results = run_scripts(exe, kind, max(k, 1), calls, zidx)
    nsteps = 0
    for s, r in zip(scripts, results):
        hist = ' ; '.join('%s:%s.%s(%d)' % (e['call']['h']['kind'][0] + str(e['call']['h']['proc']), e['call']['h']['zone'].split('/')[-1], e['call']['op'], e['call']['year']) for e in s)
        last = s[-1]['call']
        vkey = '%s:%s:%s:%s' % (kind, tag, last['h']['kind'], last['op'])
        if 'crash' in r or 'missing' in r:
            chk.violation(vkey + ':crash', 'history crashes the real code (status %s) after %s steps: %s :: %s' % (
                r.get('crash'), r.get('partial_steps', '?'), hist, (r.get('stderr') or '').strip().splitlines()[:6]),
                {'kind': kind, 'K': k, 'history': [e['call'] for e in s], 'stderr': r.get('stderr', '')[-1500:]})
            continue
        for e, st in zip(s, r['steps']):
            nsteps += 1
            c = e['call']
            if st['ans'] != st['fresh']:
                chk.violation(vkey + ':answer', 'answer depends on history: %s -> %r, a fresh time zone answers %r' % (hist, st['ans'], st['fresh']),
                              {'kind': kind, 'K': k, 'history': [x['call'] for x in s]})
                break
            mc = c['answer'][0]
            if real_class(c['op'], st['ans']) != mc:
                chk.violation(vkey + ':class', 'model answers %s, code answers %r after %s' % (c['answer'], st['ans'], hist),
                              {'kind': kind, 'K': k, 'history': [x['call'] for x in s]})
                break
            if real_proj(st['state'], ndirect, k) != model_proj(e['to']['procs'], kind) or (k > 0 and st['rr'] != e['to']['rr']):
                chk.violation(vkey + ':state', 'processor state diverges from the model after %s: code %s rr=%s, model %s rr=%s' % (
                    hist, real_proj(st['state'], ndirect, k), st['rr'], model_proj(e['to']['procs'], kind), e['to']['rr']),
                    {'kind': kind, 'K': k, 'history': [x['call'] for x in s]})
                break
    return len(scripts), nsteps


# ---------------------------------------------------------------- P2: random histories
def key_year(kind, op, t):
    """the year under which the processor caches its table for instant t"""
    import datetime
    d = datetime.datetime(2000, 1, 1) + datetime.timedelta(seconds=t)
    if kind == 'basic' and op != 'odt' and d.month == 1 and d.day == 1:
        return d.year - 1
    return d.year


OVERLAPS = {'America/Los_Angeles': [(2019, 11, 3, 1, 30), (2005, 10, 30, 1, 30), (2020, 11, 1, 1, 5)],
            'Europe/London': [(2019, 10, 27, 1, 30), (2004, 10, 31, 1, 45)],
            'Australia/Sydney': [(2019, 4, 7, 2, 30), (2006, 4, 2, 2, 15)],
            'America/Sao_Paulo': [(2019, 2, 16, 23, 30), (2006, 2, 18, 23, 30)],
            'Pacific/Auckland': [(2019, 4, 7, 2, 30)]}


def gen_histories(rnd, kind, k, zones, n, length):
    hs = []
    for _ in range(n):
        h = []
        for _ in range(length):
            op = rnd.choice(ALLOPS + ['utc', 'abbrev'])
            if rnd.random() < 0.5 and k > 0:
                hd = {'kind': 'managed', 'zone': rnd.choice(zones), 'proc': 0}
            else:
                hd = {'kind': 'direct', 'zone': rnd.choice(zones), 'proc': rnd.randint(1, ND)}
            r = rnd.random()
            if r < 0.12:
                y = rnd.choice([1985, 1990, 1997, 1998, 2051, 2052, 2060, 2067])
            else:
                y = rnd.choice([1999, 2000, 2004, 2005, 2006, 2019, 2020, 2021, 2049, 2050] + [rnd.randint(2000, 2049)])
            jan1 = False
            if op in ('utc', 'delta', 'abbrev') and rnd.random() < 0.15:
                t = calendar.timegm((y, 1, 1, rnd.randint(0, 23), rnd.randint(0, 59), 0)) - EPOCH2000   # Jan 1: basic caches year-1
                jan1 = True
            else:
                t = calendar.timegm((y, 1, 4, 0, 0, 0)) - EPOCH2000 + rnd.randint(0, 355 * 86400)
            # local times inside the repeated hour of an autumn change (where more than one offset is stable, so that an answer
            # seeded by an earlier call could differ from that of a never-used processor)
            if op == 'odt' and hd['zone'] in OVERLAPS and rnd.random() < 0.35:
                yy, mo, dd, hh, mi = rnd.choice(OVERLAPS[hd['zone']])
                t = calendar.timegm((yy, mo, dd, hh, mi, 0)) - EPOCH2000
                jan1 = False
            if not (-2**31 < t < 2**31 - 86400):
                continue
            # exact repeats of an earlier argument (same instant again after other calls in between) are common in
            # applications -- offset, DST shift and abbreviation of one instant are asked for in a row
            if h and rnd.random() < 0.3:
                c0 = rnd.choice(h[-6:])
                if not c0['_jan1'] or op in ('utc', 'delta', 'abbrev'):      # (a January 1 instant is only used with the calls whose cache key the model knows)
                    t, jan1 = c0['arg'], c0['_jan1']
            h.append({'h': hd, 'op': op, 'year': key_year(kind, op, t), 'arg': t, '_jan1': jan1})
        hs.append(h)
    return hs


def validate_histories(chk, exe, kind, k, hists, zidx, work, tag):
    results = run_scripts(exe, kind, max(k, 1), hists, zidx)
    traces = []
    years = set()
    nsteps = 0
    for i, (h, r) in enumerate(zip(hists, results)):
        hist = ' ; '.join('%s%d:%s.%s(%d)' % (c['h']['kind'][0], c['h']['proc'], c['h']['zone'].split('/')[-1], c['op'], c['arg']) for c in h[:40])
        if 'crash' in r or 'missing' in r:
            done = r.get('partial_steps', 0)
            chk.violation('%s:%s:random-history:crash' % (kind, tag), 'random history crashes the real code (status %s) at step %s: %s :: %s' % (
                r.get('crash'), done, hist, (r.get('stderr') or '').strip().splitlines()[:6]),
                {'kind': kind, 'K': k, 'history': h[:done + 1], 'stderr': r.get('stderr', '')[-1500:]})
            continue
        ev = []
        for c, st in zip(h, r['steps']):
            nsteps += 1
            if st['ans'] != st['fresh']:
                chk.violation('%s:%s:%s:%s:answer' % (kind, tag, c['h']['kind'], c['op']),
                              'answer depends on history: ... %s.%s(%d) -> %r, a fresh time zone answers %r (history %s)' % (
                                  c['h']['zone'], c['op'], c['arg'], st['ans'], st['fresh'], hist),
                              {'kind': kind, 'K': k, 'history': h})
                break
            years.add(c['year'])
            ev.append({'hk': c['h']['kind'], 'zone': c['h']['zone'], 'proc': c['h']['proc'], 'op': c['op'],
                       'year': c['year'] if c['op'] not in ('print', 'printshort') else None,
                       'cls': real_class(c['op'], st['ans']), 'state': real_proj(st['state'], ND, k), 'rr': st['rr']})
        traces.append({'id': i, 'events': ev})
    years = sorted(years)
    if not years:
        return None, len(traces), 0, nsteps
    ymin = min(years)
    for t in traces:
        for e in t['events']:
            if e['year'] is None:
                e['year'] = ymin
    zones = sorted({c['h']['zone'] for h in hists for c in h})
    out = [y for y in years if y < 1999 or y > 2050]
    tpath = os.path.join(work, 'zp_traces_%s.json' % tag)
    json.dump(traces, open(tpath, 'w'))
    cfg = os.path.join(work, 'ZoneProc_Trace_%s.cfg' % tag)
    write_cfg(cfg, zones, years, out, ND, k, trace=True)
    res = common.run_tlc('ZoneProc_Trace', cfg, env={'ZP_TRACES': tpath}, timeout=1800)
    common.tlc_must_pass(res, 'ZoneProc_Trace %s' % tag)
    verdicts = {v['trace']: v for v in common.tlc_prints(res.out) if isinstance(v, dict) and 'trace' in v}
    if len(verdicts) != len(traces):
        raise common.MachineryError('TLC judged %d traces, expected %d' % (len(verdicts), len(traces)))
    acc = 0
    for t in traces:
        v = verdicts[t['id']]
        if v['accepted']:
            acc += 1
        else:
            e = t['events'][v['at'] - 1]
            chk.violation('%s:%s:%s:%s:trace' % (kind, tag, e['hk'], e['op']),
                          'recorded history rejected by ZoneProc at event %d: code state %s rr=%s class=%s; model %s' % (
                              v['at'], e['state'], e['rr'], e['cls'], v['model']),
                          {'kind': kind, 'K': k, 'history': hists[t['id']][:v['at']]})
    return res, len(traces), acc, nsteps
