"""Reconstruct the TZ source recorded beside each entry of a shipped / generated
C++ zone database (the `// Rule ...` comments of zone_policies.cpp and the
`//   <era line>` comments of zone_infos.cpp), and the link list of zone_infos.h.
Synthetic `// Anchor:` comments are not part of the source and are skipped."""
import os
import re


def reconstruct(dbdir):
    """returns (lines, links) ; lines = zic input text lines, links = {alias: target}"""
    lines = []
    pol = open(os.path.join(dbdir, 'zone_policies.cpp')).read().splitlines()
    for l in pol:
        m = re.match(r'\s*// (Rule\s+\S+\s+\d+\s+.*)$', l)
        if m:
            lines.append(re.sub(r'\s+', '\t', m.group(1).strip()))
    inf = open(os.path.join(dbdir, 'zone_infos.cpp')).read().splitlines()
    zone = None
    first = False
    in_eras = False
    for idx, l in enumerate(inf):
        m = re.match(r'// Zone name: (\S+)', l)
        if m:
            zone = m.group(1)
            first = True
            continue
        if re.match(r'static const \w+::ZoneEra kZoneEra\w+\[\]', l):
            in_eras = True
            continue
        if in_eras and l.startswith('};'):
            in_eras = False
            continue
        if in_eras:
            m = re.match(r'\s+//\s+(\S.*)$', l)
            if m and idx + 1 < len(inf) and inf[idx + 1].strip() == '{':
                era = re.sub(r'\s+', '\t', m.group(1).strip())
                if first:
                    lines.append('Zone\t%s\t%s' % (zone, era))
                    first = False
                else:
                    lines.append('\t\t\t%s' % era)
    links = {}
    hdr = open(os.path.join(dbdir, 'zone_infos.h')).read()
    for m in re.finditer(r'extern const \w+::ZoneInfo& kZone\w+; // (\S+) -> (\S+)', hdr):
        links[m.group(1)] = m.group(2)
    return lines, links
