"""zic / zdump as the oracle for TZ semantics (the property's own oracle).

compile_and_dump(lines, names, workdir) -> {zone: pieces}, pieces =
[[day, sec, utoff, isdst, abbr], ...] over [2000-01-01, 2050-01-01) as maximal
runs, the same shape TzSem.tla's Pieces and the implementation sweeps use.
"""
import calendar
import datetime
import os
import re
import subprocess

from . import common

EPOCH2000 = 946684800
WIN_LO = 0
WIN_HI = 18263 * 86400
_MON = {m: i for i, m in enumerate(['Jan', 'Feb', 'Mar', 'Apr', 'May', 'Jun', 'Jul', 'Aug', 'Sep', 'Oct', 'Nov', 'Dec'], 1)}
_LINE = re.compile(r'^(\S+)\s+\w{3} (\w{3})\s+(\d+) (\d\d):(\d\d):(\d\d) (-?\d+) UT = \w{3} \w{3}\s+\d+ \d\d:\d\d:\d\d -?\d+ (\S+) isdst=(\d) gmtoff=(-?\d+)')


def zic_compile(lines, workdir):
    src = os.path.join(workdir, 'src.zi')
    with open(src, 'w') as f:
        f.write('\n'.join(lines) + '\n')
    out = os.path.join(workdir, 'zic_out')
    r = subprocess.run(['zic', '-d', out, src], stdout=subprocess.PIPE, stderr=subprocess.STDOUT, text=True)
    return out, r.returncode, r.stdout


def read_tzif(path):
    """minimal TZif reader (64-bit block of a version >= 2 file, else the 32-bit block):
    returns (transitions [(unix time, type index)], types [(utoff, isdst, abbr)])"""
    import struct
    data = open(path, 'rb').read()

    def block(off, tsize):
        magic, ver = data[off:off + 4], data[off + 4:off + 5]
        if magic != b'TZif':
            raise common.MachineryError('not a TZif file: %s' % path)
        isutcnt, isstdcnt, leapcnt, timecnt, typecnt, charcnt = struct.unpack('>6l', data[off + 20:off + 44])
        p = off + 44
        fmt = '>%d%s' % (timecnt, 'q' if tsize == 8 else 'l')
        times = struct.unpack(fmt, data[p:p + timecnt * tsize])
        p += timecnt * tsize
        idx = data[p:p + timecnt]
        p += timecnt
        types = []
        for k in range(typecnt):
            utoff, isdst, abbrind = struct.unpack('>lBB', data[p + 6 * k:p + 6 * k + 6])
            types.append((utoff, isdst, abbrind))
        p += 6 * typecnt
        chars = data[p:p + charcnt]
        p += charcnt + leapcnt * (tsize + 4) + isstdcnt + isutcnt
        tt = [(u, d, chars[a:chars.index(b'\0', a)].decode('ascii')) for u, d, a in types]
        return list(zip(times, idx)), tt, p, ver
    trans, types, end, ver = block(0, 4)
    if ver >= b'2':
        trans, types, end, ver = block(end, 8)
    return trans, types


def _obs_zoneinfo(path, t):
    """observation at instant t (seconds from 2000-01-01) read from the TZif body: the type of the last transition
    at or before t; before the first transition the first standard-time type (the rule glibc / zdump use)"""
    trans, types = read_tzif(path)
    ut = t + EPOCH2000
    cur = None
    for when, idx in trans:
        if when <= ut:
            cur = idx
        else:
            break
    if cur is None:
        std = [i for i, ty in enumerate(types) if not ty[1]]
        cur = std[0] if std else 0
    u, d, a = types[cur]
    return [u, 1 if d else 0, a]


def dump(outdir, names, lo=WIN_LO, hi=WIN_HI, cut=(1998, 2052)):
    res = {}
    names = list(names)
    CH = 40
    chunks = [names[i:i + CH] for i in range(0, len(names), CH)]

    def one(chunk):
        paths = [os.path.join(outdir, n) for n in chunk]
        r = subprocess.run(['zdump', '-v', '-c', '%d,%d' % cut] + paths, stdout=subprocess.PIPE,
                           stderr=subprocess.STDOUT, text=True)
        return r.stdout

    outs = common.tmap(one, chunks)
    per = {n: [] for n in names}
    for out in outs:
        for line in out.splitlines():
            m = _LINE.match(line)
            if not m:
                continue
            path, mon, d, hh, mm, ss, y, abbr, isdst, gmtoff = m.groups()
            name = os.path.relpath(path, outdir)
            t = calendar.timegm((int(y), _MON[mon], int(d), int(hh), int(mm), int(ss))) - EPOCH2000
            per[name].append((t, [int(gmtoff), int(isdst), abbr]))
    for n in names:
        ev = sorted(per[n], key=lambda x: x[0])
        cur = _obs_zoneinfo(os.path.join(outdir, n), lo)
        before = [o for t, o in ev if t <= lo]
        if before and before[-1] != cur:
            # zdump's last report at or before the window start disagrees with the TZif body
            after_lo = [o for t, o in ev if t > lo]
            raise common.MachineryError('zdump and TZif disagree at window start for %s: %r vs %r' % (n, before[-1], cur))
        pieces = [[lo // 86400, lo % 86400] + cur]
        for t, o in ev:
            if t <= lo or t >= hi:
                continue
            if o != cur:
                pieces.append([t // 86400, t % 86400] + o)
                cur = o
        res[n] = pieces
    return res


def compile_and_dump(lines, names, workdir, **kw):
    out, rc, msg = zic_compile(lines, workdir)
    if rc != 0:
        raise common.MachineryError('zic rejected the source: %s' % msg[-2000:])
    return dump(out, names, **kw), msg
