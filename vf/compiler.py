"""Driving the real TZ compiler (tools/) on whole sources and judging its output against TzSem.tla
(C03; reused by C04, C11, C12, C20)."""
import glob
import json
import os
import random
import re
import shutil
import subprocess

from . import common, tzparse, zicoracle, ziexpand, dbsource, tzconf

PYDRV = os.path.join(common.VERIF, 'vf', 'pydrv_compile.py')


def tool_env(hashseed='0'):
    return dict(os.environ, PYTHONPATH=os.path.join(common.REPO, 'tools'), PYTHONDONTWRITEBYTECODE='1', PYTHONHASHSEED=str(hashseed))


def lines_2025b():
    return ziexpand.expand(open(os.path.join(common.DATA, 'tzdata-2025b.zi')).read())


def lines_shipped(db='zonedbx'):
    lines, links = dbsource.reconstruct(os.path.join(common.REPO, 'src/ace_time', db))
    return lines + ['Link\t%s\t%s' % (t, a) for a, t in sorted(links.items())]


def run_compiler(lines, work, scope, start=2000, until=2050, flags=('arduino', 'python', 'pieces'), hashseed='0', tag=''):
    ind = os.path.join(work, 'in')
    if not os.path.exists(os.path.join(ind, 'africa')):
        ziexpand.write_input_dir(lines, ind)
    out = os.path.join(work, 'out-%s%s' % (scope, tag))
    shutil.rmtree(out, ignore_errors=True)
    r = subprocess.run([common.PY, PYDRV, ind, out, scope, str(start), str(until)] + list(flags), env=tool_env(hashseed),
                       stdout=subprocess.PIPE, stderr=subprocess.PIPE, text=True)
    if r.returncode != 0 or not os.path.exists(os.path.join(out, 'result.json')):
        return None, out, (r.returncode, r.stderr[-3000:])
    return json.load(open(os.path.join(out, 'result.json'))), out, None


def build_scanner_for(gen_basic, gen_ext, name):
    """tzscan linked against generated tables instead of the shipped ones"""
    exes, err = build_tools_for(gen_basic, gen_ext, name, ('tzscan.cpp',))
    return (exes['tzscan'] if exes else None), err


def build_tools_for(gen_basic, gen_ext, name, mains=('tzscan.cpp', 'dbdump.cpp', 'pairdrv.cpp')):
    """harness programs linked against generated tables instead of the shipped ones: {program name: path}"""
    inc = os.path.join(os.path.dirname(gen_basic), 'inc')
    shutil.rmtree(inc, ignore_errors=True)
    for sub, src in (('zonedb', gen_basic), ('zonedbx', gen_ext)):
        d = os.path.join(inc, 'ace_time', sub)
        os.makedirs(d)
        for f in glob.glob(os.path.join(src, '*')):
            shutil.copy(f, d)
    extra = sorted(glob.glob(os.path.join(inc, 'ace_time', '*', '*.cpp')))
    return build_generated(name, list(mains), inc, extra)


def build_generated(name, mains, inc, extra_cpp):
    """like common.build_binary but the two zone databases come from `inc`; one executable per main source"""
    flags = list(common.FLAVORS['opt']) + ['-DUNIX_HOST_DUINO', '-D%s=1' % common.HOOK_MACRO, '-I' + inc, '-I' + common.SHIM,
                                          '-I' + os.path.join(common.REPO, 'src'), '-I' + common.HARNESS]
    lib = [f for f in common.lib_cpp_files() if '/zonedb/' not in f and '/zonedbx/' not in f]
    outdir = os.path.join(os.path.dirname(inc), 'bin-' + name)
    shutil.rmtree(outdir, ignore_errors=True)
    os.makedirs(outdir)
    jobs = []
    objs = []
    mainobjs = {}
    # the generated tables are compiled with the compiler's default diagnostics (no -w): what a user's toolchain rejects
    # (e.g. a narrowing conversion inside a table initializer) must be rejected here too
    strict = [f for f in flags if f != '-w']
    for i, s in enumerate(lib + list(extra_cpp)):
        o = os.path.join(outdir, '%d.o' % i)
        objs.append(o)
        jobs.append((s, o, strict if s in set(extra_cpp) else flags))
    for m in mains:
        o = os.path.join(outdir, 'main-%s.o' % m.replace('.cpp', ''))
        mainobjs[m.replace('.cpp', '')] = o
        jobs.append((os.path.join(common.HARNESS, m), o, flags))
    for src, rc, out in common.tmap(common._compile_one, jobs):
        if rc != 0:
            return None, 'compile failed: %s\n%s' % (src, out[-3000:])
    exes = {}
    for prog, mo in mainobjs.items():
        exe = os.path.join(outdir, prog)
        rc, out = common._run(flags + objs + [mo, '-o', exe])
        if rc != 0:
            return None, 'link failed: %s' % out[-3000:]
        exes[prog] = exe
    return exes, None


def year_day(y):
    return tzparse.days(y, 1, 1)


def to_pieces(ps):
    """[[t, [off, dst, abbr]], ..] -> [[day, sec, off, isdst, abbr], ..] merged on (off, isdst, abbr)"""
    out = []
    for t, o in ps:
        if len(o) != 3:
            rec = [t // 86400, t % 86400, 999999, 0, str(o)]
        else:
            rec = [t // 86400, t % 86400, o[0], 1 if o[1] else 0, o[2]]
        if out and out[-1][2:] == rec[2:]:
            continue
        out.append(rec)
    return out


def judge(chk, label, lines, zones_wanted, impl_pieces, work, start, until, noted=(), variant=''):
    """TLC (TzSem.tla) judges recorded pieces of `zones_wanted` against the input lines; zic validates the spec."""
    rules, zones, _links = tzparse.parse(lines)
    names = [z for z in zones_wanted if z in zones]
    d = os.path.join(work, 'judge-' + label.replace('/', '_') + variant.replace(':', '-'))
    os.makedirs(d, exist_ok=True)
    model = os.path.join(d, 'model.json')
    lo, hi = year_day(start), year_day(until)
    tzparse.write_model(model, rules, zones, only=set(names), winlo=lo, winhi=hi, ymax=until + 2, tmin=lo - 3653)
    zic, _m = zicoracle.compile_and_dump(lines, names, d, lo=lo * 86400, hi=hi * 86400, cut=(start - 2, until + 2))
    obs = {'impl': {n: impl_pieces[n] for n in names if n in impl_pieces}, 'zic': {n: zic[n] for n in names}}
    obs['impl']['__none__'] = []
    obs['zic']['__none__'] = []
    op = os.path.join(d, 'obs.json')
    json.dump(obs, open(op, 'w'))
    res, verdicts = tzconf.run_tzsem(model, op)
    bad = 0
    skipped = []
    for n in names:
        v = verdicts[n]
        if not v['zic']['ok']:
            msg = 'TzSem disagrees with zic on %s (%s) at piece %s: spec=%s zic=%s' % (n, label, v['zic']['at'], v['zic']['spec'], v['zic']['obs'])
            if label.split(':')[0].startswith(('gen', 'mut')):
                # a generated or mutated source may contain a construct on which the specification and zic's TZif output differ
                # (see DESIGN.md section 9): that zone has no oracle and is not judged; the release, the recorded lines and the
                # fixed sources must agree
                skipped.append(n)
                chk.notes.append('zone not judged, no agreed oracle: ' + msg)
                continue
            raise common.MachineryError(msg)
        if n in impl_pieces and not v['impl']['ok']:
            if n in noted:
                continue
            bad += 1
            # classify one known construct (see known_findings.json): basic scope, C++ target, an era with named RULES
            # that begins at a year boundary -- BasicZoneProcessor starts it on the prior rule's day/time in January
            sp = v['impl']['spec']
            if label.endswith(':basic:arduino') and sp:
                starts = set()
                for i in range(1, len(zones[n])):
                    u = zones[n][i - 1]['until']
                    if u and zones[n][i]['rules'][0] == 'named' and u['mon'] == 1 and u['on'] == ('d', 0, 1) and u['at'] == 0:
                        starts.add(tzparse.days(u['y'], 1, 1))
                if any(abs(sp[0] - d) <= 1 for d in starts):
                    chk.violation('basic:arduino:era-with-named-rules-begins-at-year-boundary',
                                  'zone %s of source %s: %s' % (n, label, 'the era beginning at the year boundary takes effect at %s instead of %s' % (v['impl']['obs'][:2], sp[:2])),
                                  {'zone': n, 'target': label, 'spec': sp, 'impl': v['impl']['obs']})
                    continue
            # classify a third known construct: an era ends at (month, day expression, time, suffix) and the next era's policy has
            # a rule with the very same fields, in wall or standard time, while the offsets of the two eras differ: the two
            # readings denote different instants, but both processors (comparing date tuples) take the rule to fire exactly at
            # the start of the era
            if sp:
                hit = False
                for i in range(1, len(zones[n])):
                    u = zones[n][i - 1]['until']
                    nx = zones[n][i]
                    if not u or u['suf'] not in ('w', 's') or nx['rules'][0] != 'named' or zones[n][i - 1]['off'] == nx['off'] and u['suf'] == 's':
                        continue
                    same = [r for r in rules.get(nx['rules'][1], []) if (r['mon'], r['on'], r['at'], r['suf']) == (u['mon'], u['on'], u['at'], u['suf']) and r['fr'] <= u['y'] <= r['to']]
                    lo = tzparse.days(u['y'], u['mon'], 1) - 2
                    hi = tzparse.days(u['y'] + (u['mon'] == 12), u['mon'] % 12 + 1, 1) + 9
                    if same and lo <= sp[0] <= hi and (zones[n][i - 1]['off'] != nx['off'] or zones[n][i - 1]['rules'][0] != 'none'):
                        hit = True
                if hit:
                    chk.violation('%s:era-boundary-reads-like-rule-transition' % ':'.join(label.split(':')[1:]),
                                  'zone %s of source %s: at %s the compiled zone shows %s, zic %s' % (n, label, v['impl']['obs'][:2], v['impl']['obs'][2:], sp[2:]),
                                  {'zone': n, 'target': label, 'spec': sp, 'impl': v['impl']['obs']})
                    continue
            # classify a second known construct: the trace equals the source semantics *without* zic's writezone merge
            # (TzSem.PiecesUnmerged), i.e. the only difference from zic is that two transitions zic folds are kept apart
            if v.get('implUnmerged') is True:
                chk.violation('%s:writezone-merge-not-applied' % ':'.join(label.split(':')[1:]),
                              'zone %s of source %s: from %s the compiled zone shows %s where zic, folding the era start into the following rule transition, shows %s' % (
                                  n, label, v['impl']['obs'][:2], v['impl']['obs'][2:], sp[2:] if sp else None),
                              {'zone': n, 'target': label, 'spec': sp, 'impl': v['impl']['obs']})
                continue
            chk.violation('%s%s:%s:semantics' % (label, variant, n), 'emitted zone interpreted by the matching processor differs from the source semantics%s at piece %%d: source says %%s, compiled zone says %%s' % (' (source with the documented truncations applied)' if variant else '') % (
                v['impl']['at'], v['impl']['spec'], v['impl']['obs']), {'zone': n, 'target': label, 'spec': v['impl']['spec'], 'impl': v['impl']['obs']})
    if len(skipped) > max(2, len(names) // 10):
        raise common.MachineryError('TzSem and zic disagree on %d of %d zones of %s: %s' % (len(skipped), len(names), label, skipped[:5]))
    return res, len([n for n in names if n in impl_pieces and n not in skipped]), bad


# ------------------------------------------------------------------ program generation (small sources over the documented grammar)
STDOFFS = ['-8:00', '-3:30', '0:00', '5:45', '12:45', '1:00', '5:40', '-3:40',   # the last two of this line are truncated (and noted) in basic scope
           '-0:37', '5:53']      # a negative offset below one hour; minute remainders of 8 (both need the one-minute resolution of extended scope)
ATS = ['0:00', '2:00', '2:00s', '1:00u', '24:00', '3:00', '2:00:30']      # the last one is truncated to the minute (and noted per zone)
SAVES = ['0', '1:00', '0:30', '2:00']
ONS = ['1', '15', 'lastSun', 'Sun>=1', 'Sun>=8', 'Sun>=15', 'lastSat', 'Fri>=22', 'Sat>=1']   # forms zic can also express in its POSIX-TZ footer (needed beyond 2037)
UNTILS = [['YEAR'], ['YEAR', 'Jan', '1'], ['YEAR', 'Mar', 'lastSun', '2:00'], ['YEAR', 'Oct', 'Sun>=1', '2:00s'], ['YEAR', 'Apr', '1', '1:00u'], ['YEAR', 'Jul', '15', '0:00'],
          ['YEAR', 'May', '1', '1:00g'],     # g (and z) are zic's other spellings of u
          ['YEAR', 'Jun', 'Mon>=28', '0:00'], ['YEAR', 'Apr', 'Sun>=29', '2:00']]     # weekday expressions that may carry into the next month
MONTHS = ['Jan', 'Feb', 'Mar', 'Apr', 'May', 'Jun', 'Jul', 'Aug', 'Sep', 'Oct', 'Nov', 'Dec']


def gen_policy(rnd, name):
    """1-2 DST periods: a spring rule and an autumn rule per period (the shape real policies have)"""
    lines = []
    nper = rnd.choice([1, 1, 2])
    y = rnd.choice([1988, 1991, 1994, 1996])     # starts before the window, so the era's initial state is defined by the rules
    letters = rnd.choice([('S', 'D'), ('-', 'S'), ('S', 'D')])
    save = rnd.choice(['1:00', '1:00', '0:30', '2:00', '0:20'])      # 0:20 is not a multiple of the 15 minutes both table formats hold
    # negative daylight saving, also one that is not a multiple of 15 minutes (the period still ends with SAVE 0)
    if rnd.random() < 0.12:
        save = rnd.choice(['-1:00', '-0:20', '-0:30'])
    for p in range(nper):
        last = p == nper - 1
        to = 'max' if (last and rnd.random() < 0.7) else str(y + rnd.choice([0, 2, 5, 9]))
        # a period that ends must end in standard time (no source leaves a zone in DST forever): spring rule first
        m1, m2 = rnd.choice([(3, 10), (4, 9), (3, 11), (10, 3), (9, 4), (1, 7)]) if to == 'max' else rnd.choice([(3, 10), (4, 9), (3, 11), (1, 6)])      # (January rules: a basic-scope filter exists for those that fall on Jan 1)
        if m1 == 1 and to == 'max':
            # (beyond 2037 zic speaks through a POSIX-TZ footer, and glibc evaluates a footer rule for the UTC year of the
            #  instant: a transition in the first hours of January local time is misplaced by zdump; end the rule in 2036)
            to = '2036'
            last = True
        to_s = 'only' if to == str(y) else to
        at = rnd.choice(ATS)
        on1, on2 = rnd.choice(ONS), rnd.choice(ONS)
        lines.append('Rule\t%s\t%d\t%s\t-\t%s\t%s\t%s\t%s\t%s' % (name, y, to_s, MONTHS[m1 - 1], on1, at, save, letters[1]))
        lines.append('Rule\t%s\t%d\t%s\t-\t%s\t%s\t%s\t0\t%s' % (name, y, to_s, MONTHS[m2 - 1], on2, rnd.choice(ATS), letters[0]))
        if to == 'max' or to == '2036':
            break
        y = int(to) + 1 + rnd.choice([0, 1, 3])
    return lines


def decoy_source(lines):
    """a source with the same zone, link and policy *names* as `lines` but other contents: every policy reduced to one fixed
    pair of rules, every third zone dropped, one zone added. Compiled first in a process, it must leave no trace in a later
    compilation of `lines` (anything remembered by name -- cooked policies, string tables, zone lists -- would)."""
    out = []
    seen = set()
    nz = 0
    keep = True
    for raw in lines:
        f = raw.split('#')[0].split()
        if not f:
            continue
        if f[0] == 'Rule':
            if f[1] not in seen:
                seen.add(f[1])
                out.append('Rule\t%s\t1980\tmax\t-\tApr\t1\t0:00\t1:00\tD' % f[1])
                out.append('Rule\t%s\t1980\tmax\t-\tOct\t1\t0:00\t0\tS' % f[1])
            continue
        if f[0] == 'Zone':
            nz += 1
            keep = nz % 3 != 0
        if f[0] == 'Link' or keep:
            out.append(raw)
    out.append('Zone\tDecoy/Extra\t3:00\t-\tDEC')
    # links the real source does not have: one to the added zone, one to a zone both sources have
    out.append('Link\tDecoy/Extra\tDecoy/Alias')
    kept = [l.split()[1] for l in out if l.split() and l.split()[0] == 'Zone' and not l.split()[1].startswith('Decoy/')]
    if kept:
        out.append('Link\t%s\tDecoy/Alias2' % kept[0])
    return out


def _fmt_hms(sec):
    neg, sec = sec < 0, abs(sec)
    t = '%d:%02d' % (sec // 3600, sec % 3600 // 60) + (':%02d' % (sec % 60) if sec % 60 else '')
    return ('-' if neg else '') + t


def _trunc0(v, g):
    return (abs(v) // g) * g * (1 if v >= 0 else -1)


def truncate_lines(lines, scope):
    """the source with the compiler's documented truncations applied (towards zero): STDOFF to the offset granularity of the
    scope (basic 15 min, extended 1 min), SAVE and fixed RULES offsets to 15 min, AT and UNTIL times to 1 min. A zone that
    carries a truncation note must behave as zic compiles *this* source -- altered exactly as documented, not more."""
    off_g = 900 if scope == 'basic' else 60
    delta_g = max(off_g, 900)
    ua_g = 60
    istime = re.compile(r'^-?\d+(:\d+){0,2}$')

    def tsuf(tok, g):
        suf = ''
        if tok and tok[-1] in 'wsugz':
            tok, suf = tok[:-1], tok[-1]
        if not istime.match(tok):
            return tok + suf
        return _fmt_hms(_trunc0(tzparse.hms(tok), g)) + suf

    out = []
    for raw in lines:
        body = raw.split('#')[0]
        f = body.split()
        if not f or f[0] == 'Link':
            out.append(raw)
            continue
        if f[0] == 'Rule':
            f[7] = tsuf(f[7], ua_g)
            sv = f[8]
            tail = ''
            if sv and sv[-1] in 'sd' and istime.match(sv[:-1]):
                sv, tail = sv[:-1], sv[-1]
            if istime.match(sv):
                f[8] = _fmt_hms(_trunc0(tzparse.hms(sv), delta_g)) + tail
            out.append('\t'.join(f))
            continue
        k = 2 if f[0] == 'Zone' else 0          # index of STDOFF (a continuation line begins with it)
        if not istime.match(f[k]):
            out.append(raw)
            continue
        f[k] = _fmt_hms(_trunc0(tzparse.hms(f[k]), off_g))
        if istime.match(f[k + 1]) and f[k + 1] != '-':
            f[k + 1] = _fmt_hms(_trunc0(tzparse.hms(f[k + 1]), delta_g))
        if len(f) > k + 6:
            f[k + 6] = tsuf(f[k + 6], ua_g)
        out.append(('' if f[0] == 'Zone' else '\t\t\t') + '\t'.join(f))
    return out


def edge_source():
    """a fixed source of boundary constructs (each found to matter): two rules of one policy that fire on the same day an hour
    apart; fixed RULES offsets of an era outside the -1:00..+2:45 the tables can hold; a rule whose TO year does not fit the
    tables' one-byte year; the extreme admissible SAVE values"""
    return [
        'Rule\tSame\t1999\t2010\t-\tOct\tSun>=9\t4:00u\t1:00\t-',
        'Rule\tSame\t2000\t2007\t-\tOct\tSun>=9\t3:00u\t0\t-',
        'Rule\tSame\t2008\tonly\t-\tMar\t30\t3:00u\t0\t-',
        'Zone\tTest/SameDay\t-4:00\tSame\t-04/-03',
        'Zone\tTest/BigFixed\t1:00\t-\tTST\t2005',
        '\t\t\t1:00\t3:00\tTBT\t2010',
        '\t\t\t1:00\t-\tTST',
        'Zone\tTest/NegFixed\t1:00\t-\tTST\t2005',
        '\t\t\t1:00\t-1:15\tTNT\t2010',
        '\t\t\t1:00\t-\tTST',
        'Rule\tFar\t1995\t2200\t-\tApr\t1\t2:00\t1:00\tD',
        'Rule\tFar\t1995\t2200\t-\tOct\t1\t2:00\t0\tS',
        'Zone\tTest/FarTo\t1:00\tFar\tT%sT',
        'Rule\tTop\t1995\t2036\t-\tApr\t1\t2:00\t2:45\tD',
        'Rule\tTop\t1995\t2036\t-\tOct\t1\t2:00\t0\tS',
        'Zone\tTest/TopSave\t2:00\tTop\tT%sT',
        'Rule\tBot\t1995\t2036\t-\tApr\t1\t2:00\t-1:00\tW',
        'Rule\tBot\t1995\t2036\t-\tOct\t1\t2:00\t0\tS',
        'Zone\tTest/BottomSave\t2:00\tBot\tT%sT',
        'Zone\tTest/Plain\t2:00\t-\tPLN',
        # eras that end, in universal time, hours after a rule transition of the same day (east and west of Greenwich)
        'Rule\tT\t1990\tmax\t-\tMar\tlastSun\t2:00\t1:00\tS',
        'Rule\tT\t1990\tmax\t-\tOct\tlastSun\t3:00\t0\t-',
        'Rule\tW\t1990\tmax\t-\tApr\tSun>=1\t2:00\t1:00\tD',
        'Rule\tW\t1990\tmax\t-\tOct\tlastSun\t2:00\t0\tS',
        'Zone\tTest/UntilUtcEast\t2:00\tT\tEE%sT\t2005\tOct\t30\t2:00u',
        '\t\t\t3:00\t-\tMSK',
        'Zone\tTest/UntilUtcWest\t-5:00\tW\tE%sT\t2008\tOct\t26\t5:00u',
        '\t\t\t-6:00\t-\tCST',
        # a policy adopted while its daylight saving of the year before is still on: the rule in force at the start of the era
        # ends before the era begins, another rule of the policy ends in the era's first year
        'Rule\tQ\t1990\tmax\t-\tMar\tlastSun\t2:00\t1:00\tS',
        'Rule\tQ\t1990\tmax\t-\tOct\tlastSun\t3:00\t0\t-',
        'Rule\tPA\t1996\t2004\t-\tMar\tlastSun\t2:00\t1:00\tS',
        'Rule\tPA\t1996\t2003\t-\tOct\tlastSun\t3:00\t0\t-',
        'Rule\tPA\t2005\tonly\t-\tOct\tlastSun\t3:00\t0\t-',
        'Rule\tPA\t2006\tmax\t-\tMar\tlastSun\t2:00\t1:00\tS',
        'Rule\tPA\t2006\tmax\t-\tOct\tlastSun\t3:00\t0\t-',
        'Zone\tTest/Adopt2005\t2:00\tQ\tEE%sT\t2005',
        '\t\t\t2:00\tPA\tEE%sT',
        'Zone\tTest/Adopt2005Jun\t2:00\tQ\tEE%sT\t2005\tJun\t1',
        '\t\t\t2:00\tPA\tEE%sT',
    ]


NEAR_UNTIL_ALL = set()


def _compiler_accepts(lines):
    import tempfile
    d = tempfile.mkdtemp(prefix='genc-', dir=common.mkdir(os.path.join(common.BUILD, 'scratch')))
    try:
        res, _o, _e = run_compiler(lines, d, 'extended', flags=('arduino',))
        return res is not None
    finally:
        shutil.rmtree(d, ignore_errors=True)


def _zic_accepts(lines):
    import tempfile
    d = tempfile.mkdtemp(prefix='gen-', dir=common.mkdir(os.path.join(common.BUILD, 'scratch')))
    try:
        _o, rc, _m = zicoracle.zic_compile(lines, d)
        return rc == 0 and not _m.strip()
    finally:
        shutil.rmtree(d, ignore_errors=True)


def gen_source(rnd, nzones, near_until=False):
    """zones are generated one at a time and kept only if zic accepts them without complaint. near_until: eras that use
    their policy may end on the day of one of its rule transitions at a time given in another time frame (u / s), so that the
    wall, standard and universal readings of the transition fall on different sides of the era's end"""
    out = []
    k = 0
    tries = 0
    while k < nzones and tries < nzones * 6:
        tries += 1
        z = _gen_zone(rnd, k, near_until)
        if near_until and any(l.split('\t')[-1] in NEAR_UNTIL_ALL for l in z if not l.startswith('Rule')) and not _compiler_accepts(z):
            # the real compiler refuses (loudly: ZoneSpecifier raises "Transitions not sorted" inside the buffer-size
            # estimator) some eras that end near a rule transition with a large jump of the UTC offset: not an accepted source
            continue
        if _zic_accepts(z):
            out += z
            k += 1
    return out


NEAR_UNTIL_TIMES = ['0:00u', '0:30u', '1:30s', '2:30s', '3:00u', '1:00s', '23:00u', '2:00u']


def _gen_zone(rnd, k, near_until=False):
    lines = []
    for k in [k]:
        zname = 'Test/Zone_%03d' % k
        neras = rnd.choice([1, 1, 2, 2, 3])
        pol = 'P%03d' % k
        used_pol = False
        pol_lines = gen_policy(rnd, pol)
        y = rnd.choice([1999, 2003, 2007, 2011])
        rnd.choice(STDOFFS)                          # (keeps the random stream of earlier versions)
        off = STDOFFS[k % len(STDOFFS)]              # every offset class occurs in every generated source
        eras = []
        plan = []
        for e in range(neras):
            # (a first era in permanent DST has no agreed meaning before its first transition: TZif readers differ)
            plan.append(rnd.choice(['-', pol, pol, '1:00', '0:20']) if e > 0 else rnd.choice(['-', pol, pol]))
        for e in range(neras):
            rules = plan[e]
            if rules == pol:
                fmt = rnd.choice(['TE%sT', 'STD/DST', 'XY%sZ'])   # abbreviations of 3..6 characters (POSIX)
                if rnd.random() < 0.15:
                    fmt = 'FIXT'                                  # named rules with a FORMAT that has neither %s nor '/' (noted by the compiler, like Africa/Johannesburg)
                used_pol = True
            elif rules == '-':
                fmt = rnd.choice(['TST', '+05', 'ABC'])
            else:
                fmt = rnd.choice(['TDT', '+06'])
            if e < neras - 1:
                u = list(rnd.choice(UNTILS))
                u[0] = str(y)
                if plan[e + 1] == pol and rnd.random() < 0.35:
                    # the next era starts exactly where one of its own rules fires (same month, day expression, time and
                    # suffix): era boundary == rule transition
                    f = rnd.choice([l for l in pol_lines if l.startswith('Rule')]).split('\t')
                    if int(f[2]) <= y and (f[3] == 'max' or (f[3] == 'only' and int(f[2]) == y) or (f[3] not in ('max', 'only') and int(f[3]) >= y)):
                        u = [str(y), f[5], f[6], f[7]]
                if near_until and plan[e] == pol and rnd.random() < 0.8:
                    f = rnd.choice([l for l in pol_lines if l.startswith('Rule')]).split('\t')
                    if int(f[2]) <= y and (f[3] == 'max' or (f[3] == 'only' and int(f[2]) == y) or (f[3] not in ('max', 'only') and int(f[3]) >= y)):
                        # (the rule's own AT time moved by less than the zone's offset / the DST shift, in another time frame)
                        at, suf = tzparse.attime(f[7])
                        cands = list(NEAR_UNTIL_TIMES)
                        if suf == 'w':
                            # east of Greenwich the universal reading of the transition is earlier than its wall reading, west later:
                            # the era's end is put between the two
                            sgn = 1 if off.startswith('-') else -1
                            cands = [_fmt_hms(t) + sf for t, sf in ((at + sgn * 3600, 'u'), (at + sgn * 1800, 'u'), (at + sgn * 7200, 'u'), (at - 1800, 's'), (at + 1800, 's'))
                                     if 0 <= t <= 86400 and t % 60 == 0] or cands
                        u = [str(y), f[5], f[6], rnd.choice(cands)]
                        NEAR_UNTIL_ALL.add(u[3])
                y += rnd.choice([2, 5, 9])
            else:
                u = []
            eras.append((off, rules, fmt, u))
            if rnd.random() < 0.6:
                off = rnd.choice(STDOFFS)
        if used_pol:
            lines += pol_lines
        for i, (o, r, f, u) in enumerate(eras):
            pre = 'Zone\t%s\t' % zname if i == 0 else '\t\t\t'
            lines.append(pre + '\t'.join([o, r, f] + u))
        if rnd.random() < 0.2:
            lines.append('Link\t%s\tTest/Alias_%03d' % (zname, k))
        if used_pol and rnd.random() < 0.3:
            # a second zone using the same policy (notes attached per zone must reach every zone that uses a policy)
            lines.append('Zone\t%sb\t%s\t%s\t%s' % (zname, rnd.choice(STDOFFS[:6]), pol, rnd.choice(['TE%sT', 'STD/DST'])))
    return lines


def mutate_source(rnd, lines, nmut):
    """seeded single-field mutations that stay inside the grammar; re-drawn (with fewer mutations) until zic accepts the result
    without complaint"""
    for attempt in range(6):
        m, done = _mutate_once(rnd, lines, max(1, nmut - 4 * attempt))
        if _zic_accepts(m):
            return m, done
    return list(lines), []


def _mutate_once(rnd, lines, nmut):
    lines = list(lines)
    idx = [i for i, l in enumerate(lines) if l.startswith('Rule')]
    done = []
    for _ in range(nmut):
        i = rnd.choice(idx)
        f = lines[i].split('\t')
        kind = rnd.choice(['at', 'on', 'month'])
        if kind == 'at':
            f[7] = rnd.choice(['1:00', '2:00', '3:00', '2:00s', '1:00u', '0:00'])
        elif kind == 'on':
            f[6] = rnd.choice(['1', '8', 'lastSun', 'Sun>=1', 'Sun>=8', 'lastSat', 'Fri>=15'])
        else:
            if f[6].isdigit() and int(f[6]) > 28:
                continue          # (a numeric day beyond 28 does not exist in every month: zic would reject the source)
            f[5] = rnd.choice(['Feb', 'Mar', 'Apr', 'May', 'Sep', 'Oct', 'Nov'])
        lines[i] = '\t'.join(f)
        done.append((i, kind))
    return lines, done
