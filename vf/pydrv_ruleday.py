"""Runs inside /venv python with PYTHONPATH=<repo>/tools: the Python side of C18.
stdin: nothing; argv[1] = file with the C++ rows 'y m dow dom rm rd'; prints JSON summary."""
import json
import sys
import datetime
from tzdb import transformer
from tzdb.transformer import calc_day_of_month, _parse_on_day_string

rows_file = sys.argv[1]
bad = []
n = 0
for ln in open(rows_file):
    y, m, dow, dom, rm, rd = map(int, ln.split())
    n += 1
    pm, pd = calc_day_of_month(y, m, dow, dom)
    if (pm, pd) != (rm, rd):
        if len(bad) < 20:
            bad.append({'y': y, 'm': m, 'dow': dow, 'dom': dom, 'cpp': [rm, rd], 'python': [pm, pd]})
# ON strings of the accepted grammar (and malformed neighbours)
DAYS = ['Mon', 'Tue', 'Wed', 'Thu', 'Fri', 'Sat', 'Sun']
parse_bad = []
np = 0
for i, dname in enumerate(DAYS, 1):
    for k in range(1, 32):
        for s, want in (('%s>=%d' % (dname, k), (i, k)), ('%s<=%d' % (dname, k), (i, -k))):
            np += 1
            if _parse_on_day_string(s) != want:
                parse_bad.append([s, list(_parse_on_day_string(s)), list(want)])
    np += 1
    if _parse_on_day_string('last' + dname) != (i, 0):
        parse_bad.append(['last' + dname, list(_parse_on_day_string('last' + dname)), [i, 0]])
for k in range(1, 32):
    np += 1
    if _parse_on_day_string(str(k)) != (0, k):
        parse_bad.append([str(k), list(_parse_on_day_string(str(k))), [0, k]])
for s in ('lastXyz', 'Xyz>=1', 'Xyz<=1', 'Sun>1', 'Sun=1', '', 'last'):
    np += 1
    try:
        r = _parse_on_day_string(s)
    except Exception as e:     # a malformed ON string must be reported as (0, 0), not crash the compiler
        r = ('exception', str(e))
    if r != (0, 0):
        parse_bad.append([s, list(r), [0, 0]])

# the rejection clause: run the real filter on synthetic policies, one rule each
from tzdb.transformer import Transformer
rej = {}
for m in range(1, 13):
    for dname_i, dname in enumerate(DAYS, 1):
        for k in range(1, 32):
            for op, dom in (('>=', k), ('<=', -k)):
                name = 'P%d_%d_%s%d' % (m, dname_i, 'g' if dom > 0 else 'l', k)
                rule = {'fromYear': 2000, 'toYear': 2010, 'inMonth': m, 'onDay': '%s%s%d' % (dname, op, k),
                        'atTime': '2:00', 'atTimeSuffix': 'w', 'deltaOffset': '1:00', 'letter': 'D', 'rawLine': ''}
                rej[(m, dname_i, dom)] = (name, rule)
rules_map = {v[0]: [v[1]] for v in rej.values()}
t = Transformer.__new__(Transformer)
t.all_removed_policies = {}
t._print_removed_map = lambda *a, **k: None
import logging
logging.disable(logging.CRITICAL)
kept = t._create_rules_with_on_day_expansion(rules_map)
admitted = sorted([list(k) for k, v in rej.items() if v[0] in kept])
# the same expressions inside policies of three rules: a harmless weekday rule before and after (a policy is admitted exactly
# when each of its rules is; the verdict must not depend on the position of the offending rule)
import copy
harmless = lambda mon, letter: {'fromYear': 2000, 'toYear': 2010, 'inMonth': mon, 'onDay': 'Sun>=8', 'atTime': '2:00', 'atTimeSuffix': 'w',
                                'deltaOffset': '0' if letter == 'S' else '1:00', 'letter': letter, 'rawLine': ''}
rules_map3 = {v[0]: [harmless(3, 'D'), copy.deepcopy(v[1]), harmless(10, 'S')] for v in rej.values()}
t3 = Transformer.__new__(Transformer)
t3.all_removed_policies = {}
t3._print_removed_map = lambda *a, **k: None
kept3 = t3._create_rules_with_on_day_expansion(rules_map3)
admitted_multi = sorted([list(k) for k, v in rej.items() if v[0] in kept3])
# the contract on expressions that leave the year too: month 0 / 13 (what the UNTIL filter relies on)
contract = []
for y in range(1873, 2127, 11):
    for m in (1, 2, 11, 12):
        for dow in range(1, 8):
            for dom in list(range(-31, 0)) + list(range(1, 32)):
                if abs(dom) > transformer._days_in_month(y, m):
                    continue
                try:
                    r = calc_day_of_month(y, m, dow, dom)
                except Exception as e:
                    r = ('exception', str(e))
                contract.append([y, m, dow, dom, list(r)])
# the real UNTIL-day filter: eras whose UNTIL day is an expression; those that leave the year must be removed
zones = {}
until_cases = []
for y in (2003, 2004, 2006, 2010, 2011):
    for mname, m in (('Jan', 1), ('Dec', 12), ('Mar', 3), ('Apr', 4), ('Nov', 11)):
        for dname_i, dname in enumerate(DAYS, 1):
            for expr, dom in [('%s<=%d' % (dname, k), -k) for k in (1, 2, 3, 6, 7)] + [('%s>=%d' % (dname, k), k) for k in (25, 26, 29, 31 if m in (1, 3, 12) else 30)] + [('last' + dname, 0)]:
                zn = 'U/%d_%s_%s' % (y, mname, expr.replace('<=', 'le').replace('>=', 'ge'))
                zones[zn] = [{'offsetString': '1:00', 'rules': '-', 'format': 'TST', 'untilYear': y, 'untilYearOnly': False, 'untilMonth': m,
                              'untilDayString': expr, 'untilTime': '2:00', 'untilTimeSuffix': 'w', 'rawLine': ''},
                             {'offsetString': '2:00', 'rules': '-', 'format': 'UST', 'untilYear': 10000, 'untilYearOnly': True, 'untilMonth': 1,
                              'untilDayString': '1', 'untilTime': '0', 'untilTimeSuffix': 'w', 'rawLine': ''}]
                until_cases.append([zn, y, m, dname_i, dom])
t2 = Transformer.__new__(Transformer)
t2.all_removed_zones = {}
t2.all_notable_zones = {}
t2._print_removed_map = lambda *a, **k: None
try:
    kept_z = t2._create_zones_with_until_day(zones)
    until = [[zn, y, m, dow, dom, zn in kept_z, (kept_z[zn][0].get('untilDay') if zn in kept_z else None), (kept_z[zn][0].get('untilMonth') if zn in kept_z else None)] for zn, y, m, dow, dom in until_cases]
except Exception as e:
    until = [['exception', str(e)]]
print(json.dumps({'contract': contract, 'until': until, 'n': n, 'bad': bad, 'nparse': np, 'parse_bad': parse_bad[:20], 'admitted': admitted, 'admitted_multi': admitted_multi, 'nexpr': len(rej)}))
