"""Small, independent parser of zic input syntax (Rule / Zone / Link lines) and
exporter to the JSON model consumed by spec/TzSem.tla.

Deliberately independent of AceTime's extractor (tools/tzdb/extractor.py): it is
part of the oracle side. Times are seconds; instants are relative to 2000-01-01.
"""
import calendar
import collections
import datetime
import json
import re

MONTHS = ['january', 'february', 'march', 'april', 'may', 'june', 'july', 'august',
          'september', 'october', 'november', 'december']
DAYS = ['monday', 'tuesday', 'wednesday', 'thursday', 'friday', 'saturday', 'sunday']


def pfx(word, table):
    w = word.lower()
    c = [i for i, n in enumerate(table, 1) if n.startswith(w)]
    if len(c) != 1:
        ex = [i for i, n in enumerate(table, 1) if n == w]
        if len(ex) == 1:
            return ex[0]
        raise ValueError('ambiguous %s' % word)
    return c[0]


def hms(s):
    if s == '-':
        return 0
    neg = s.startswith('-')
    s = s.lstrip('-')
    p = [int(x) for x in s.split(':')]
    p += [0] * (3 - len(p))
    v = p[0] * 3600 + p[1] * 60 + p[2]
    return -v if neg else v


def attime(s):
    suf = 'w'
    if s[-1] in 'wsugz':
        suf = {'w': 'w', 's': 's', 'u': 'u', 'g': 'u', 'z': 'u'}[s[-1]]
        s = s[:-1]
    return hms(s), suf


def dayspec(s):
    if s.isdigit():
        return ('d', 0, int(s))
    if s.lower().startswith('last'):
        return ('last', pfx(s[4:], DAYS), 0)
    m = re.match(r'(\w+)([<>])=(\d+)$', s)
    if not m:
        raise ValueError('bad day spec %r' % s)
    return ('ge' if m.group(2) == '>' else 'le', pfx(m.group(1), DAYS), int(m.group(3)))


def parse(lines):
    """returns (rules: name -> [rule dict], zones: name -> [era dict], links: alias -> target)"""
    rules = collections.defaultdict(list)
    zones = collections.OrderedDict()
    links = {}
    cur = None
    for raw in lines:
        l = raw.split('#')[0].rstrip()
        if not l.strip():
            continue
        t = l.split()
        k = t[0].lower()
        starts_ws = raw[0] in ' \t'
        is_kw = k in ('r', 'rule', 'z', 'zone', 'l', 'link')
        cont = starts_ws or (cur is not None and not is_kw)
        if not cont and k in ('r', 'rule'):
            cur = None
            _, name, fr, to, _typ, mon, on, at, save, letter = t[:10]
            fr = int(fr)
            tl = to.lower()
            to = fr if tl.startswith('o') else (9999 if tl.startswith('ma') else int(to))
            a, suf = attime(at)
            sv = save
            if sv[-1] in 'sd':
                sv = sv[:-1]
            rules[name].append(dict(fr=fr, to=to, mon=pfx(mon, MONTHS), on=dayspec(on), at=a, suf=suf,
                                    save=hms(sv), letter='' if letter == '-' else letter))
        elif not cont and k in ('l', 'link'):
            cur = None
            links[t[2]] = t[1]
        else:
            if not cont and k in ('z', 'zone'):
                name = t[1]
                zones[name] = []
                cur = name
                f = t[2:]
            else:
                f = t
            off = hms(f[0])
            rl = f[1]
            fmt = f[2]
            u = f[3:]
            until = None
            if u:
                y = int(u[0])
                mon = pfx(u[1], MONTHS) if len(u) > 1 else 1
                on = dayspec(u[2]) if len(u) > 2 else ('d', 0, 1)
                a, suf = attime(u[3]) if len(u) > 3 else (0, 'w')
                until = dict(y=y, mon=mon, on=on, at=a, suf=suf)
            if rl == '-':
                r = ('none', 0)
            elif re.match(r'^-?\d', rl):
                r = ('fixed', hms(rl))
            else:
                r = ('named', rl)
            zones[cur].append(dict(off=off, rules=r, fmt=fmt, until=until))
    return rules, zones, links


E0 = datetime.date(2000, 1, 1).toordinal()


def days(y, m, d):
    return datetime.date(y, m, d).toordinal() - E0


def fmtsplit(f):
    if '/' in f:
        a, b = f.split('/', 1)
        return dict(k='slash', a=a, b=b)
    if '%s' in f:
        a, b = f.split('%s', 1)
        return dict(k='pcts', a=a, b=b)
    if '%z' in f:
        a, b = f.split('%z', 1)
        return dict(k='pctz', a=a, b=b)
    return dict(k='plain', a=f, b='')


def export_model(rules, zones, only=None, ymax=2052, tmin=-3653, winlo=0, winhi=18263):
    """JSON model for TzSem.tla: {zones: [{name, eras: [...]}], policies: {name: [...]}}"""
    Z = []
    used = set()
    for name, eras in zones.items():
        if only is not None and name not in only:
            continue
        E = []
        for e in eras:
            kind, val = e['rules']
            u = e['until']
            E.append(dict(off=e['off'], rk=kind, rv=(val if kind == 'fixed' else 0),
                          rn=(val if kind == 'named' else ''), fmt=fmtsplit(e['fmt']),
                          hasu=u is not None, uy=(u['y'] if u else 0), um=(u['mon'] if u else 1),
                          uk=(u['on'][0] if u else 'd'), udow=(u['on'][1] if u else 0),
                          un=(u['on'][2] if u else 1), uat=(u['at'] if u else 0),
                          usuf=(u['suf'] if u else 'w')))
            if kind == 'named':
                used.add(val)
        Z.append(dict(name=name, eras=E))
    P = {}
    for n in sorted(used):
        if n not in rules:
            raise ValueError('zone refers to unknown policy %s' % n)
        P[n] = [dict(fr=r['fr'], to=r['to'], mon=r['mon'], k=r['on'][0], dow=r['on'][1], n=r['on'][2],
                     at=r['at'], suf=r['suf'], save=r['save'], letter=r['letter']) for r in rules[n]]
    if not P:
        # TLC needs a record; keep a dummy unreferenced policy so the JSON object is non-empty
        P['__none__'] = [dict(fr=0, to=0, mon=1, k='d', dow=0, n=1, at=0, suf='w', save=0, letter='')]
    return dict(zones=Z, policies=P, ymax=ymax, tmin=tmin, winlo=winlo, winhi=winhi)


def write_model(path, rules, zones, only=None, **kw):
    m = export_model(rules, zones, only, **kw)
    with open(path, 'w') as f:
        json.dump(m, f)
    return m
