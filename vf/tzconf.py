"""Conformance of a zone database (as interpreted by a real processor) with
TzSem.tla, with zic as the spec's own oracle (DESIGN.md P3 + P1).

Used by C01 (extended), C02 (basic), and for compiled databases by C03/C20.
"""
import json
import os
import subprocess

from . import common, tzparse, zicoracle, dbsource

T0 = 0
T1 = 18263 * 86400       # 2050-01-01


def scan_db(exe, db, nzones, grid, fstride, chunk=6, t0=T0, t1=T1):
    """dense sweep of every zone of `db` ('basic'|'extended'); returns {zone: record}"""
    tasks = [(i, min(i + chunk, nzones)) for i in range(0, nzones, chunk)]

    def one(rng):
        rc, out, err, _w = common.run_cmd([exe, 'scan', db, str(rng[0]), str(rng[1]), str(grid), str(t0), str(t1),
                                           str(fstride), 'x'], timeout=7200)
        if rc != 0:
            return ('crash', rng, rc, (out[-500:], err[-1500:]))
        return ('ok', rng, [json.loads(l) for l in out.splitlines() if l.startswith('{')])

    res = {}
    crashes = []
    for r in common.tmap(one, tasks):
        if r[0] == 'crash':
            crashes.append(r)
        else:
            for rec in r[2]:
                res[rec['zone']] = rec
    return res, crashes


def list_zones(exe, db):
    rc, out, err, _ = common.run_cmd([exe, 'list', db])
    if rc != 0:
        raise common.MachineryError('tzscan list failed: ' + err)
    return out.split()


def run_tzsem(model_path, obs_path, cfg='TzSem_conf.cfg', timeout=1800):
    res = common.run_tlc('TzSem', cfg, env={'TZ_MODEL': model_path, 'TZ_OBS': obs_path}, timeout=timeout)
    common.tlc_must_pass(res, 'TzSem (%s)' % cfg)
    verdicts = {}
    for v in common.tlc_prints(res.out):
        if isinstance(v, dict) and 'zone' in v:
            verdicts[v['zone']] = v
    return res, verdicts


def check_database(chk, exe, db, dbdir, grid, fstride, label):
    """The C01/C02 core. Adds violations/coverage to `chk`; returns (impl, specpieces, names)."""
    work = common.scratch('%s-%s' % (chk.pid, label))
    lines, links = dbsource.reconstruct(dbdir)
    rules, zones, _ = tzparse.parse(lines)
    names = list_zones(exe, db)
    if sorted(names) != sorted(zones.keys()):
        # a zone in the registry without recorded lines (or vice versa) cannot be judged
        missing = sorted(set(names) ^ set(zones.keys()))
        chk.violation('%s:registry-vs-recorded-lines' % label,
                      'registry zones and zones with recorded source lines differ: %s' % missing[:10], {'missing': missing})
        names = [n for n in names if n in zones]
    model_path = os.path.join(work, 'model.json')
    tzparse.write_model(model_path, rules, zones, only=set(names))
    zic, zmsg = zicoracle.compile_and_dump(lines, names, work)
    if zmsg.strip():
        chk.notes.append('zic messages: ' + zmsg.strip()[:300])
    impl, crashes = scan_db(exe, db, len(list_zones(exe, db)), grid, fstride)
    for c in crashes:
        chk.violation('%s:crash:zones%d-%d' % (label, c[1][0], c[1][1]), 'sweep crashed rc=%s %s' % (c[2], c[3]), {'range': c[1]})
    obs = {'impl': {n: impl[n]['pieces'] for n in names if n in impl}, 'zic': {n: zic[n] for n in names}}
    obs['impl']['__none__'] = []
    obs['zic']['__none__'] = []
    obs_path = os.path.join(work, 'obs.json')
    json.dump(obs, open(obs_path, 'w'))
    res, verdicts = run_tzsem(model_path, obs_path)
    if set(verdicts) != set(names):
        raise common.MachineryError('TLC judged %d zones, expected %d' % (len(verdicts), len(names)))
    nprobe = 0
    spec = {}
    for n in names:
        v = verdicts[n]
        spec[n] = v['pieces']
        if not v['zic']['ok']:
            raise common.MachineryError('TzSem disagrees with zic on %s at piece %s: spec=%s zic=%s' % (
                n, v['zic']['at'], v['zic']['spec'], v['zic']['obs']))
        if n not in impl:
            continue
        nprobe += impl[n]['nprobe']
        if not v['impl']['ok']:
            chk.violation('%s:%s:piece' % (label, n),
                          'observed run-length trace rejected by TzSem at piece %d: spec=%s impl=%s' % (
                              v['impl']['at'], v['impl']['spec'], v['impl']['obs']),
                          {'zone': n, 'db': db, 'at': v['impl']['at'], 'spec': v['impl']['spec'], 'impl': v['impl']['obs'],
                           'replay': 'tzscan probe %s <index of %s> <instants around the piece>' % (db, n)})
        for ff in impl[n]['fieldfail']:
            chk.violation('%s:%s:fields' % (label, n), 'ZonedDateTime::forEpochSeconds fields are not the UTC fields shifted by the offset: %s' % ff,
                          {'zone': n, 'db': db, 'detail': ff})
    # spec -> code: probe the real code at t-1, t, t+1 of every transition the spec derives
    idx = {n: i for i, n in enumerate(list_zones(exe, db))}

    def probe(n):
        ps = spec[n]
        ts = []
        for k in range(1, len(ps)):
            t = ps[k][0] * 86400 + ps[k][1]
            ts += [t - 1, t, t + 1]
        if not ts:
            ts = [T0, T1 - 1]
        rc, out, err, _ = common.run_cmd([exe, 'probe', db, str(idx[n])] + [str(t) for t in ts])
        if rc != 0:
            return n, None, (rc, err[-800:])
        return n, json.loads(out)['obs'], None

    nspec = 0
    for n, ob, err in common.tmap(probe, [n for n in names if n in impl]):
        if err:
            chk.violation('%s:%s:probe-crash' % (label, n), 'probe crashed: %s' % (err,), {'zone': n})
            continue
        ps = spec[n]

        def expect(t):
            cur = ps[0]
            for p in ps:
                if p[0] * 86400 + p[1] <= t:
                    cur = p
            return cur[2], cur[3], cur[4]
        for t, utoff, delta, abbr, fok in ob:
            nspec += 1
            e = expect(t)
            if (utoff, 1 if delta else 0, abbr) != (e[0], e[1], e[2]) or not fok:
                chk.violation('%s:%s:spec-transition-probe' % (label, n),
                              'at t=%d the code answers %s, the spec %s (fields ok=%s)' % (t, (utoff, delta, abbr), e, fok),
                              {'zone': n, 't': t})
                break
    chk.add(states=res.distinct, transitions=res.generated, traces_validated_against_impl=len([n for n in names if n in impl]))
    chk.add(**{'impl_observations_' + label: nprobe, 'spec_transition_probes_' + label: nspec,
               'zones_' + label: len(names), 'pieces_' + label: sum(len(spec[n]) for n in names),
               'zic_traces_accepted_' + label: len(names), 'grid_seconds': grid})
    for n in names[:2] + [n for n in names if len(spec[n]) > 60][:1]:
        chk.sample({'zone': n, 'db': db, 'first_pieces': spec[n][:4], 'npieces': len(spec[n])})
    return impl, spec, names


# --------------------------------------------------------------------------
# wall-clock resolution (C07; reused by C04 for the Python twin)
# --------------------------------------------------------------------------
MAXOFF = 57600


def wall_windows(pieces, rnd, nrandom, halfwidth=200 * 60, full=False):
    """windows of wall time (seconds from 2000-01-01 on the local clock) to sweep"""
    # every local date-time of the supported years 2000..2049 (wall clock); the instants may lie up to a day outside
    lo, hi = T0, T1
    if full:
        return [(lo, hi)]
    wins = []
    for k in range(1, len(pieces)):
        t = pieces[k][0] * 86400 + pieces[k][1]
        b, a = pieces[k - 1][2], pieces[k][2]
        wins.append((t + min(a, b) - halfwidth, t + max(a, b) + halfwidth + 60))
    for _ in range(nrandom):
        w = rnd.randrange(lo, hi - 60)
        w -= w % 60
        wins.append((w, w + 60))
    # the first and the last day of the supported years
    wins.append((lo, lo + 86400))
    wins.append((hi - 86400, hi))
    wins = sorted((max(lo, a), min(hi, b)) for a, b in wins if min(hi, b) > max(lo, a))
    merged = []
    for a, b in wins:
        if merged and a <= merged[-1][1]:
            merged[-1] = (merged[-1][0], max(merged[-1][1], b))
        else:
            merged.append((a, b))
    return merged


def run_wall(exe, db, names_idx, windows, grid=60):
    """windows: {zone: [(w0, w1)]}; returns {zone: [window records]}, crashes"""
    zones = list(windows.keys())
    nproc = common.NCPU
    buckets = [zones[i::nproc] for i in range(nproc)]

    def one(bucket):
        inp = ''.join('%d %d %d %d\n' % (names_idx[z], a, b, grid) for z in bucket for a, b in windows[z])
        rc, out, err, _ = common.run_cmd([exe, 'wall', db], input=inp, timeout=7200)
        recs = [json.loads(l) for l in out.splitlines() if l.startswith('{')]
        return bucket, rc, recs, err[-1500:]

    inv = {i: z for z, i in names_idx.items()}
    res = {z: [] for z in zones}
    crashes = []
    for bucket, rc, recs, err in common.tmap(one, [b for b in buckets if b]):
        for r in recs:
            res[inv[r['zi']]].append(r)
        if rc != 0:
            crashes.append((bucket, rc, err))
    return res, crashes


def check_wall(chk, exe, db, dbdir, policy, label, nrandom, full=False, grid=60):
    import random
    work = common.scratch('%s-wall-%s' % (chk.pid, label))
    lines, links = dbsource.reconstruct(dbdir)
    rules, zones, _ = tzparse.parse(lines)
    allnames = list_zones(exe, db)
    idx = {n: i for i, n in enumerate(allnames)}
    names = [n for n in allnames if n in zones]
    model_path = os.path.join(work, 'model.json')
    # the model's observation window is widened by two days on either side: wall times of 2000-01-01 / 2049-12-31 map to
    # instants just outside [2000, 2050)
    tzparse.write_model(model_path, rules, zones, only=set(names), winlo=-2, winhi=18265)
    zic, _msg = zicoracle.compile_and_dump(lines, names, work)
    rnd = random.Random(common.seed() * 7919 + 17)
    windows = {n: wall_windows(zic[n], rnd, nrandom, full=full) for n in names}
    res, crashes = run_wall(exe, db, idx, windows, grid)
    for bucket, rc, err in crashes:
        chk.violation('%s:wall-crash' % label, 'forComponents sweep crashed rc=%s zones=%s... %s' % (rc, bucket[:3], err), {'zones': bucket})
    wobs = {}
    ncalls = 0
    for n in names:
        wobs[n] = [{'w0': r['w0'], 'w1': r['w1'], 'pieces': r['pieces']} for r in res[n]]
        for r in res[n]:
            ncalls += r['n']
            if r['normfail']:
                chk.violation('%s:%s:not-normalised' % (label, n), 'forComponents result is not normalised: %s' % r['normfail'], {'zone': n, 'detail': r['normfail']})
    nwin = judge_wall(chk, label, db, work, model_path, names, wobs, policy, 'norm')
    chk.add(**{'forComponents_calls_' + label: ncalls, 'windows_' + label: nwin, 'zones_' + label: len(names)})
    ex = next((n for n in names if len(wobs[n]) > 3), names[0])
    chk.sample({'zone': ex, 'db': db, 'policy': policy, 'window': wobs[ex][0] if wobs[ex] else None})
    return wobs


def judge_wall(chk, label, db, work, model_path, names, wobs, policy, mode):
    """TLC judges recorded wall-clock resolutions {zone: [{w0, w1, pieces}]} against TzSem.tla Allowed(w, policy)"""
    wobs = dict(wobs)
    wobs['__none__'] = []
    wall_path = os.path.join(work, 'wall-%s.json' % label.replace('/', '_').replace(':', '_'))
    json.dump(wobs, open(wall_path, 'w'))
    tres = common.run_tlc('TzSem', 'TzSem_wall.cfg', env={'TZ_MODEL': model_path, 'TZ_WALL': wall_path, 'TZ_POLICY': policy, 'TZ_OBS': wall_path, 'TZ_WALLMODE': mode}, timeout=3000)
    common.tlc_must_pass(tres, 'TzSem wall (%s)' % label)
    verdicts = {v['wzone']: v for v in common.tlc_prints(tres.out) if isinstance(v, dict) and 'wzone' in v}
    if set(verdicts) != set(names):
        raise common.MachineryError('TLC judged %d zones for wall resolution, expected %d' % (len(verdicts), len(names)))
    nwin = 0
    for n in names:
        v = verdicts[n]
        nwin += v['nwin']
        if v['nbad']:
            f = v['first']
            w = f[2] * 86400 + f[3]
            chk.violation('%s:%s:resolve' % (label, n),
                          '%d window(s) rejected; first: wall day %d sec %d -> code answers shift=%s off=%s err=%s, spec allows %s (policy %s)' % (
                              v['nbad'], f[2], f[3], f[4], f[5], f[6], v['want'], policy),
                          {'zone': n, 'db': db, 'wall_seconds_from_2000': w, 'got': f[4:], 'allowed': v['want']})
    chk.add(states=tres.distinct, transitions=tres.generated, traces_validated_against_impl=len(names))
    return nwin


def check_configurations(chk, exe, db, label, grid=86400 * 3 + 3600 * 7):
    """manager-created time zones (2 cache slots, 5 zones in rotation) and direct time zones sharing one processor must answer
    like a time zone with its own processor (whose sweep TzSem.tla judges), at every grid instant of 2000..2049"""
    names = list_zones(exe, db)
    n = len(names)

    def one(rng):
        rc, out, err, _ = common.run_cmd([exe, 'cfgscan', db, str(rng[0]), str(rng[1]), str(grid), str(T0), str(T1)], timeout=3000)
        return rng, rc, [json.loads(l) for l in out.splitlines() if l.startswith('{')], err[-600:]
    nq = 0
    for rng, rc, recs, err in common.tmap(one, [(i, min(i + 5, n)) for i in range(0, n, 5)]):
        if rc != 0 or not recs:
            chk.violation('%s:configurations:crash:%d-%d' % ((label,) + rng), 'configuration sweep crashed rc=%s %s' % (rc, err), {'range': list(rng)})
            continue
        r = recs[0]
        nq += r['nq']
        for b in r['bad']:
            chk.violation('%s:%s:via-%s' % (label, b['zone'], b['via']), '%s asked through a %s at t=%d answers (offset, dst, abbrev)=%s, a time zone with its own processor %s (%d such answers in zones %s)' % (
                b['zone'], b['via'], b['t'], b['got'], b['want'], r['nbad'], [names[k] for k in range(rng[0], rng[1])]), b)
    chk.add(**{'configuration_queries_' + label: nq})
