"""Python side of C04 / C08(python) / C20: drives the real ZoneSpecifier on zone data given as JSON
(the shipped C++ tables decoded through the brokers, or any table in the Python data model).

usage: pydrv_zs.py <zones.json> <out.json> <mode> [start_year until_year]
  zones.json: {"zones": {name: {"eras": [...]}}, "policies": {pname: [rules]}}  (dbdump shape, see C04.py) or {"module": "zonedbpy"}
  mode: instants  -> run-length pieces of get_timezone_info_for_seconds for all 8 option combinations
        wall      -> for the windows given in zones.json["windows"][name] = [[w0, w1], ..]: run-length of the offset selected by
                     get_timezone_info_for_datetime (default options and one alternative)
        tables    -> the finished per-year transition table of a fresh ZoneSpecifier for every year (binding of ExtProc.tla)
        history   -> seeded random call histories on one reused ZoneSpecifier vs a fresh one per call (C08, Python cache)
"""
import datetime
import json
import multiprocessing
import os
import random
import sys
import logging

logging.disable(logging.CRITICAL)
from zonedb.zone_specifier import ZoneSpecifier

_G = {}
E2000 = datetime.datetime(2000, 1, 1)


def build_infos(data):
    if 'module' in data:
        import importlib
        m = importlib.import_module(data['module'] + '.zone_infos')
        return {zi['name']: zi for zi in m.ZONE_INFO_MAP.values()}
    pols = {}
    for pname, rules in data['policies'].items():
        pols[pname] = {'name': pname, 'rules': [{
            'fromYear': 0 if r['fromYear'] == 1873 else r['fromYear'], 'toYear': 9999 if r['toYear'] == 2126 else (0 if r['toYear'] == 1873 else r['toYear']),
            'inMonth': r['inMonth'], 'onDayOfWeek': r['onDayOfWeek'], 'onDayOfMonth': r['onDayOfMonth'],
            'atSeconds': r['atMinutes'] * 60, 'atTimeSuffix': r['atSuffix'], 'deltaSeconds': r['deltaMinutes'] * 60, 'letter': r['letter']} for r in rules]}
    infos = {}
    for name, z in data['zones'].items():
        eras = []
        for e in z['eras']:
            if e['policy'] is None or e['policy'] == -1:
                pol = ':' if e['deltaMinutes'] else '-'
            else:
                pol = pols[str(e['policy'])]
            eras.append({'offsetSeconds': e['offsetMinutes'] * 60, 'zonePolicy': pol, 'rulesDeltaSeconds': e['deltaMinutes'] * 60,
                         'format': e['format'].replace('%', '%s') if '%s' not in e['format'] else e['format'],
                         'untilYear': 10000 if e['untilYear'] == 2127 else e['untilYear'], 'untilMonth': e['untilMonth'], 'untilDay': e['untilDay'],
                         'untilSeconds': e['untilMinutes'] * 60, 'untilTimeSuffix': e['untilSuffix']})
        infos[name] = {'name': name, 'eras': eras}
    return infos


def obs(zs, t):
    try:
        info = zs.get_timezone_info_for_seconds(t)
    except SystemExit:
        return ['exit']
    except Exception as e:
        return ['exception', type(e).__name__]
    return [info[0], info[2], info[3]]


def pieces_job(args):
    name, opts, t0, t1 = args
    zs = ZoneSpecifier(_G['infos'][name], viewing_months=opts[0], in_place_transitions=opts[1], optimize_candidates=opts[2])
    grid = 86400
    cur = obs(zs, t0)
    ps = [[t0, cur]]
    n = 1
    t = t0 + grid
    while True:
        last = t >= t1
        if last:
            t = t1 - 1
        o = obs(zs, t)
        n += 1
        lo = ps[-1][0] if last else max(t - grid, ps[-1][0])
        while o != cur:
            a, b = lo, t
            while b - a > 1:
                m = (a + b) // 2
                n += 1
                if obs(zs, m) != cur:
                    b = m
                else:
                    a = m
            cur = obs(zs, b)
            ps.append([b, cur])
            lo = b
        if last:
            break
        t += grid
    return name, opts, ps, n


def wsel(zs, w):
    dt = E2000 + datetime.timedelta(seconds=w)
    try:
        info = zs.get_timezone_info_for_datetime(dt)
    except SystemExit:
        return 'exit'
    except Exception as e:
        return 'exception:' + type(e).__name__
    return None if info is None else info[0]


def wall_job(args):
    name, opts, windows = args
    zs = ZoneSpecifier(_G['infos'][name], viewing_months=opts[0], in_place_transitions=opts[1], optimize_candidates=opts[2])
    out = []
    n = 0
    for w0, w1 in windows:
        cur = wsel(zs, w0)
        ps = [[w0, cur]]
        lo = w0
        w = w0 + 60
        while True:
            last = w >= w1
            if last:
                w = w1 - 1
            if w <= lo:
                break
            o = wsel(zs, w)
            n += 1
            while o != cur:
                a, b = lo, w
                while b - a > 1:
                    m = (a + b) // 2
                    n += 1
                    if wsel(zs, m) != cur:
                        b = m
                    else:
                        a = m
                cur = wsel(zs, b)
                ps.append([b, cur])
                lo = b
            lo = w
            if last:
                break
            w += 60
        out.append([w0, w1, ps])
    return name, opts, out, n


def history_job(args):
    name, seed, length = args
    rnd = random.Random(seed)
    zi = _G['infos'][name]
    combos = [(vm, ip, oc) for vm in (13, 14) for ip in (True, False) for oc in (True, False)]
    opts = rnd.choice(combos)
    zs = ZoneSpecifier(zi, viewing_months=opts[0], in_place_transitions=opts[1], optimize_candidates=opts[2])
    bad = []
    events = []
    for k in range(length):
        y = rnd.choice([2000, 2005, 2006, 2020, 2049, rnd.randint(2000, 2049)])
        t = int((datetime.datetime(y, 1, 1) - E2000).total_seconds()) + rnd.randrange(0, 365 * 86400)
        kind = rnd.choice(['seconds', 'seconds', 'datetime', 'init'])
        fresh = ZoneSpecifier(zi, viewing_months=opts[0], in_place_transitions=opts[1], optimize_candidates=opts[2])
        if kind == 'seconds':
            a, b = obs(zs, t), obs(fresh, t)
        elif kind == 'datetime':
            a, b = wsel(zs, t), wsel(fresh, t)
        else:
            zs.init_for_year(y)
            fresh.init_for_year(y)
            a = [[tr.startEpochSecond, tr.offsetSeconds + tr.deltaSeconds, tr.abbrev] for tr in zs.transitions]
            b = [[tr.startEpochSecond, tr.offsetSeconds + tr.deltaSeconds, tr.abbrev] for tr in fresh.transitions]
        events.append([kind, y, zs.year])
        if a != b and len(bad) < 3:
            bad.append({'zone': name, 'step': k, 'kind': kind, 'arg': t, 'reused': a, 'fresh': b, 'opts': list(opts)})
    return name, bad, events


def tables_job(args):
    """the finished per-year table of a fresh ZoneSpecifier (default options), in the shape ExtProc_MC judges"""
    name, y0, y1 = args
    zi = _G['infos'][name]
    years = {}
    for y in range(y0, y1 + 1):
        zs = ZoneSpecifier(zi)
        try:
            zs.init_for_year(y)
        except SystemExit:
            years[str(y)] = {'filled': 0, 'nm': 0, 'hw': -1, 'rows': [], 'error': 'exit'}
            continue
        except Exception as e:
            years[str(y)] = {'filled': 0, 'nm': 0, 'hw': -1, 'rows': [], 'error': type(e).__name__}
            continue
        rows = []
        for t in zs.transitions:
            sd, ud = t.startDateTime, t.untilDateTime
            rows.append([t.startEpochSecond, t.offsetSeconds // 60, t.deltaSeconds // 60, t.abbrev,
                         [sd.y, sd.M, sd.d, sd.ss // 60, sd.f], [ud.y, ud.M, ud.d, ud.ss // 60, ud.f]])
        years[str(y)] = {'filled': 1, 'nm': len(zs.matches), 'hw': -1, 'rows': rows, 'est': zs.max_transition_buffer_size}
    return name, years


def main():
    data = json.load(open(sys.argv[1]))
    mode = sys.argv[3]
    infos = build_infos(data)
    _G['infos'] = infos
    y0, y1 = (int(sys.argv[4]), int(sys.argv[5])) if len(sys.argv) > 5 else (2000, 2050)
    t0 = int((datetime.datetime(y0, 1, 1) - E2000).total_seconds())
    t1 = int((datetime.datetime(y1, 1, 1) - E2000).total_seconds())
    if data.get('range'):
        t0, t1 = data['range']       # explicit instants (seconds from 2000-01-01) instead of whole years
    combos = [(vm, ip, oc) for vm in (13, 14) for ip in (True, False) for oc in (True, False)]
    names = sorted(data.get('only') or infos.keys())
    res = {'names': names}
    with multiprocessing.Pool(os.cpu_count()) as pool:
        if mode == 'instants':
            out = pool.map(pieces_job, [(n, c, t0, t1) for n in names for c in (combos if data.get('all_options', True) else [(14, True, True)])], chunksize=4)
            pieces = {}
            nobs = 0
            for n, c, ps, k in out:
                pieces.setdefault(n, {})['%d-%d-%d' % (c[0], int(c[1]), int(c[2]))] = ps
                nobs += k
            res['pieces'] = pieces
            res['nobs'] = nobs
        elif mode == 'wall':
            out = pool.map(wall_job, [(n, c, data['windows'][n]) for n in names for c in ((14, True, True), (13, False, False))], chunksize=2)
            wall = {}
            nobs = 0
            for n, c, w, k in out:
                wall.setdefault(n, {})['%d-%d-%d' % (c[0], int(c[1]), int(c[2]))] = w
                nobs += k
            res['wall'] = wall
            res['nobs'] = nobs
        elif mode == 'tables':
            out = pool.map(tables_job, [(n, y0, y1) for n in names], chunksize=4)
            res['tables'] = dict(out)
        elif mode == 'history':
            seed = data.get('seed', 0)
            out = pool.map(history_job, [(n, seed * 100003 + i, data.get('length', 40)) for i, n in enumerate(names)], chunksize=2)
            res['bad'] = [b for _n, bad, _e in out for b in bad]
            res['ncalls'] = sum(len(e) for _n, _b, e in out)
            res['sample'] = out[0][2][:6] if out else []
    json.dump(res, open(sys.argv[2], 'w'))
    print('ok')


if __name__ == '__main__':
    main()
