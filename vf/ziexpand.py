"""Expand the compact zic input form (tzdata.zi: the only form of a tzdata release present in the sandbox)
into the long form of the distributed files, which is what AceTime's extractor reads.
The expansion is purely lexical; it is validated by compiling both texts with zic and comparing the output."""
import os
import re

MONTHS = ['January', 'February', 'March', 'April', 'May', 'June', 'July', 'August', 'September', 'October', 'November', 'December']
DAYS = ['Monday', 'Tuesday', 'Wednesday', 'Thursday', 'Friday', 'Saturday', 'Sunday']


def _pfx(word, table):
    w = word.lower()
    c = [n for n in table if n.lower().startswith(w)]
    if len(c) != 1:
        raise ValueError('ambiguous or unknown name %r' % word)
    return c[0][:3]


def _month(w):
    return _pfx(w, MONTHS)


def _on(w):
    if w.isdigit():
        return w
    if w.lower().startswith('last'):
        return 'last' + _pfx(w[4:], DAYS)
    m = re.match(r'^([A-Za-z]+)([<>]=)(\d+)$', w)
    if not m:
        raise ValueError('bad ON %r' % w)
    return _pfx(m.group(1), DAYS) + m.group(2) + m.group(3)


def _time(w):
    """AT / UNTIL / SAVE / STDOFF as the distributed files write them: h:mm with optional suffix"""
    m = re.match(r'^(-?)(\d+)(?::(\d+))?(?::(\d+))?([wsugz]?)$', w)
    if not m:
        return w
    sign, h, mi, s, suf = m.groups()
    out = '%s%s:%s' % (sign, h, mi if mi is not None else '00')
    if s is not None:
        out += ':' + s
    return out + suf


def _until(fields):
    out = []
    if len(fields) > 0:
        out.append(fields[0])
    if len(fields) > 1:
        out.append(_month(fields[1]))
    if len(fields) > 2:
        out.append(_on(fields[2]))
    if len(fields) > 3:
        out.append(_time(fields[3]))
    return out


def _rules_field(w):
    if w == '-' or re.match(r'^[A-Za-z_]', w):
        return w
    return _time(w)


def expand(text):
    out = []
    for raw in text.splitlines():
        line = raw.split('#')[0].rstrip()
        if not line.strip():
            continue
        f = line.split()
        tag = f[0]
        if tag == 'R':
            _, name, fr, to, typ, mon, on, at, save, letter = f[:10]
            tl = to.lower()
            to = 'only' if tl.startswith('o') else 'max' if tl.startswith('ma') else to
            sv = save
            out.append('Rule\t%s\t%s\t%s\t%s\t%s\t%s\t%s\t%s\t%s' % (name, fr, to, typ, _month(mon), _on(on), _time(at), _time(sv) if sv not in ('0', '-') else '0', letter))
        elif tag == 'Z':
            name = f[1]
            rest = f[2:]
            out.append('Zone\t%s\t%s\t%s\t%s%s' % (name, _time(rest[0]) if rest[0] != '0' else '0:00', _rules_field(rest[1]), rest[2], ''.join('\t' + x for x in _until(rest[3:]))))
        elif tag == 'L':
            out.append('Link\t%s\t%s' % (f[1], f[2]))
        else:
            # continuation line of the current zone
            out.append('\t\t\t%s\t%s\t%s%s' % (_time(f[0]) if f[0] != '0' else '0:00', _rules_field(f[1]), f[2], ''.join('\t' + x for x in _until(f[3:]))))
    return out


FILES = ['africa', 'antarctica', 'asia', 'australasia', 'backward', 'etcetera', 'europe', 'northamerica', 'southamerica']


def write_input_dir(lines, d):
    """all lines into 'africa', the other eight files the extractor opens are created empty"""
    os.makedirs(d, exist_ok=True)
    for n in FILES:
        with open(os.path.join(d, n), 'w') as f:
            if n == 'africa':
                f.write('\n'.join(lines) + '\n')
    return d
