"""Python side of C12(a): the real encoder functions of tools/zonedb/argenerator.py on the full product of values.
Prints rows in the shape of MC_Encoding's dump."""
import json
import sys
from zonedb import argenerator as ag
from tzdb.transformer import div_to_zero

SUF = {'basic::ZoneContext::kSuffixW': 0, 'basic::ZoneContext::kSuffixS': 16, 'basic::ZoneContext::kSuffixU': 32,
       'extended::ZoneContext::kSuffixW': 0, 'extended::ZoneContext::kSuffixS': 16, 'extended::ZoneContext::kSuffixU': 32}


def ev(expr):
    """the value of the C++ constant expression the generator emits (an explicit (int8_t) cast wraps; without a cast the
    value is what the initializer list is given -- outside -128..127 the compiler rejects it)"""
    for k, v in SUF.items():
        expr = expr.replace(k, str(v))
    expr = expr.replace('(int8_t) (', 'int8_t(')
    return eval(expr, {'__builtins__': {}, 'int8_t': lambda v: ((v + 128) % 256) - 128})


rows = []
for scope in ('basic', 'extended'):
    for sec in range(0, 1501):
        for suf in 'wsu':
            code, mod = ag._to_code_and_modifier(sec * 60, suf, scope)
            rows.append(['time', sec * 60, suf, code, ev(mod), scope])
for m in range(-960, 961):
    s = m * 60
    oc, dc0 = ag._to_extended_offset_and_delta(s, 0)
    _oc, dc1 = ag._to_extended_offset_and_delta(s, 3600)
    rows.append(['offset', s, div_to_zero(s, 900), oc, ev(dc0), ev(dc1)])
for d in range(-4, 12):
    rows.append(['delta', d * 900, div_to_zero(d * 900, 900), ev(ag._to_extended_delta_code(d * 900))])
for y in list(range(1872, 2128)) + [9999, 0]:
    rows.append(['year', y, ag.to_tiny_year(y)])
json.dump(rows, sys.stdout)
