"""Python side of C19: drives the REAL validation-data generators (tools/compare_pytz, tools/compare_dateutil).

usage: pydrv_tdgen.py replay <cases.json> <out.json>     TLC-enumerated step functions through the real classes with a fake tzinfo
       pydrv_tdgen.py real <spec.json> <out.json>        real zones of the installed library; the library's own transition table
       pydrv_tdgen.py zst <spec.json> <out.json>         tools/validator/zstdgenerator.py on the zones of tools/zonedbpy
"""
import datetime as dtm
import json
import logging
import multiprocessing
import os
import sys

logging.disable(logging.CRITICAL)
UTC = dtm.timezone.utc
E2000 = dtm.datetime(2000, 1, 1, tzinfo=UTC)


class StepTz(dtm.tzinfo):
    """a time zone that is an arbitrary step function of UTC: changes = [(utc datetime, (utcoffset min, dst min))]"""

    def __init__(self, first, changes):
        self.first = first
        self.changes = changes

    def _at_utc(self, u):
        cur = self.first
        for when, val in self.changes:
            if when <= u:
                cur = val
            else:
                break
        return cur

    def fromutc(self, dt):
        u = dt.replace(tzinfo=None)
        off, dst = self._at_utc(u)
        r = (u + dtm.timedelta(minutes=off)).replace(tzinfo=self)
        return _Tagged.wrap(r, off, dst)

    def utcoffset(self, dt):
        return dtm.timedelta(minutes=getattr(dt, '_off', self.first[0]))

    def dst(self, dt):
        return dtm.timedelta(minutes=getattr(dt, '_dst', self.first[1]))

    def tzname(self, dt):
        return 'T%d/%d' % (getattr(dt, '_off', 0), getattr(dt, '_dst', 0))

    # pytz flavour
    def localize(self, dt):
        return self.fromutc((dt - dtm.timedelta(minutes=self.first[0])).replace(tzinfo=self))

    def normalize(self, dt):
        return dt


class _Tagged(dtm.datetime):
    """datetime that remembers the offsets fromutc() chose (wall times can be ambiguous)"""
    @classmethod
    def wrap(cls, d, off, dst):
        r = cls(d.year, d.month, d.day, d.hour, d.minute, d.second, d.microsecond, tzinfo=d.tzinfo)
        r._off = off
        r._dst = dst
        return r

    def astimezone(self, tz=None):
        u = (self.replace(tzinfo=None) - dtm.timedelta(minutes=self._off)).replace(tzinfo=UTC)
        return u if tz is UTC or tz is None else tz.fromutc(u.replace(tzinfo=tz))

    def timestamp(self):
        return ((self.replace(tzinfo=None) - dtm.timedelta(minutes=self._off)).replace(tzinfo=UTC) - dtm.datetime(1970, 1, 1, tzinfo=UTC)).total_seconds()


def gen_class(flavour):
    if flavour == 'pytz':
        from compare_pytz.tdgenerator import TestDataGenerator
    else:
        from compare_dateutil.tdgenerator import TestDataGenerator
    return TestDataGenerator


class _LateStart(dtm.datetime):
    """stands in for the name `datetime` inside the generator module while replaying: the scan that the generator starts at
    Jan 1 00:00 of start_year starts `_LateStart.skip` minutes later instead (a sample point of the same lattice), so that the
    hundred thousand change-free sampling steps before the window are not executed for every case. A sample of cases is
    also run without this shortcut and must give identical results."""
    skip = 0
    year = 0

    def __new__(cls, *a, **k):
        d = dtm.datetime(*a, **k)
        if d.year == cls.year and d.month == 1 and d.day == 1 and d.hour == 0 and d.minute == 0 and d.tzinfo is not None and cls.skip:
            d = d + dtm.timedelta(minutes=cls.skip)
        return d


def replay_case(args):
    flavour, year, case = args
    G = gen_class(flavour)
    import importlib
    mod = importlib.import_module(G.__module__)
    if case.get('fast', True):
        total = int((dtm.datetime(year + 1, 1, 1) - dtm.datetime(year, 1, 1)).total_seconds() // 60)
        keep = case['H'] + 3 * case['I']
        _LateStart.skip = ((total - keep) // case['I']) * case['I']
        _LateStart.year = year
        mod.datetime = _LateStart
    else:
        _LateStart.skip = 0
        mod.datetime = dtm.datetime
    g = G(start_year=year, until_year=year + 1, sampling_interval=1, detect_dst_transition=case.get('detect', True))
    g.sampling_interval = dtm.timedelta(minutes=case['I'])
    until = dtm.datetime(year + 1, 1, 1)
    w0 = until - dtm.timedelta(minutes=case['H'])
    vals = [tuple(v) for v in case['vals']]
    # optional rendering of the model's abstract values as other concrete offsets with the same equalities (e.g. two UTC
    # offsets exactly one day apart); items are reported in the abstract values again
    vmap = case.get('map')
    inv = {}
    if vmap:
        inv = {tuple(v): tuple(int(x) for x in k.split(',')) for k, v in vmap.items()}
        vals = [tuple(vmap['%d,%d' % v]) for v in vals]
    tz = StepTz(vals[0], [(w0 + dtm.timedelta(minutes=c), vals[k + 1]) for k, c in enumerate(case['chg'])])
    try:
        tr = g._find_transitions(tz)
        rec = []
        for left, right, only in tr:
            lm = int(round((left.astimezone(UTC).replace(tzinfo=None) - w0).total_seconds() / 60))
            rm = int(round((right.astimezone(UTC).replace(tzinfo=None) - w0).total_seconds() / 60))
            rec.append([lm, rm, bool(only)])
        items_map = {}
        g._add_test_items_for_transitions(items_map, tz)
        base = int((w0.replace(tzinfo=UTC) - E2000).total_seconds())
        items = sorted([int((e - base) // 60), it['type']] + list(inv.get((it['total_offset'] // 60, it['dst_offset'] // 60), (it['total_offset'] // 60, it['dst_offset'] // 60))) for e, it in items_map.items())
        return {'recorded': rec, 'items': items}
    except Exception as e:
        return {'error': '%s: %s' % (type(e).__name__, e)}


def real_zone(args):
    flavour, zone, start, until, interval, full = args
    G = gen_class(flavour)
    g = G(start_year=start, until_year=until, sampling_interval=interval)
    try:
        items = g._create_test_items_for_zone(zone)
    except Exception as e:
        return zone, {'error': '%s: %s' % (type(e).__name__, e)}
    if items is None:
        return zone, {'missing': True}
    lo = int((dtm.datetime(start, 1, 1) - dtm.datetime(2000, 1, 1)).total_seconds())
    hi = int((dtm.datetime(until, 1, 1) - dtm.datetime(2000, 1, 1)).total_seconds())
    changes = []
    if flavour == 'pytz':
        import pytz
        tz = pytz.timezone(zone)
        tt = getattr(tz, '_utc_transition_times', None)
        if tt:
            infos = tz._transition_info
            for k in range(1, len(tt)):
                t = int((tt[k] - dtm.datetime(2000, 1, 1)).total_seconds())
                a, b = infos[k - 1], infos[k]
                if lo < t < hi and (a[0] != b[0] or a[1] != b[1]):
                    changes.append([t, int(a[0].total_seconds()), int(a[1].total_seconds()), int(b[0].total_seconds()), int(b[1].total_seconds())])
        zi = tz
        def at(e):
            d = dtm.datetime.fromtimestamp(e + 946684800, tz=UTC).astimezone(zi)
            return d
    else:
        from dateutil.tz import gettz
        tz = gettz(zone)
        tl = getattr(tz, '_trans_list_utc', None)
        if tl:
            idx = tz._trans_idx
            prev = tz._ttinfo_before
            for k, t_unix in enumerate(tl):
                t = t_unix - 946684800
                cur = idx[k]
                a = (int(prev.delta.total_seconds()), int((prev.dstoffset or dtm.timedelta(0)).total_seconds())) if prev is not None else None
                b = (int(cur.delta.total_seconds()), int((cur.dstoffset or dtm.timedelta(0)).total_seconds()))
                if a is not None and lo < t < hi and a != b:
                    changes.append([t, a[0], a[1], b[0], b[1]])
                prev = cur
        def at(e):
            return dtm.datetime.fromtimestamp(e + 946684800, tz=UTC).astimezone(tz)
    # keep only the table entries at which the library, asked through its public API one second before and at the
    # instant, *exhibits* a change of UTC offset or DST offset (some table entries are not visible through the API)
    def exhibited(c):
        a, b = at(c[0] - 1), at(c[0])
        va = (int(a.utcoffset().total_seconds()), int((a.dst() or dtm.timedelta(0)).total_seconds()))
        vb = (int(b.utcoffset().total_seconds()), int((b.dst() or dtm.timedelta(0)).total_seconds()))
        return va != vb
    table_entries = len(changes)
    changes = [c for c in changes if exhibited(c)]
    # every item's fields equal what the library reports at that item's epoch seconds
    bad_items = []
    for it in items:
        d = at(it['epoch'])
        got = [int(d.utcoffset().total_seconds()), int((d.dst() or dtm.timedelta(0)).total_seconds()), d.year, d.month, d.day, d.hour, d.minute, d.second, d.tzname()]
        want = [it['total_offset'], it['dst_offset'], it['y'], it['M'], it['d'], it['h'], it['m'], it['s'], it['abbrev']]
        if got != want and len(bad_items) < 3:
            bad_items.append({'epoch': it['epoch'], 'item': want, 'library': got})
    return zone, {'items': [[it['epoch'], it['type'], it['y'], it['M'], it['d'], it['h'], it['m'], it['s']] for it in items], 'changes': changes, 'bad_items': bad_items,
                  'full_items': items if full else None}


def zst_zone(args):
    """tools/validator/zstdgenerator.py (transitions from ZoneSpecifier, values from pytz) on one zone of tools/zonedbpy:
    an A item one second before and a B item at every ZoneSpecifier transition starting in a year of the range, twelve
    monthly samples and one year-end sample per year, every item equal to what pytz reports at its epoch"""
    zone, start, until = args
    import pytz
    from validator.zstdgenerator import TestDataGenerator as ZG
    from zonedb.zone_specifier import ZoneSpecifier
    from zonedbpy import zone_infos, zone_policies
    zi = zone_infos.ZONE_INFO_MAP.get(zone) or next((v for v in zone_infos.ZONE_INFO_MAP.values() if v['name'] == zone), None)
    if zi is None:
        return zone, {'missing': True}
    g = ZG(zone_infos.ZONE_INFO_MAP, zone_policies.ZONE_POLICY_MAP, start, until)
    try:
        items = g._create_test_data_for_zone(zone, zi)
    except Exception as e:
        return zone, {'error': '%s: %s' % (type(e).__name__, e)}
    if items is None:
        return zone, {'missing': True}
    by_epoch = {}
    for it in items:
        by_epoch.setdefault(it.epoch, []).append(it)
    problems = []
    zs = ZoneSpecifier(zi)
    ntr = 0
    for y in range(start, until):
        zs.init_for_year(y)
        for t in zs.transitions:
            if t.startDateTime.y != y:
                continue
            ntr += 1
            e = t.startEpochSecond
            if not any(i.type == 'A' for i in by_epoch.get(e - 1, [])) or not any(i.type == 'B' for i in by_epoch.get(e, [])):
                if len(problems) < 4:
                    problems.append('no A/B pair of items at the ZoneSpecifier transition at epoch %d (year %d)' % (e, y))
    tz = pytz.timezone(zone)
    for it in items:
        d = dtm.datetime.fromtimestamp(it.epoch + 946684800, tz=UTC).astimezone(tz)
        want = (int(d.utcoffset().total_seconds()), int((d.dst() or dtm.timedelta(0)).total_seconds()), d.year, d.month, d.day, d.hour, d.minute, d.second)
        got = (it.total_offset, it.dst_offset, it.y, it.M, it.d, it.h, it.m, it.s)
        if got != want and len(problems) < 4:
            problems.append('item at epoch %d holds %s, pytz reports %s' % (it.epoch, got, want))
    for y in range(start, until):
        firsts = {(i.M) for i in items if i.type in 'SAB' and i.y == y and i.d == 1 and i.h == 0 and i.m == 0 and i.s == 0}
        loc = lambda mth: any(i.y == y and i.M == mth and i.d == 1 and i.h <= 2 for i in items)
        miss = [mth for mth in range(1, 13) if not loc(mth)]
        if miss and len(problems) < 4:
            problems.append('year %d: no sample item on the first of months %s' % (y, miss))
        if not any(i.y == y and i.M == 12 and i.d == 31 and i.h >= 22 for i in items) and len(problems) < 4:
            problems.append('year %d: no year-end sample' % y)
    return zone, {'items': len(items), 'transitions': ntr, 'problems': problems}


def datasets(flavour):
    """several generators alive in one process: the data set of each holds exactly the zones it was given, with the items a
    fresh generator computes for that zone and range, whatever other generators did before or after"""
    G = gen_class(flavour)
    problems = []

    def snap(g):
        return {z: [(it['epoch'], it['type']) for it in items] for z, items in g.test_data.items()}

    def fresh(zone, a, b):
        items = G(start_year=a, until_year=b, sampling_interval=22)._create_test_items_for_zone(zone)
        return [(it['epoch'], it['type']) for it in items]
    g1 = G(start_year=2003, until_year=2006, sampling_interval=22)
    g1.create_test_data(['America/Los_Angeles', 'Europe/London'])
    s1 = snap(g1)
    g2 = G(start_year=2012, until_year=2014, sampling_interval=22)
    g2.create_test_data(['America/Los_Angeles', 'Asia/Tokyo'])
    s2 = snap(g2)
    if snap(g1) != s1:
        problems.append('the data set of a generator for 2003..2006 changed when another generator (2012..2014) was run: zones %s -> %s' % (sorted(s1), sorted(snap(g1))))
    for g, a, b, zones, nm in ((g1, 2003, 2006, ['America/Los_Angeles', 'Europe/London'], 'first'), (g2, 2012, 2014, ['America/Los_Angeles', 'Asia/Tokyo'], 'second')):
        cur = snap(g)
        if sorted(cur) != sorted(zones):
            problems.append('the %s generator was given %s, its data set holds %s' % (nm, zones, sorted(cur)))
        for z in zones:
            if z in cur and cur[z] != fresh(z, a, b):
                problems.append('the %s generator: items of %s differ from those of a fresh generator for %d..%d' % (nm, z, a, b))
        vd = g.get_validation_data()
        if vd['start_year'] != a or vd['until_year'] != b or sorted(vd['test_data']) != sorted(cur):
            problems.append('validation data of the %s generator: range %s..%s, zones %s' % (nm, vd['start_year'], vd['until_year'], sorted(vd['test_data'])))
    # the same zone and range with and without DST-only changes requested, in that order: where the library exhibits a change of
    # the DST offset alone, the second generator must bracket it although the first one (rightly) did not
    import pytz as _pytz
    for zone, a, b in (('America/Indiana/Knox', 2005, 2008), ('Asia/Amman', 2021, 2024)):
        try:
            gf = G(start_year=a, until_year=b, sampling_interval=22, detect_dst_transition=False)
            gf.create_test_data([zone])
            gt = G(start_year=a, until_year=b, sampling_interval=22, detect_dst_transition=True)
            gt.create_test_data([zone])
        except TypeError:
            break
        sf, st_ = snap(gf).get(zone, []), snap(gt).get(zone, [])
        # does the library exhibit a DST-only change in the range? (asked through its public API at the items of either run)
        tz = _pytz.timezone(zone) if flavour == 'pytz' else None
        if tz is None:
            from dateutil.tz import gettz as _gettz
            tz = _gettz(zone)
        lo = int((dtm.datetime(a, 1, 1) - dtm.datetime(2000, 1, 1)).total_seconds())
        hi = int((dtm.datetime(b, 1, 1) - dtm.datetime(2000, 1, 1)).total_seconds())
        dst_only = []
        prev = None
        for e in range(lo, hi, 3600):
            d = dtm.datetime.fromtimestamp(e + 946684800, tz=UTC).astimezone(tz)
            cur = (d.utcoffset(), d.dst())
            if prev is not None and cur[0] == prev[0] and cur[1] != prev[1]:
                dst_only.append(e)
            prev = cur
        for e in dst_only:
            if not any(e - 3700 <= t <= e and ty in 'ABab' for t, ty in st_):
                problems.append('generator with detect_dst_transition=True run after one with False (%s %d..%d): the DST-only change near epoch %d is not bracketed' % (zone, a, b, e))
    g1.create_test_data(['Europe/Paris'])
    if sorted(snap(g1)) != ['Europe/Paris']:
        problems.append('a second create_test_data() on one generator: data set holds %s, given [Europe/Paris]' % sorted(snap(g1)))
    if snap(g2) != s2:
        problems.append('the data set of the second generator changed when the first one was run again')
    return {'problems': problems, 'items': sum(len(v) for v in s1.values()) + sum(len(v) for v in s2.values())}


def main():
    mode = sys.argv[1]
    spec = json.load(open(sys.argv[2]))
    out = {}
    if mode == 'datasets':
        out = datasets(spec['flavour'])
        json.dump(out, open(sys.argv[3], 'w'))
        print('ok')
        return
    with multiprocessing.Pool(os.cpu_count()) as pool:
        if mode == 'replay':
            jobs = [(spec['flavour'], spec['year'], c) for c in spec['cases']]
            out['results'] = pool.map(replay_case, jobs, chunksize=8)
        elif mode == 'zst':
            zl = spec['zones']
            if not zl:
                from zonedbpy import zone_infos as _zi
                zl = sorted(v['name'] for v in _zi.ZONE_INFO_MAP.values())
            out['zones'] = dict(pool.map(zst_zone, [(z, spec['start'], spec['until']) for z in zl], chunksize=4))
        else:
            jobs = [(spec['flavour'], z, spec['start'], spec['until'], spec['interval'], bool(spec.get('full'))) for z in spec['zones']]
            out['zones'] = dict(pool.map(real_zone, jobs, chunksize=4))
    json.dump(out, open(sys.argv[3], 'w'))
    print('ok')


if __name__ == '__main__':
    main()
