"""Generates /verif/MANIFEST.json from the per-property table below.
Run: /venv/bin/python -m vf.manifest   (from /verif)"""
import json
import os

VERIF = os.path.dirname(os.path.dirname(os.path.abspath(__file__)))

# property -> (category, technique, text, note, design_ref)
CLAIMS = {
    'C01': ('model_checking',
            'TLA+ spec of zic semantics (TzSem.tla) checked by TLC; trace validation of dense-sweep run-length traces of the real ExtendedZoneProcessor; zic traces validate the spec',
            'TLC walks every zone of zonedbx through TzSem.tla (zic generation + merge semantics) and judges, in the state where each walk completes, the run-length trace recorded from a dense sweep of the real ExtendedZoneProcessor (every grid instant of 2000..2049, each change bisected to the second) and zic/zdump\'s trace of the same lines; in the other direction every transition the spec derives is probed in the code at t-1, t, t+1, and ZonedDateTime fields are compared with the shifted UTC fields. Complete at the sweep grid for all 387 zones; the property is piecewise constant so this decides it rather than samples it.',
            'Trusted: zic/zdump (glibc 2.36) as oracle for the recorded lines; hostshim stand-ins for Arduino/AceCommon; reconstruction of the source from the comments recorded beside each table entry. Quick tier grid is 300 s (changes narrower than the grid that revert inside it could be missed), thorough 30 s.',
            '§4.3, §6-C01'),
    'C02': ('model_checking',
            'TLA+ spec TzSem.tla checked by TLC; trace validation of dense-sweep traces of the real BasicZoneProcessor; trace equality Basic vs Extended; guarded hook counts dropped cache entries',
            'Same machinery as C01 applied to the 268 zones of zonedb through BasicZoneProcessor (TLC judges the recorded run-length trace of every zone against TzSem.tla, zic validates the spec, every spec transition is probed at t-1,t,t+1); every zone shared with zonedbx is swept through ExtendedZoneProcessor too and the two traces (offset, DST amount, abbreviation) must be identical; hook H1 shows that no year 1999..2050 of any zone needs a sixth cache slot.',
            'Trusted: zic/zdump, hostshim, source reconstruction from table comments. Quick grid 60 s, thorough 1 s (basic) / 60 s (extended twin; the extended side at 1 s is C01).',
            '§4.3, §6-C02'),
    'C07': ('model_checking',
            'TLA+ definition of wall-clock resolution (TzSem.tla: Cands/Allowed) checked by TLC (total, normalised at every breakpoint); trace validation of run-length traces of the real ZonedDateTime::forComponents over windows of wall time',
            'TLC derives, from the walk of each zone, which <<shift, offset>> resolutions are allowed for a wall time (unique: that occurrence; overlap: the later one for Extended, either for Basic; gap: the offset before the gap) and checks the recorded run-length trace of forComponents() at the start of every recorded piece and at every wall-time breakpoint inside it; the harness sweeps every wall minute within +-200 min of every transition plus seeded random minutes (quick) or every wall minute of 2000..2049 (thorough), bisects result changes to the second and checks normalisation natively for every call.',
            'Trusted: zic pieces only select the windows (the verdict is TLC\'s on the spec\'s own pieces, which C01/C02 validate against zic); local date-times of the whole years 2000..2049 are covered (the model keeps walking two days beyond either end).',
            '§4.3, §6-C07'),
    'C08': ('model_checking',
            'TLA+ state machine of the processor cache (ZoneProc.tla) checked exhaustively by TLC; every model transition replayed into the real classes (ASan+UBSan build) with answer and projected state compared; random call histories recorded from the real code validated by ZoneProc_Trace.tla',
            'TLC proves HistoryIndependent / NoNullDeref / ErrorsRepeat / ContentCoherent / OneSlotPerZone for every reachable state of the model (all histories of any length over 3 zones x 4 years x 6 operations, direct handles sharing a processor, managers with 1-2 slots) as state invariants quantified over every enabled call, and refutes the parameterisation that mirrors the code as found. Every edge of the model graph is then replayed in the real BasicZoneProcessor/ExtendedZoneProcessor/TimeZone/ZoneManager: each answer must equal a freshly constructed time zone\'s answer (the property itself) and the projected state (bound zone, cached year, filled flag, round-robin index) must equal the model\'s. Seeded random histories (cache sizes 1..4, more zones than slots, out-of-range and Jan-1 arguments) are checked the same way and validated as traces by TLC. The Python ZoneSpecifier year cache is driven with seeded histories (seconds / datetime / init_for_year calls, all option combinations) on every zone, a reused object against a fresh one per call.',
            'Trusted: hostshim; the driver reads private members through a private->public include (driver only); ASan/UBSan as crash/UB monitors.',
            '§4.4, §6-C08'),
    'C10': ('model_checking',
            'TLA+ algorithm-level spec of the registrar (Registrar.tla, uint16 arithmetic) checked by TLC for safety and, under weak fairness, termination; every case replayed on the real ZoneRegistrar/ZoneManager with an injected logging comparator: probe sequences must equal the model\'s',
            'TLC checks exactness, index bounds, the sortedness flag and termination (liveness) of isSorted / linear / binary search with the threshold dispatch for all registry sizes 0..40 x every gap position, all permutations up to size 5, the two shipped sizes and seeded shuffles, and refutes the as-found binary search. Every one of those cases is replayed on a real ZoneRegistrar built from shipped zones (ASan build, exact-size heap registry, comparator injected through the existing template parameter): result, zone info, the *sequence of probed entries* and the manager\'s createFor* result must equal the model\'s; ids (all shipped, 0, 0xFFFFFFFF, absent) and indices 0..size+1 on the full and on small registries are compared with the direct definition.',
            'Trusted: hostshim. Termination of the real code is observed via a probe budget (size+20 comparisons) and a 3 s watchdog per lookup.',
            '§4.6, §6-C10'),
    'C13': ('model_checking',
            'TLA+ spec of SystemClock (SystemClock.tla) checked exhaustively by TLC on scaled constants and on the real constants over boundary sets; every real-constant model transition replayed into the real class; native phase x gap sweep; random schedules recorded from the real class validated by SystemClock_Trace.tla',
            'TLC proves ExactTime (reading = T + floor(elapsed/S) while polling gaps <= W-S), the sentinel rules, monotonicity and the backup law for every phase x gap x operation sequence to the depth bound on scaled constants (W=32,S=5; W=16,S=3), and for W=65536,S=1000 on boundary phases/gaps; each transition of the latter graph is replayed in a subclass of the real SystemClock (injected clockMillis, counter bases straddling 2^16 and 2^32) comparing mEpochSeconds, mPrevMillis, mIsInit, mLastSyncTime, backup writes and the reading. The native sweep covers (phase, gap) single and double polls (thorough: all 65536 x 64536), and seeded random schedules are validated as traces by TLC with ExactTime evaluated at every step.',
            'One known finding (re-setting to the seconds the clock currently stores keeps the old sub-second phase) is excluded from the environment of the passing configuration, refuted by TLC in a second configuration and replayed on the real class each run (KNOWN-FINDING). Host unsigned long is 64-bit.',
            '§4.8, §6-C13'),
    'C14': ('model_checking',
            'TLA+ spec of the loop() state machine with reference/backup clocks (SystemClockLoop.tla) checked exhaustively by TLC to a time horizon for several configurations; every transition of the model graph replayed into the real SystemClockLoop with recording fake clocks',
            'TLC checks ValidApplied, BackupLaw/BackupValue, NoCorrupt, Separation, BackoffLaw, BoundedResponse (safety form of "always issues another request"), RequestCount and NoReferenceOnlyKeepsTime over all interleavings of time steps with reference-clock outcomes {not ready, ready+valid (two values), ready+invalid} for 4 (thorough 6) configurations x {distinct backup, backup = reference, no reference}; vacuity is excluded by requiring every loop() branch to be taken. Every transition of the (shorter-horizon) graph is replayed in a subclass of the real class and the FSM status, retry period, request/sync timestamps, embedded clock state, backup writes, requests sent, getNow() and getLastSyncTime() are compared with the model after every loop() call.',
            'Time on a per-configuration lattice of step sizes, loop() after every step. 32-bit wrap of millis() inside SystemClockLoop is not exercised on the 64-bit host.',
            '§4.8, §6-C14'),
    'C09': ('model_checking',
            'ZoneProc.tla (NoNullDeref, ErrorsRepeat) and TransitionPool.tla checked by TLC; model transitions replayed and pool-event traces (hook H2) validated against the real code; ASan/UBSan as monitors on model-generated histories and exhaustive-style sweeps',
            'Three clauses. (i) Totality and repeated errors: TLC proves NoNullDeref and ErrorsRepeat on ZoneProc.tla with the argument classes {valid, below range, above range, sentinel}; every model transition is replayed in the ASan+UBSan build of Basic/Extended/managed time zones, answer class and processor state compared. (ii) No UB / out-of-bounds: every public value-type operation is swept over the int32 instants (strided + all boundaries), boundary component tuples, all int16 offsets, error values and truncated strings in a UBSan-recover build; each distinct UB site is a violation (13 signed-overflow sites are known findings, listed by call site); zone processors are swept under the sanitizers too. (iii) Buffers: TLC proves on TransitionPool.tla that the pool is safe while occupancy stays below capacity (and refutes unconditional safety); for every zonedbx zone x year 1999..2050 the real high-water mark must stay below the recorded size and 8, and the H2 event sequence of each init() is validated against the pool protocol by TLC; hook H1 shows the basic processor never needs a sixth slot.',
            'UB/OOB is decided by the sanitizers on the executions generated, not by TLC. Known findings: 13 signed-overflow call sites in LocalDate/LocalDateTime/OffsetDateTime conversions.',
            '§4.4, §4.5, §6-C09, §8'),
    'C06': ('model_checking',
            'TLA+ definition of the proleptic Gregorian calendar (Calendar.tla) with the day count proved by a locally checked induction in TLC over all 93,136 days; the library formulas transcribed and checked against it; TLC\'s complete day table compared with the real LocalDate on every day; native sweeps of all instants / byte triples',
            'TLC (MC_Calendar) checks for every day of 1873..2127 the induction step in both directions (Civil(d+1) = NextDay(Civil(d)), anchored at 2000-01-01 = Saturday), and that toEpochDays (JDN formula, truncating division), extractYearMonthDay, the dayOfWeek table formula and increment/decrementOneDay, transcribed, equal the definition; it dumps the table day -> (y, m, d, dow, leap, days-in-month). The real LocalDate::forEpochDays/toEpochDays/dayOfWeek/isLeapYear/daysInMonth/incrementOneDay/decrementOneDay are compared with that table for every day; LocalDateTime/LocalDate::forEpochSeconds fields, validity and round trip are swept over the int32 instants (quick: stride 16 plus every day boundary +-2 s; thorough: all 2^32-1) as day-table x second-of-day; all 2^24 (h,m,s) triples are compared with the validity predicate whose class table TLC supplies.',
            'The harness-side calendar used for the instant sweep is itself compared with the TLC table on every day. isError for dates is the documented component-range contract.',
            '§4.1, §6-C06'),
    'C16': ('model_checking',
            'TLA+ value model of TimeZone kinds, save/restore and equality (TimeZoneValue.tla) with theorems checked by TLC; cases recorded from the real TimeZone/ZoneManager judged by TLC against Save/Restore/Equal',
            'TLC checks RoundTrip and EqualityIsDenotation over all kinds x zones x offsets x registries, and the numeric coincidence TimeZoneData::kTypeZoneId = TimeZone::kTypeBasic that createForTimeZoneData relies on. Every zone of both registries (manager-created and direct, full and partial registries), manual offsets on a 15-minute grid x DST values plus int16 boundaries, error/UTC zones and all pairs of a 24-value pool are run through the real classes (ASan/UBSan build); TLC judges each recorded case (saved data, restored kind/zone/offsets, equality with the manager\'s own zone, manual offset sum, operator==) against the specification; restored zones must answer identically.',
            'Zone ids are replaced by registry positions in recorded cases (TLC integers are 32-bit); the driver checks id equality itself.',
            '§4.9, §6-C16'),
    'C18': ('model_checking',
            'TLA+ declarative resolution of ON expressions on the day count plus transcriptions of the C++ and Python algorithms (Calendar.tla, MC_RuleDay) checked by TLC over the whole argument space; the real calcStartDayOfMonth, calc_day_of_month, _parse_on_day_string and rejection filter compared with TLC\'s table / each other on every case',
            'TLC checks for 1873..2126 x 12 x 7 x every day-of-month expression (1.32M cases; quick: every third year) that the declarative resolution is the calendar\'s answer, that admitted expressions never leave the year and C++ = Python = definition on them, and that every expression that can leave the year is rejected. The real C++ function is run on the whole admitted space and must equal TLC\'s dumped table (every 11th year) and the real Python function on every row; the real ON-string parser is run on the whole grammar and malformed neighbours; the real transformer filter is run on all 5,208 (month, weekday, bound) expressions and must coincide with the specification\'s Admitted.',
            'Day-of-month bounds beyond the month length (e.g. Sun>=31 in February) are outside the modelled space.',
            '§4.2, §6-C18'),
    'C05': ('model_checking',
            'TLA+ field model of instants at an offset (MC_Fields over Calendar.tla) checked by TLC over the int32 day range; dumped rows compared with the real OffsetDateTime; native sweeps of manual offsets and of every database zone (round trip, Unix variants, conversions, compareTo)',
            'TLC checks round trip, field validity, conversion between offsets preserving the instant, Unix = epoch + 10957 days and order = instant order on every k-th day of the int32 range x boundary seconds x 11 offsets, and dumps the field table; the real OffsetDateTime::forEpochSeconds reproduces every row. Natively, all int32 instants on a stride (plus every day boundary) x 11 manual offsets, and every zone of both registries (direct and manager-created) on a grid plus dense neighbourhoods of every transition are round-tripped, converted to other zones/offsets (instant must be preserved, compareTo = 0) and ordered against later instants (including across fall-backs, where wall time repeats).',
            'Precondition as stated by the property: the shifted instant and the Unix value are representable in int32 and the year is in the zone data.',
            '§4.9, §6-C05'),
    'C15': ('model_checking',
            'TLA+ model of the printed forms and of the chainable parsers with their byte arithmetic (Iso8601.tla); TLC proves Parse(Print(x)) = x per component over complete domains; every dumped text compared with the real printTo; native print->parse round trips',
            'TLC checks exact shape and Parse(Print(x)) = x for every date 1873..2127 (quick: stride 3), every second of a day (quick: stride 7), every offset within +-99:59 and the chained 25-character form, and dumps the printed texts; the real printTo must produce exactly those texts. Natively (ASan/UBSan build) local and offset date-times over all days x times x offsets are printed, compared with the expected text and parsed back to equal values; zoned date-times of every zone of both registries print the same text followed by the bracketed zone name and parse back to the same instant and offset; error values print their placeholders; every prefix shorter than the required length parses to an error value.',
            'Offsets beyond +-99:59 (three-digit hours) are outside the property.',
            '§4.9, §6-C15'),
    'C17': ('model_checking',
            'TLA+ transcriptions of TimePeriod, TimeOffset and the increment helpers (MC_Period.tla) checked by TLC over their domains; each dumped row compared with the real classes; all 1,843,199 second counts through the real TimePeriod',
            'TLC checks round trip, component ranges, negate and compareTo (against neighbours and extremes) for second counts on a stride plus boundaries, decomposition of all sign-consistent int8 (hour, minute) pairs, closure and the 129-step cycle of increment15Minutes over -960..960, and absorption/closure of every increment helper over all 256 byte values; it dumps each row and the real classes must reproduce them; natively every second count -921599..921599 is round-tripped, negated and ordered.',
            'The signed year helper is only required on its documented interval [0, 99].',
            '§4.9, §6-C17'),
    'C03': ('translation_validation',
            'translation validation of the real compiler: TLC evaluates the semantics of the *input* lines (TzSem.tla, validated by zic on every source) and judges the run-length traces of every emitted zone interpreted by the matching real processor (ZoneSpecifier for the Python tables; the generated C++ tables compiled and read by Basic/ExtendedZoneProcessor); accounting of zones/links/filter steps',
            'Sources: the vendored tzdata 2025b release, the source recorded in the shipped tables, seeded generated sources over the documented grammar (zone by zone accepted by zic), seeded single-field mutations. For each source x scope {basic, extended} the real Extractor -> Transformer -> generators run in-process; every input zone and link must be emitted or listed as removed with a reason, every filter step must conserve its input, links must point to emitted zones; the Python tables are interpreted by ZoneSpecifier and the generated C++ tables are compiled into the sweep driver and interpreted by the real processors; each emitted zone\'s trace over [2000, 2050) (bisected to the second) is judged by TLC against TzSem.tla on the input lines.',
            'zic (glibc 2.36) validates the specification on every source (a disagreement is a machinery failure on the release, the recorded lines and the fixed sources; in a generated or mutated source such a zone is not judged and noted, above 10 % of the zones a machinery failure again); generated sources are restricted to constructs zic can also express after 2037; zones carrying a truncation note are judged against the source with the documented truncations applied; a generated source the compiler refuses is "not accepted". Three known findings on constructs no shipped or 2025b zone has (see known_findings.json).',
            '§4.3, §4.10, §6-C03'),
    'C04': ('model_checking',
            'both implementations validated against TzSem.tla by TLC (trace validation) and compared with each other: the shipped tables decoded through the C++ brokers into the Python data model, ZoneSpecifier (8 option combinations) vs ExtendedZoneProcessor sweeps; local date-time selection judged by TLC (Allowed)',
            'The shipped zonedbx tables are read through the C++ brokers and turned into the Python data model (the same data on both sides). ZoneSpecifier is swept over 2000..2049 (every change bisected to the second) with all 8 option combinations (quick: on a seeded half of the zones plus known-tricky ones; default options on the rest; thorough: all zones); all combinations must give the same trace, equal the C++ ExtendedZoneProcessor trace (offset, DST amount, abbreviation), and be accepted by TLC against TzSem.tla. For local date-times within +-3 h of every transition plus random ones, both implementations must select the same instant, and TLC judges the selection against Allowed(w, later).',
            'One known finding: ZoneSpecifier with viewing_months=13 resolves Asia/Khandyga 2004-01-01 00:00..00:59 (gap at a year boundary) differently from viewing_months=14.',
            '§4.3, §6-C04'),
    'C11': ('model_checking',
            'TLA+ data audit (ZoneIds.tla): djb2 in 16-bit limb arithmetic and first-order formulas over ids/registries/links extracted through the real accessors; evaluated by TLC',
            'Ids are extracted through BasicZone/ExtendedZone::zoneId(), TimeZone::getZoneId() (direct and manager-created), the compiled kZoneId* constants and link aliases (resolved through the linked symbols), tools/zonedbpy via the real transformer.hash_name, and fresh compilations of tzdata 2025b and of the recorded lines in both scopes (plus a source with two colliding names, which must be refused). TLC evaluates id = djb2(name) for every name, uniqueness per database, equality across databases and with the baseline recorded from the pinned tree, ascending registry order and completeness, link -> target, and hash_name on boundary strings.',
            'The baseline (data/zone_ids_baseline.json) was recorded from the pinned tree. Fresh-compilation ids are read from the generated text (their decoding is C12).',
            '§4.7, §6-C11'),
    'C12': ('translation_validation',
            'TLA+ Enc/Dec model (MC_Encoding) with Dec(Enc(v)) = v checked by TLC on the full product; the real Python encoders compared with Enc on every value; synthetic product sources and the recorded lines compiled by the real generator, the C++ built and read back through the brokers, compared field by field with what the generator was given; shipped tables = regenerated tables',
            '(a) TLC checks Dec(Enc(v)) = v for every AT/UNTIL time 00:00..25:00 x w/s/u, every offset to the minute, every DST shift, every year, for both scopes, and the real _to_code_and_modifier / _to_extended_offset_and_delta / _to_extended_delta_code / to_tiny_year / div_to_zero produce exactly Enc on all 11,199 values. (b) Synthetic sources covering that product (4,503 AT values x suffix, 1,921 offsets, 16 shifts, single and multi-character letters; a basic-scope variant) and (c) the lines recorded in the shipped tables go through the real pipeline; the generated C++ is compiled and every era and rule field read back through the library\'s brokers must equal the value given to the generator; the shipped tables must equal the regenerated ones entry by entry (eras, rules, ids, buffer sizes, registry order, link aliases).',
            'Values given to the generator are the transformer\'s (possibly truncated, noted) values, as the property states.',
            '§4.7, §6-C12'),
    'C20': ('translation_validation',
            'repeated compilation under different PYTHONHASHSEED with byte comparison; TLA+ relations over extracted artifact contents (Artifacts.tla) evaluated by TLC; ZoneSpecifier traces of basic vs extended and of tools/zonedbpy judged by TzSem.tla/zic',
            'Each source (tzdata 2025b, the recorded lines; thorough: a generated source) x scope is compiled 3-4 times with equal and different hash seeds: every generated file must be byte-identical modulo the order of reasons inside a comment. TLC checks, on contents extracted by importing / parsing the generated files: imported Python tables = in-memory tables per zone and policy, zones.txt = emitted set, every count stated in a header = number of entries, basic subset of extended. Zones emitted in both scopes must have identical ZoneSpecifier traces (truncation-noted excepted). tools/zonedbpy is imported, every zone swept over 2000..2049 and judged by TLC/zic against its own recorded lines.',
            'Byte identity is a plain file comparison (see DESIGN section 8).',
            '§4.10, §6-C20'),
    'C19': ('model_checking',
            'TLA+ model of the sampling/bisection algorithm over arbitrary step functions (Sampler.tla) checked by TLC; every enumerated case replayed through the real generator classes with a fake tzinfo; real zones audited by TLC (Sampler_Data.tla) against the library\'s exhibited changes; rendered C++ tables compiled and read back',
            'TLC enumerates every step function with <= 2 changes (values differing in UTC offset and/or DST offset) on a window of three sampling intervals plus remainder, for several interval/phase configurations: recorded pairs are always real changes at adjacent ticks, EveryChangeBracketed holds under EnvOK (at most one change per examined interval) and is refuted in general. Every enumerated case (16k quick) is replayed through the real TestDataGenerator of compare_pytz and compare_dateutil with a fake tzinfo: recorded transitions, items, tags and item fields must equal the model\'s. For every zone of the installed pytz (all_timezones) and the dateutil zone list, several year ranges and sampling intervals: each change the library exhibits (its own transition table, filtered through the public API at t-1/t) must be bracketed by items at adjacent minutes (judged by TLC), monthly and year-end samples must be present, every item must equal what the library reports at its epoch; the items of five zones are rendered by ArduinoValidationGenerator, compiled and read back.',
            'Installed pytz 2026.3 / dateutil 2.9; the replay starts the generator\'s scan late in the year through a harness-side stand-in for `datetime` in the generator module (a sample of cases runs the whole year and must agree). validator/zstdgenerator.py is not covered.',
            '§4.10, §6-C19'),
}

PLANNED = {
}



# later additions, appended to (technique, text) of the table above
EXTRA = {
    'C01': ('; algorithm-level TLA+ spec of ExtendedZoneProcessor::init (ExtProc.tla) bound to the finished per-year tables read out of the real processor and refined against TzSem.tla',
            ' Algorithm level: ExtProc.tla transcribes init(year) function by function; TLC builds Table(zone, year) from the compiled tables (exported through the brokers) for every zone x year 1999..2050 and judges it equal, field by field (start instant, offsets, abbreviation, local start/until tuples, match count, pool high-water mark), to the table read out of a never-used real processor; checks Sorted, Covered, NoOverflow, WithinRecordedSize, NoStaleFlag; and the step function glued from the model tables is judged by TzSem.tla on the recorded source lines (the algorithm refines the semantics on all 387 zones).'),
    'C02': ('; algorithm-level TLA+ spec of BasicZoneProcessor::init (BasicProc.tla) bound to the real five-slot cache and refined against TzSem.tla',
            ' Algorithm level: BasicProc.tla transcribes init(year); TLC builds the cache for every zone x year 1999..2050 and judges it equal entry by entry (start, total offset, delta, abbreviation, year, month, dropped transitions) to the cache of a never-used real processor; checks FitsCache, Sorted, NoInvalidStart; the glued step function is judged by TzSem.tla (all 268 zones).'),
    'C03': ('; ExtProc.tla / BasicProc.tla bound to the real processors reading every freshly generated table set',
            ' On every compiled source the per-year tables of both real processors reading the generated C++ tables are also judged equal to ExtProc.tla / BasicProc.tla (about 100,000 tables per quick run).'),
    'C04': ('; per-year transition tables of ZoneSpecifier and of ExtendedZoneProcessor both judged equal to ExtProc.tla by TLC',
            ' Algorithm level: the finished transition table of a fresh ZoneSpecifier (default options) and of a never-used ExtendedZoneProcessor are both judged by TLC to equal ExtProc.tla\'s Table(zone, year) for every zone x year 1999..2050; the 8-option sweep covers every zone with an era boundary in range.'),
    'C08': ('; every zone x every ordered pair of cached years on one long-lived processor compared (table and answers) with a never-used processor',
            ' The edge Query(B) from "cached year = A" is additionally instantiated for every zone of both databases and every ordered pair (A, B) of 2000..2049 plus out-of-range years (1.7 million pairs): the per-year table and the answers on a 5-day lattice (thorough: daily) of one long-lived processor must equal those of a processor constructed in zero-filled memory.'),
    'C09': ('; high-water / cache bounds on tables freshly generated by the real compiler (shipped source, a generated source, thorough: 2025b), read from the real processors and as invariants of ExtProc.tla / BasicProc.tla',
            ' (iv) Compiler-generated zones: the real compiler (with BufSizeEstimator) regenerates tables from the shipped source and a generated source; the real processors reading them must stay below the recorded size / capacity / five slots for every year 1999..2050, and TLC checks NoOverflow, WithinRecordedSize and FitsCache on ExtProc.tla / BasicProc.tla bound to those processors.'),
    'C14': ('; clock preset by setNow() in every other configuration; without a reference clock schedules to 140 s replayed also with the clock read only after the last loop() call',
            ' The application may set the clock before the first loop() call (Preset); without a reference clock (always preset) steps of 5-40 s run past one wrap of the 16-bit millisecond bookkeeping and every edge is replayed twice: reading state and getNow() after every call, and only after the last one.'),
    'C19': ('', ' The rendered data set is a feature cover of the collected data (every UTC/DST offset pair, abbreviation and item type; thorough: every zone), for both libraries.'),
    'C20': ('', ' A generated source with offsets that are not multiples of the basic granularity on both sides of UTC is compiled in every run.'),
}
EXTRA2 = {
    'C01': ' Configurations: five zones in rotation through a manager with two cache slots and through direct zones sharing one processor, every three days of 2000..2049, against processors of their own.',
    'C02': ' Configurations: the same rotation through BasicZoneManager<2> and a shared BasicZoneProcessor.',
    'C03': ' The generated sources place era boundaries on rule transitions, use offsets with one-minute resolution on both sides of UTC (remainders of 8 minutes, a negative offset below one hour), SAVE 0:20, the g suffix and UNTIL day expressions that carry into the next month; three constructs on which AceTime is known to differ from zic are recognised structurally and reported as known findings.',
    'C04': ' The UTC days 1999-12-31 and 2050-01-01 (accepted by the processor) are compared too, and a freshly compiled generated source is read by ZoneSpecifier from its Python tables and by the processor from its C++ tables.',
    'C05': ' compareTo is checked against partners at every distance up to 2^32-2 s; the zone sweep is followed by non-monotonic histories (years descending, the first 14 hours of every month start after a later year was served).',
    'C06': ' Every (month, day) byte pair x boundary years is checked against the documented component contract of isError for LocalDate, LocalDateTime and OffsetDateTime.',
    'C07': ' Algorithm level: the same recorded resolutions must equal ExtProc.Resolve / BasicProc.ResolveB evaluated by TLC at every recorded piece start and every wall time at which the model can change.',
    'C09': ' Every accessor of the value types is called on any component values (error values included) in an ASan+UBSan recover build, findings identified by input class; the compiler is also run with start years other than 2000 and ExtProc.Covered must hold for every accepted year.',
    'C10': ' Several registrars and managers alive in one process with lookups alternating between them; absent names that collide with a present name under the zone-id hash.',
    'C11': ' Further sources: names that normalise to one identifier, a link declared twice, a link to a link, a link to nothing; generated Python tables, C++ definitions, registry and id constants audited; an emitted link must denote the zone zic resolves it to.',
    'C12': ' Decoded tables are also compared with an independent reading of the source lines (vf/tzparse.py); generated tables are compiled with default diagnostics and MC_Encoding models deltaCode as the signed int8 field it is.',
    'C13': ' The model has a KeepAlive poll (a poll that reads nothing); the model graph is replayed on a SystemClock (keepAlive()) and on a SystemClockLoop without reference clock (loop()).',
    'C14': ' A configuration with calls more than 65.536 s apart, one with a sync period above 2^15 s (uint16 doubling), reference value 0, and a second driver compiled against copies of the clock headers in which unsigned long is uint32_t (bases just below 2^32).',
    'C15': ' Zoned date-times are also printed after another zone used the shared processor / the single manager slot.',
    'C16': ' Histories: zones obtained with createForZoneInfo (registry bypass) and used, then restored by id; zones sharing one processor saved after the other one used it; manual zones differing only in their DST part.',
    'C18': ' The real filter is also run on three-rule policies (the verdict must not depend on the position of the offending rule).',
    'C19': ' tools/validator/zstdgenerator.py on every zone of tools/zonedbpy (pairs at every ZoneSpecifier transition, samples, item fidelity); sampling intervals of 36 h and 48 h; a short range rendered with its own year bounds, numItems against rows.',
    'C20': ' The third compilation of every (source, scope) compiles the other scope first in the same process and its in-memory tables are judged against its files.',
}
for _pid, _x in EXTRA2.items():
    _c = CLAIMS[_pid]
    CLAIMS[_pid] = (_c[0], _c[1], _c[2] + _x, _c[3], _c[4])
for _pid, (_t, _x) in EXTRA.items():
    _c = CLAIMS[_pid]
    CLAIMS[_pid] = (_c[0], _c[1] + _t, _c[2] + _x, _c[3], _c[4])

EXTRA3 = {
    'C03': ' Zones carrying a truncation note are judged against the source with the documented truncations applied (STDOFF to the scope granularity, SAVE / fixed RULES to 15 min, AT / UNTIL to 1 min), all others against the source as written; a policy-level AT note alone does not excuse a zone.',
    'C06': ' Day conversions are also made out of order (descending, pairs 65536 / 32768 / 256 days apart, a pseudo-random permutation) with no other conversion in between.',
    'C17': ' The year helper is compared for every byte 0..126 (every year 2000..2126 is absorbed into [0, 99]).',
    'C18': ' A source of rules that resolve into the neighbouring month (Fri<=1, Sun>=28, ..., as DST start or end) goes through the real compiler, both scopes and targets, the generated tables read by the real processors and bound to BasicProc.tla / ExtProc.tla, the traces judged by TzSem.tla.',
    'C19': ' The model cases are also rendered on the two sides of the date line (UTC offsets exactly 24 h apart at equal DST); dateutil runs on every zone name pytz knows.',
    'C20': ' The second compilation of every (source, scope) first compiles, in the same process, a decoy with the same zone, link and policy names and other contents.',
}
for _pid, _x in EXTRA3.items():
    _c = CLAIMS[_pid]
    CLAIMS[_pid] = (_c[0], _c[1], _c[2] + _x, _c[3], _c[4])

EXTRA4 = {
    'C03': ' A fixed edge source (two rules of one policy on the same day, fixed RULES amounts outside the 4-bit field, a TO year beyond the one-byte year, the extreme SAVE values) is compiled in every run; generated policies include negative SAVE and named-rule eras with a plain FORMAT.',
    'C04': ' The freshly compiled source has eras ending on the day of one of their rule transitions at a time given in another time frame (u / s) between the wall and universal readings of the transition, and contains the edge source; the Python sampler also probes both sides of every transition ZoneSpecifier lists.',
    'C05': ' Manager-created zones are obtained by index, by name and by id and must be equal.',
    'C07': ' Two directly created zones sharing one processor, both created before either is used, resolve local times like zones with processors of their own.',
    'C09': ' Lookups by absent names (before, between, after the entries), ids and indices on the shipped registries and on registries of 0..9 entries run under ASan with an alarm.',
    'C10': ' In the second round each manager is first handed the zone through createForZoneInfo (registry bypass) and uses it.',
    'C11': ' The recorded source is compiled after a decoy of itself (same names, two extra links) in one process: generated links are exactly the reported ones and each is declared in the source; every key of the shipped Python map holds the record of that name, every record is listed once.',
    'C12': ' The synthetic product source is also compiled for 1990..2040 and every one of its zones must be emitted in extended scope; untilYear is compared with the source lines.',
    'C13': ' Every model edge is also replayed with the clock set through setup() (value from the backup clock) and through forceSync() (value from a reference clock).',
    'C15': ' Every prefix also goes through the flash-string overloads; manual-zone date-times over 1873..2127 must parse back to the same fields and offset.',
    'C17': ' incrementHour(period, limit) on the whole (limit, hour) product against IncMod; the one-day date helpers on every day against the calendar; each helper leaves the other fields alone.',
    'C19': ' Several generators alive in one process: each data set holds exactly its own zones and items.',
}
for _pid, _x in EXTRA4.items():
    _c = CLAIMS[_pid]
    CLAIMS[_pid] = (_c[0], _c[1], _c[2] + _x, _c[3], _c[4])

EXTRA5 = {
    'C01': ' In every plain sweep the three accessors are asked in an order that rotates from probe to probe.',
    'C02': ' In every plain sweep the three accessors are asked in an order that rotates from probe to probe.',
    'C03': ' The edge source also has eras whose UNTIL in universal time lies hours after a rule transition of the same day, and a policy adopted while its daylight saving of the year before is still on; the last generated source has such near-UNTIL eras too.',
    'C05': ' Zones restored from their saved form and zones obtained by name from an unsorted user registry take part in the round-trip sweep.',
    'C06': ' OffsetDateTime::toEpochDays at, before and after every UTC midnight for offsets on both sides of Greenwich; the names of the days of the week and of the months, and LocalDate::printTo.',
    'C08': ' Histories draw local times inside the repeated hour of autumn changes and use a zone that ends in an era without rules; the second year of a pair may lie outside the zone data.',
    'C09': ' Flash-string parse overloads at every length (exactly sized heap copies) and the Unix-seconds factories with the sentinel run under the sanitizers; AddressSanitizer reports are identified by their first frame with a source position.',
    'C13': ' ... and through syncNow() itself; the real-constant configuration contains a value exactly 65536 s after another one.',
    'C16': ' Unsorted user registries that begin with their smallest name: by name / id / index / restored agree; abbreviation and DST shift of a zone whose shared processor was last used by another zone equal those of its restored counterpart.',
    'C18': ' The resolved UNTIL month is compared as well as the day.',
    'C19': ' A generator without and then one with DST-only detection in one process; dateutil also with sampling intervals of 24, 36 and 48 h.',
    'C20': ' numRules and numLetters of every generated policy equal the entries of its arrays; a source with names differing only in - and _ is among the compiled sources.',
}
for _pid, _x in EXTRA5.items():
    _c = CLAIMS[_pid]
    CLAIMS[_pid] = (_c[0], _c[1], _c[2] + _x, _c[3], _c[4])

EXTRA6 = {
    'C20': ' A source with two rules of one policy whose field values concatenate to the same string: every generated table keeps a row of its own for each (imported Python tables against the in-memory map).',
    'C16': ' A manager with fewer cached processors than zones in play: a zone used twice, evicted by two other zones and used again, and its restored counterpart, answer like a zone with a processor of its own (every zone of both registries).',
}
for _pid, _x in EXTRA6.items():
    _c = CLAIMS[_pid]
    CLAIMS[_pid] = (_c[0], _c[1], _c[2] + _x, _c[3], _c[4])


def main():
    props = [json.loads(l) for l in open(os.path.join(VERIF, 'properties.jsonl'))]
    checks = []
    na = []
    for p in props:
        pid = p['id']
        if pid in CLAIMS:
            cat, tech, text, note, ref = CLAIMS[pid]
            checks.append({
                'property_id': pid,
                'quick_cmd': 'bin/check %s --tier quick' % pid,
                'thorough_cmd': 'bin/check %s --tier thorough' % pid,
                'evidence_file': 'evidence/%s.json' % pid,
                'replay_cmd_template': 'bin/check %s --replay {path}' % pid,
                'engine': 'tla-conformance',
                'level_claimed': {'category': cat, 'text': text, 'design_ref': 'DESIGN.md ' + ref},
                'level_note': note,
                'technique': tech,
            })
        else:
            na.append({'property_id': pid, 'reason': PLANNED.get(pid, 'no check registered yet: the TLA+ specification and conformance harness for this property are designed (DESIGN.md section 6) but not built/validated in this tree; not claimed until they are')})
    m = {
        'version': 1,
        'setup_cmd': 'bin/setup',
        'hooks': {
            'guard': 'ACETIME_VERIF',
            'enable': 'checks export ACETIME_VERIF=1 and compile /repo/src with -DACE_TIME_VERIF_HOOKS=1 (vf/common.py build_binary); without the macro the added lines are preprocessed away',
            'baseline_off_cmd': 'cd /repo && env -u ACETIME_VERIF /venv/bin/python -m pytest -ra -q -p no:cacheprovider --timeout=900 --continue-on-collection-errors tools/tests',
            'source_commits': ['13cbacb', 'b58564e'],
            'add_only': True,
        },
        'engines': [
            {'name': 'tla-conformance', 'path': 'bin/check', 'serves_properties': [c['property_id'] for c in checks],
             'kind_free_text': 'explicit TLA+ specifications under spec/ checked by TLC, bound to the real code by trace validation of recorded sweeps/histories and by replay of TLC behaviours into the compiled C++ / imported Python'},
        ],
        'checks': checks,
        'not_applicable': na,
        'notes': 'All checks rebuild the C++ harness from /repo\'s working tree (object cache keyed by SHA-256 of every source). Exit 2 = machinery failure. known_findings.json lists genuine defects (fixed / known).',
    }
    json.dump(m, open(os.path.join(VERIF, 'MANIFEST.json'), 'w'), indent=1)
    print('claimed', len(checks), 'not_applicable', len(na))


if __name__ == '__main__':
    main()
