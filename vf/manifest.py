"""Generates /verif/MANIFEST.json from the per-property table below.
Run: /venv/bin/python -m vf.manifest   (from /verif)"""
import json
import os

VERIF = os.path.dirname(os.path.dirname(os.path.abspath(__file__)))

# property -> (category, technique, text, note, design_ref)
CLAIMS = {
    'C01': ('model_checking',
            'TLA+ spec of zic semantics (TzSem.tla) checked by TLC; trace validation of dense-sweep run-length traces of the real ExtendedZoneProcessor; zic traces validate the spec',
            'TLC walks every zone of zonedbx through TzSem.tla (zic generation + merge semantics) and judges, in the state where each walk completes, the run-length trace recorded from a dense sweep of the real ExtendedZoneProcessor (every grid instant of 2000..2049, each change bisected to the second) and zic/zdump\'s trace of the same lines; in the other direction every transition the spec derives is probed in the code at t-1, t, t+1, and ZonedDateTime fields are compared with the shifted UTC fields. Complete at the sweep grid for all 387 zones; the property is piecewise constant so this decides it rather than samples it.',
            'Trusted: zic/zdump (glibc 2.36) as oracle for the recorded lines; hostshim stand-ins for Arduino/AceCommon; reconstruction of the source from the comments recorded beside each table entry. Quick tier grid is 300 s (changes narrower than the grid that revert inside it could be missed), thorough 30 s.',
            '§4.3, §6-C01'),
}

PLANNED = {
}


def main():
    props = [json.loads(l) for l in open(os.path.join(VERIF, 'properties.jsonl'))]
    checks = []
    na = []
    for p in props:
        pid = p['id']
        if pid in CLAIMS:
            cat, tech, text, note, ref = CLAIMS[pid]
            checks.append({
                'property_id': pid,
                'quick_cmd': 'bin/check %s --tier quick' % pid,
                'thorough_cmd': 'bin/check %s --tier thorough' % pid,
                'evidence_file': 'evidence/%s.json' % pid,
                'replay_cmd_template': 'bin/check %s --replay {path}' % pid,
                'engine': 'tla-conformance',
                'level_claimed': {'category': cat, 'text': text, 'design_ref': 'DESIGN.md ' + ref},
                'level_note': note,
                'technique': tech,
            })
        else:
            na.append({'property_id': pid, 'reason': PLANNED.get(pid, 'no check registered yet: the TLA+ specification and conformance harness for this property are designed (DESIGN.md section 6) but not built/validated in this tree; not claimed until they are')})
    m = {
        'version': 1,
        'setup_cmd': 'bin/setup',
        'hooks': {
            'guard': 'ACETIME_VERIF',
            'enable': 'checks export ACETIME_VERIF=1 and compile /repo/src with -DACE_TIME_VERIF_HOOKS=1 (vf/common.py build_binary); without the macro the added lines are preprocessed away',
            'baseline_off_cmd': 'cd /repo && env -u ACETIME_VERIF /venv/bin/python -m pytest -ra -q -p no:cacheprovider --timeout=900 --continue-on-collection-errors tools/tests',
            'source_commits': [],
            'add_only': True,
        },
        'engines': [
            {'name': 'tla-conformance', 'path': 'bin/check', 'serves_properties': [c['property_id'] for c in checks],
             'kind_free_text': 'explicit TLA+ specifications under spec/ checked by TLC, bound to the real code by trace validation of recorded sweeps/histories and by replay of TLC behaviours into the compiled C++ / imported Python'},
        ],
        'checks': checks,
        'not_applicable': na,
        'notes': 'All checks rebuild the C++ harness from /repo\'s working tree (object cache keyed by SHA-256 of every source). Exit 2 = machinery failure. known_findings.json lists genuine defects (fixed / known).',
    }
    json.dump(m, open(os.path.join(VERIF, 'MANIFEST.json'), 'w'), indent=1)
    print('claimed', len(checks), 'not_applicable', len(na))


if __name__ == '__main__':
    main()
