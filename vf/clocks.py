"""Binding of spec/SystemClock.tla and spec/SystemClockLoop.tla to the real classes (C13, C14)."""
import collections
import json
import os
import random

from . import common

INV_MODEL_SC = -1000000
INV_MODEL_SCL = -999999
BASES = [0, 65536 * 7, 2**32 - 65536, 2**32 * 5 - 65536 * 3]


def sc_cfg(path, W, S, gaps, depth, stale, phases, values, dump=False, trace=False):
    s = ["SPECIFICATION %s" % ('TSpec' if trace else 'Spec'), "CONSTANTS W = %d" % W, " S = %d" % S,
         " Phases = {%s}" % ",".join(map(str, phases)), " Gaps = {%s}" % ",".join(map(str, gaps)),
         " Values = {%s}" % ",".join(map(str, values)), " MaxDepth = %d" % depth,
         " ResyncStale = %s" % ("TRUE" if stale else "FALSE"),
         "INVARIANT TypeOK", "INVARIANT ExactTime", "INVARIANT SentinelBeforeSet", "INVARIANT RemainderSmall"]
    if trace:
        s += ["INVARIANT Verdict"]
    else:
        s += ["PROPERTY SetInvalidIgnored", "PROPERTY Monotone", "PROPERTY BackupLaw"]
    s += ["CHECK_DEADLOCK FALSE"]
    if dump:
        s.append("ACTION_CONSTRAINT DumpEdge")
    open(path, 'w').write("\n".join(s) + "\n")


def key(d):
    return json.dumps(d, sort_keys=True)


def paths_to_nodes(edges, initial_keys):
    adj = collections.defaultdict(list)
    for e in edges:
        adj[key(e['from'])].append(e)
    path = {k: [] for k in initial_keys}
    dq = collections.deque(initial_keys)
    while dq:
        u = dq.popleft()
        for e in adj[u]:
            v = key(e['to'])
            if v not in path:
                path[v] = path[u] + [e]
                dq.append(v)
    return path


def v_model_to_real(v, inv):
    return 'inv' if v == inv else v


def run_driver(exe, mode, scripts):
    """scripts: list of (header line, [op lines]); returns list of step lists"""
    buckets = [list(range(i, len(scripts), common.NCPU)) for i in range(common.NCPU)]

    def one(ids):
        if not ids:
            return []
        lines = []
        for i in ids:
            lines.append(scripts[i][0].replace('@ID@', str(i)))
            lines += scripts[i][1]
            lines.append('E')
        rc, out, err, _ = common.run_cmd([exe, mode], input='\n'.join(lines) + '\n', env=common.san_env(), timeout=3000)
        if rc != 0:
            return [('crash', rc, err[-2000:], ids)]
        return [('ok', json.loads(l)) for l in out.splitlines() if l.startswith('{')]

    res = [None] * len(scripts)
    crashes = []
    for lst in common.tmap(one, buckets):
        for r in lst:
            if r[0] == 'crash':
                crashes.append(r)
            else:
                res[int(r[1]['id'])] = r[1]['steps']
    return res, crashes


# ------------------------------------------------------------------ C13
def sc_state(m):
    return [v_model_to_real(m['epoch'], INV_MODEL_SC), m['prev'], 1 if m['init'] else 0, v_model_to_real(m['last'], INV_MODEL_SC),
            m['bw'], v_model_to_real(m['bv'], INV_MODEL_SC)]


def sc_op_line(op):
    if op[0] == 'adv':
        return 'A %d' % op[1]
    if op[0] == 'get':
        return 'G'
    if op[0] == 'keep':
        return 'K'
    return 'T %s' % v_model_to_real(op[1], INV_MODEL_SC)


def sc_replay_edges(chk, exe, edges, phases, mode='sc', setvia='T'):
    """mode 'sc': a SystemClock (K = keepAlive()); 'scloop': a SystemClockLoop without reference clock (K = loop());
    setvia: how the model's SetNow(v) is performed -- 'T' setNow(v), 'U' setup() with the backup clock reporting v, 'F'
    forceSync() with a reference clock reporting v (all three are documented to set the clock to v)"""
    vianame = {'T': '', 'U': ':via-setup', 'F': ':via-forceSync', 'Y': ':via-syncNow'}[setvia]

    def opline(op):
        ln = sc_op_line(op)
        return setvia + ln[1:] if ln.startswith('T ') else ln
    init_keys = [key({'ms': p, 'epoch': INV_MODEL_SC, 'prev': 0, 'init': False, 'last': INV_MODEL_SC, 'bw': 0, 'bv': INV_MODEL_SC}) for p in phases]
    paths = paths_to_nodes(edges, init_keys)
    scripts = []
    metas = []
    for n, e in enumerate(edges):
        p = paths.get(key(e['from']))
        if p is None:
            raise common.MachineryError('SystemClock edge from unreachable node')
        seq = p + [e]
        phase = seq[0]['from']['ms']
        scripts.append(('S @ID@ %d %d%s' % (BASES[n % len(BASES)], phase, ' ref' if setvia == 'F' else ''), [opline(x['op']) for x in seq]))
        metas.append(seq)
    res, crashes = run_driver(exe, mode, scripts)
    for c in crashes:
        chk.violation('systemclock:replay-crash', 'driver crashed rc=%s: %s' % (c[1], c[2][-400:]), {'stderr': c[2]})
    nsteps = 0
    for n, (seq, steps) in enumerate(zip(metas, res)):
        if steps is None:
            continue
        for e, st in zip(seq, steps):
            nsteps += 1
            want = sc_state(e['to']) + [v_model_to_real(e['reading'], INV_MODEL_SC) if e['op'][0] == 'get' else None] + [0]      # last: requests received by the backup clock
            if not e['to']['init']:
                # before the first setting the stored seconds / millis are not observable: compare only what is
                st = ['-', '-'] + st[2:]
                want = ['-', '-'] + want[2:]
            if st != want:
                hist = ' ; '.join(opline(x['op']) for x in seq)
                chk.violation('systemclock:edge:%s%s%s' % (e['op'][0], '' if mode == 'sc' else ':via-loop', vianame), ('' if mode == 'sc' else 'SystemClockLoop without reference clock, K = loop(): ') + 'phase %d base %d: after [%s] the code is in %s, the model in %s ([epoch, prev, init, lastSync, backupWrites, backupVal, reading, requests to the backup clock])' % (
                    seq[0]['from']['ms'], BASES[n % len(BASES)], hist, st, want), {'phase': seq[0]['from']['ms'], 'base': BASES[n % len(BASES)], 'ops': [x['op'] for x in seq]})
                break
    return len(scripts), nsteps


def sc_random_traces(rnd, n, length):
    traces = []
    for i in range(n):
        phase = rnd.choice([0, 1, 999, 1000, 32767, 64535, 65535, rnd.randrange(65536)])
        t = 1000 + rnd.randrange(10**6)
        ops = []
        for _ in range(length):
            r = rnd.random()
            if r < 0.5:
                ops.append(('adv', rnd.choice([1, 10, 500, 999, 1000, 1001, 30000, 64535, 64536, rnd.randrange(1, 64537)])))
            elif r < 0.72:
                ops.append(('get', 0))
            elif r < 0.85:
                ops.append(('keep', 0))      # a poll that reads nothing (keepAlive() / loop())
            elif r < 0.97:
                t += rnd.choice([100000, 100001, 186400, 250007])     # far ahead: never equal to the seconds the clock currently stores
                ops.append(('set', t))
            else:
                ops.append(('set', 'inv'))
        traces.append((phase, ops))
    return traces


def sc_validate_traces(chk, exe, traces, work, tag, mode='sc'):
    scripts = [('S @ID@ %d %d' % (BASES[i % len(BASES)], ph), [('A %d' % a if o == 'adv' else 'G' if o == 'get' else 'K' if o == 'keep' else 'T %s' % a) for o, a in ops])
               for i, (ph, ops) in enumerate(traces)]
    res, crashes = run_driver(exe, mode, scripts)
    for c in crashes:
        chk.violation('systemclock:trace-crash', 'driver crashed rc=%s: %s' % (c[1], c[2][-400:]), {})
    out = []
    values = set()
    gaps = set()
    for i, ((ph, ops), steps) in enumerate(zip(traces, res)):
        if steps is None:
            continue
        ev = []
        for (o, a), st in zip(ops, steps):
            if o == 'set' and a != 'inv':
                values.add(a)
            if o == 'adv':
                gaps.add(a)
            iv = lambda x: INV_MODEL_SC if x in ('inv', None) else x
            ev.append({'op': o, 'arg': iv(a), 'epoch': iv(st[0]), 'prev': st[1], 'init': st[2], 'last': iv(st[3]), 'bw': st[4], 'bv': iv(st[5]),
                       'reading': iv(st[6])})
        out.append({'id': i, 'phase': ph, 'events': ev})
    tp = os.path.join(work, 'sc_traces_%s.json' % tag)
    json.dump(out, open(tp, 'w'))
    cfg = os.path.join(work, 'SystemClock_Trace_%s.cfg' % tag)
    sc_cfg(cfg, 65536, 1000, sorted(gaps) or [1], 1000000, True, [0], sorted(values) or [1], trace=True)
    res_t = common.run_tlc('SystemClock_Trace', cfg, env={'SC_TRACES': tp}, timeout=1800)
    if not res_t.ok and 'ExactTime' in res_t.violated:
        chk.violation('systemclock:random-schedule:ExactTime', 'a recorded schedule of the real clock violates ExactTime in the specification: %s' % res_t.out[-1500:], {})
        return res_t, len(out), 0
    common.tlc_must_pass(res_t, 'SystemClock_Trace')
    verdicts = {v['trace']: v for v in common.tlc_prints(res_t.out) if isinstance(v, dict) and 'trace' in v}
    if len(verdicts) != len(out):
        raise common.MachineryError('TLC judged %d SystemClock traces, expected %d' % (len(verdicts), len(out)))
    acc = 0
    for t in out:
        v = verdicts[t['id']]
        if v['accepted']:
            acc += 1
        else:
            e = t['events'][v['at'] - 1]
            chk.violation('systemclock:trace:%s' % e['op'], 'recorded schedule rejected by SystemClock.tla at event %d (%s %s): code state %s, model before the step %s' % (
                v['at'], e['op'], e['arg'], [e[k] for k in ('epoch', 'prev', 'init', 'last', 'bw', 'reading')], v['model']),
                {'phase': t['phase'], 'ops': traces[t['id']][1][:v['at']]})
    return res_t, len(out), acc


# ------------------------------------------------------------------ C14
def scl_cfg(path, sync, initial, timeout, steps, tmax, mode, dump=False, preset=None, extra_ref=()):
    s = ["SPECIFICATION Spec", "CONSTANTS Sync = %d" % sync, " Initial = %d" % initial, " Timeout = %d" % timeout,
         " Steps = {%s}" % ",".join(map(str, steps)), " TMax = %d" % tmax, ' Mode = "%s"' % mode,
         " Preset <- PresetNone" if preset is None else " Preset = %d" % preset, " ExtraRef = {%s}" % ",".join(map(str, extra_ref)), "CONSTRAINT Bound",
         "INVARIANT ValidApplied", "INVARIANT BoundedResponse", "INVARIANT NoReferenceOnlyKeepsTime",
         "PROPERTY BackupLaw", "PROPERTY BackupValue", "PROPERTY NoCorrupt", "PROPERTY Separation", "PROPERTY BackoffLaw", "PROPERTY RequestCount",
         "CHECK_DEADLOCK FALSE"]
    if dump:
        s.append("ACTION_CONSTRAINT DumpEdge")
    open(path, 'w').write("\n".join(s) + "\n")


def build_clockdrv32():
    """clockdrv compiled against copies of SystemClock.h / SystemClockLoop.h (generated from REPO's working tree on every
    build) in which `unsigned long` is uint32_t, as on the Arduino boards: millis() wraps at 2^32."""
    import re as _re
    import shutil
    gen = os.path.join(common.BUILD, 'gen32')
    shutil.rmtree(gen, ignore_errors=True)
    src = os.path.join(common.REPO, 'src', 'ace_time')
    os.makedirs(os.path.join(gen, 'ace_time', 'clock'))
    for e in os.listdir(src):
        if e != 'clock':
            os.symlink(os.path.join(src, e), os.path.join(gen, 'ace_time', e))
    n = 0
    for e in os.listdir(os.path.join(src, 'clock')):
        p = os.path.join(src, 'clock', e)
        if e in ('SystemClock.h', 'SystemClockLoop.h'):
            t = open(p).read()
            t2 = _re.sub(r'\b(\d+)UL\b', r'((VERIF_UL) \1)', t.replace('unsigned long', 'VERIF_UL'))
            n += t.count('unsigned long')
            open(os.path.join(gen, 'ace_time', 'clock', e), 'w').write('#include <stdint.h>\n' + t2)
        else:
            os.symlink(p, os.path.join(gen, 'ace_time', 'clock', e))
    if n < 5:
        raise common.MachineryError('32-bit variant: only %d occurrences of `unsigned long` found in the clock headers' % n)
    return common.build_binary('clockdrv32', ['clockdrv.cpp'], 'san', extra_flags=['-I' + gen, '-DVERIF_UL=uint32_t'])   # (the cache key already hashes the headers the copies derive from)


def scl_state(m, base, wrap=None):
    w = (lambda x: x % wrap) if wrap else (lambda x: x)
    return [m['status'], m['cur'], w(m['reqStart'] + base), w(m['lastSyncMs'] + base), v_model_to_real(m['epoch'], INV_MODEL_SCL), (m['prev'] + base) % 65536 if m['init'] else 0,
            1 if m['init'] else 0, v_model_to_real(m['last'], INV_MODEL_SCL), v_model_to_real(m['bv'], INV_MODEL_SCL), m['bw'], m['req']]


def scl_replay_edges(chk, exe, edges, conf, tag, preset=None, quiet=False, wrap32=False):
    """quiet: only the last loop() call of each script is followed by reads (the application does not look at the clock in between)"""
    sync, initial, timeout, mode = conf
    pv = INV_MODEL_SCL if preset is None else preset
    init = key({'now': 0, 'status': 'Ready', 'cur': initial, 'reqStart': 0, 'lastSyncMs': 0, 'epoch': pv, 'prev': 0, 'init': preset is not None,
                'last': pv, 'bv': pv, 'bw': 0 if preset is None else 1, 'req': 0})
    paths = paths_to_nodes(edges, [init])
    scripts = []
    metas = []
    for n, e in enumerate(edges):
        p = paths.get(key(e['from']))
        if p is None:
            raise common.MachineryError('SystemClockLoop edge from unreachable node')
        seq = p + [e]
        base = [0, 65536 * 3, 65536 * 11][n % 3] if not wrap32 else [2**32 - 1500, 2**32 - 65536 - 700, 2**32 - 30000][n % 3]
        scripts.append(('S @ID@ %d %d %d %s %d %s' % (sync, initial, timeout, mode, base, 'inv' if preset is None else preset),
                        ['%s %d %d %s' % ('Q' if quiet and k < len(seq) - 1 else 'L', x['d'], 1 if x['ready'] else 0, v_model_to_real(x['rv'], INV_MODEL_SCL)) for k, x in enumerate(seq)]))
        metas.append((seq, base))
    res, crashes = run_driver(exe, 'scl', scripts)
    for c in crashes:
        chk.violation('scl:%s:replay-crash' % tag, 'driver crashed rc=%s: %s' % (c[1], c[2][-400:]), {'stderr': c[2]})
    nsteps = 0
    for (seq, base), steps in zip(metas, res):
        if steps is None:
            continue
        for e, st in zip(seq[-len(steps):] if quiet else seq, steps):
            nsteps += 1
            want = scl_state(e['to'], base, 2**32 if wrap32 else None)
            got = st[:11]
            if not e['to']['init']:
                got = got[:4] + ['-', '-'] + got[6:]
                want = want[:4] + ['-', '-'] + want[6:]
            # the public view must agree with the model too: getNow() and getLastSyncTime()
            rd = v_model_to_real(e['to']['epoch'], INV_MODEL_SCL) if e['to']['init'] else 'inv'
            if got != want or st[11] != rd or st[12] != v_model_to_real(e['to']['last'], INV_MODEL_SCL):
                hist = ' ; '.join('+%d %s %s' % (x['d'], 'ready' if x['ready'] else 'notready', v_model_to_real(x['rv'], INV_MODEL_SCL)) for x in seq)
                chk.violation('scl:%s:edge:%s' % (tag, e['ev']), 'config %s, after [%s] (model event %s): code %s getNow=%s lastSync=%s, model %s getNow=%s' % (
                    conf, hist, e['ev'], got, st[11], st[12], want, rd), {'config': conf, 'base': base, 'steps': [(x['d'], x['ready'], x['rv']) for x in seq]})
                break
    return len(scripts), nsteps
