"""Runs the REAL TZ compiler in-process (python of /venv, PYTHONPATH=<repo>/tools) and records what it did.

usage: pydrv_compile.py <input_dir> <out_dir> <scope> <start_year> <until_year> [flags]
  flags: arduino  -> also write the C++ tables (out_dir/arduino)
         python   -> also write the Python tables (out_dir/python)
         pieces   -> evaluate every emitted zone with ZoneSpecifier over [start, until) into run-length pieces
         warm     -> compile the other scope first in the same process (in memory only), then proceed
         opts     -> evaluate with all 8 ZoneSpecifier option combinations (C04) instead of the default only
Writes out_dir/result.json.
"""
import json
import logging
import os
import sys
import time
import datetime
import multiprocessing

logging.disable(logging.CRITICAL)
from tzdb.extractor import Extractor
from tzdb.transformer import Transformer
from tzdb.tzdbcollector import TzDbCollector
from zonedb.argenerator import ArduinoGenerator
from zonedb.pygenerator import PythonGenerator
from zonedb.ingenerator import InlineGenerator
from zonedb.zonelistgenerator import ZoneListGenerator
from zonedb.bufestimator import BufSizeEstimator
from zonedb.zone_specifier import ZoneSpecifier

EPOCH2000 = 946684800
_G = {}


def year_start(y):
    return int((datetime.datetime(y, 1, 1) - datetime.datetime(2000, 1, 1)).total_seconds())


def obs(zs, t):
    try:
        info = zs.get_timezone_info_for_seconds(t)
    except SystemExit:
        return ('exit',)
    except Exception as e:     # the reference implementation must not fail on a supported instant
        return ('exception', type(e).__name__)
    # (total offset, dst offset, abbrev)
    return (info[0], info[2], info[3])


def pieces_for(args):
    name, opts, t0, t1 = args
    zi = _G['zone_infos'][name]
    zs = ZoneSpecifier(zi, viewing_months=opts[0], in_place_transitions=opts[1], optimize_candidates=opts[2])
    grid = 86400
    # probe instants: a one-day grid, plus both sides of every transition the implementation itself lists for any year (a
    # change that is undone within a day would otherwise go unseen); what is recorded is always an *observation*
    probes = set(range(t0, t1, grid)) | {t1 - 1}
    y0 = 2000 + t0 // (366 * 86400) - 1
    y1 = 2000 + t1 // (365 * 86400) + 1
    for y in range(y0, y1 + 1):
        try:
            zs.init_for_year(y)
            for tr in zs.transitions:
                e = getattr(tr, 'startEpochSecond', None)
                if e is not None:
                    for q in (e - 1, e):
                        if t0 <= q < t1:
                            probes.add(q)
        except BaseException:
            pass
    probes = sorted(probes)
    cur = obs(zs, probes[0])
    ps = [[probes[0], cur]]
    n = 1
    prev_t = probes[0]
    for t in probes[1:]:
        o = obs(zs, t)
        n += 1
        lo = prev_t
        while o != cur:
            a, b = lo, t
            while b - a > 1:
                m = (a + b) // 2
                n += 1
                if obs(zs, m) != cur:
                    b = m
                else:
                    a = m
            nb = obs(zs, b)
            ps.append([b, nb])
            cur = nb
            lo = b
        prev_t = t
    return name, opts, ps, n


def main():
    input_dir, out_dir, scope, start_year, until_year = sys.argv[1], sys.argv[2], sys.argv[3], int(sys.argv[4]), int(sys.argv[5])
    flags = set(sys.argv[6:])
    os.makedirs(out_dir, exist_ok=True)
    res = {'scope': scope, 'start_year': start_year, 'until_year': until_year}
    t0 = time.time()
    warm_dir = next((f.split(':', 1)[1] for f in flags if f.startswith('warmdir:')), None)
    if 'warm' in flags or warm_dir:
        # the same process has already compiled something else (the other scope, or another source in the same scope): nothing
        # may carry over from it
        ex0 = Extractor(warm_dir or input_dir)
        ex0.parse()
        r0, z0, l0 = ex0.get_data()
        s0 = scope if warm_dir else ('basic' if scope == 'extended' else 'extended')
        g0 = 900 if s0 == 'basic' else 60
        t0_ = Transformer(z0, r0, l0, s0, start_year, until_year, 60, g0, False)
        t0_.transform()
        d0 = t0_.get_data()
        c0 = TzDbCollector(tz_version='verif', tz_files=Extractor.ZONE_FILES, scope=s0, start_year=start_year, until_year=until_year, until_at_granularity=60,
                           offset_granularity=g0, strict=False, zones_map=d0[0], links_map=d0[2], rules_map=d0[1], removed_zones=d0[3], removed_links=d0[5],
                           removed_policies=d0[4], notable_zones=d0[6], notable_links=d0[8], notable_policies=d0[7], format_strings=d0[9], zone_strings=d0[10])
        tz0 = c0.get_data()
        zi0, zp0 = InlineGenerator(tz0['zones_map'], tz0['rules_map']).generate_maps()
        BufSizeEstimator(zi0, zp0, start_year, until_year).estimate()      # (also evaluates the first database with ZoneSpecifier)
    extractor = Extractor(input_dir)
    extractor.parse()
    rules_map, zones_map, links_map = extractor.get_data()
    res['input_zones'] = sorted(zones_map.keys())
    res['input_links'] = {k: v for k, v in links_map.items()}
    res['input_policies'] = sorted(rules_map.keys())
    res['input_era_counts'] = {k: len(v) for k, v in zones_map.items()}
    granularity = 900 if scope == 'basic' else 60
    tr = Transformer(zones_map, rules_map, links_map, scope, start_year, until_year, 60, granularity, False)
    # accounting: wrap every filter step of the transformer and record what it kept / removed
    steps = []

    def wrap(name, fn):
        def inner(*a, **k):
            before = [set(x.keys()) for x in a if isinstance(x, dict)]
            r = fn(*a, **k)
            outs = r if isinstance(r, tuple) else (r,)
            after = [set(x.keys()) for x in outs if isinstance(x, dict)]
            steps.append({'step': name, 'before': [len(b) for b in before], 'after': [len(x) for x in after],
                          'dropped': [sorted(b - x)[:400] for b, x in zip(before, after)],
                          'added': [sorted(x - b)[:50] for b, x in zip(before, after)]})
            return r
        return inner
    for attr in dir(tr):
        if attr.startswith(('_remove_', '_create_', '_detect_', '_mark_', 'remove_')) and callable(getattr(tr, attr)):
            setattr(tr, attr, wrap(attr, getattr(tr, attr)))
    tr.transform()
    (zones_map, rules_map, links_map, removed_zones, removed_policies, removed_links, notable_zones, notable_policies,
     notable_links, format_strings, zone_strings) = tr.get_data()
    res['steps'] = steps
    res['emitted_zones'] = sorted(zones_map.keys())
    res['emitted_links'] = {k: v for k, v in links_map.items()}
    res['emitted_policies'] = sorted(rules_map.keys())
    res['removed_zones'] = {k: sorted(v) for k, v in removed_zones.items()}
    res['removed_policies'] = {k: sorted(v) for k, v in removed_policies.items()}
    res['removed_links'] = {k: sorted(v) for k, v in removed_links.items()}
    res['notable_zones'] = {k: sorted(v) for k, v in notable_zones.items()}
    res['notable_policies'] = {k: sorted(v) for k, v in notable_policies.items()}
    res['zone_strings'] = sorted(zone_strings['ordered_map'].keys())     # the zone-name list handed to the generators (zone_strings.cpp, tzdb.json)
    res['format_strings'] = sorted(format_strings['ordered_map'].keys())
    res['emitted_formats'] = {k: sorted({e['format'] for e in v}) for k, v in zones_map.items()}
    res['emitted_zone_policies'] = {k: sorted({e['rules'] for e in v}) for k, v in zones_map.items()}
    collector = TzDbCollector(tz_version='verif', tz_files=Extractor.ZONE_FILES, scope=scope, start_year=start_year, until_year=until_year,
                              until_at_granularity=60, offset_granularity=granularity, strict=False, zones_map=zones_map, links_map=links_map,
                              rules_map=rules_map, removed_zones=removed_zones, removed_links=removed_links, removed_policies=removed_policies,
                              notable_zones=notable_zones, notable_links=notable_links, notable_policies=notable_policies,
                              format_strings=format_strings, zone_strings=zone_strings)
    tzdb = collector.get_data()
    inline = InlineGenerator(tzdb['zones_map'], tzdb['rules_map'])
    zone_infos, zone_policies = inline.generate_maps()
    _G['zone_infos'] = zone_infos
    invocation = 'tzcompiler.py --input_dir IN --output_dir OUT --tz_version verif --action zonedb --scope %s --start_year %d --until_year %d' % (scope, start_year, until_year)
    if 'python' in flags:
        d = os.path.join(out_dir, 'python')
        os.makedirs(d, exist_ok=True)
        PythonGenerator(invocation=invocation, tzdb=tzdb).generate_files(d)
        ZoneListGenerator(invocation=invocation, tzdb=tzdb).generate_files(d)
    if 'arduino' in flags:
        d = os.path.join(out_dir, 'arduino')
        os.makedirs(d, exist_ok=True)
        est = BufSizeEstimator(zone_infos, zone_policies, start_year, until_year)
        buf_sizes, max_size = est.estimate()
        res['buf_sizes_max'] = max_size
        ArduinoGenerator(invocation=invocation, db_namespace='zonedb' if scope == 'basic' else 'zonedbx', generate_zone_strings=False,
                         tzdb=tzdb, buf_sizes=buf_sizes).generate_files(d)
    if 'inmem' in flags:
        # the in-memory tables as JSON (for C20: python tables imported == in-memory tables)
        def clean(zi):
            return {'name': zi['name'], 'eras': [{k: ({'rules': v['rules']} if k == 'zonePolicy' and isinstance(v, dict) else v) for k, v in e.items()} for e in zi['eras']]}
        res['inmem_infos'] = {k: clean(v) for k, v in zone_infos.items()}
        res['inmem_era_policy_names'] = {v['name']: [(e['zonePolicy']['name'] if isinstance(e['zonePolicy'], dict) else e['zonePolicy']) for e in v['eras']] for v in zone_infos.values()}
        res['inmem_policies'] = {k: v for k, v in zone_policies.items()}
    res['compile_wall'] = time.time() - t0
    if 'pieces' in flags or 'opts' in flags:
        t_lo, t_hi = year_start(start_year), year_start(until_year)
        combos = [(14, True, True)]
        if 'opts' in flags:
            combos = [(vm, ip, oc) for vm in (13, 14) for ip in (True, False) for oc in (True, False)]
        jobs = [(n, c, t_lo, t_hi) for n in sorted(zone_infos.keys()) for c in combos]
        with multiprocessing.Pool(os.cpu_count()) as pool:
            out = pool.map(pieces_for, jobs, chunksize=4)
        pieces = {}
        nobs = 0
        for name, opts, ps, n in out:
            pieces.setdefault(name, {})['%d-%d-%d' % (opts[0], int(opts[1]), int(opts[2]))] = ps
            nobs += n
        res['pieces'] = pieces
        res['nobs'] = nobs
    json.dump(res, open(os.path.join(out_dir, 'result.json'), 'w'))
    print('ok', len(res['emitted_zones']), 'zones')


if __name__ == '__main__':
    main()
