"""C01 -- Extended zones: offset, DST flag, abbreviation equal the TZ rules at every instant."""
import os
from .. import common, tzconf, extproc

LEVEL = 'model_checking'


def run(tier):
    chk = common.Check('C01', tier, LEVEL)
    exe = common.build_binary('tzscan', ['tzscan.cpp'], 'opt')
    grid = int(os.environ.get('VERIF_GRID', 60 if tier == 'quick' else 1))
    fstride = 97 if tier == 'quick' else 7
    tzconf.check_database(chk, exe, 'extended', os.path.join(common.REPO, 'src/ace_time/zonedbx'), grid, fstride, 'zonedbx')
    tzconf.check_configurations(chk, exe, 'extended', 'zonedbx')
    # algorithm level: ExtProc.tla (the init(year) algorithm) bound to the real processor's tables for every zone x year
    # 1999..2050, its invariants, and its step function judged by TzSem.tla
    extproc.check_shipped(chk)
    chk.add(exhaustive=True, rule='every zone of zonedbx swept at %d s over 2000..2049, each change bisected to the second, judged by TzSem.tla; ExtProc.tla: the finished table (start, offsets, abbreviation, local start/until), match count and pool high-water mark of ExtendedZoneProcessor::init(y) equal the model for every zone x y in 1999..2050, and the model refines TzSem on every zone' % grid)
    chk.assume('breakpoints are minute aligned (checked: every spec/zic/impl breakpoint has sec % 60 == 0 is NOT assumed; all changes are bisected to the second and compared exactly)')
    chk.assume('zic/zdump (glibc 2.36) is the oracle; TzSem.tla must accept zic traces for the same lines else exit 2')
    return chk.finish()
