"""C01 -- Extended zones: offset, DST flag, abbreviation equal the TZ rules at every instant."""
import os
from .. import common, tzconf

LEVEL = 'model_checking'


def run(tier):
    chk = common.Check('C01', tier, LEVEL)
    exe = common.build_binary('tzscan', ['tzscan.cpp'], 'opt')
    grid = int(os.environ.get('VERIF_GRID', 60 if tier == 'quick' else 1))
    fstride = 97 if tier == 'quick' else 7
    tzconf.check_database(chk, exe, 'extended', os.path.join(common.REPO, 'src/ace_time/zonedbx'), grid, fstride, 'zonedbx')
    chk.add(exhaustive=True, rule='every zone of zonedbx swept at %d s over 2000..2049, each change bisected to the second' % grid)
    chk.assume('breakpoints are minute aligned (checked: every spec/zic/impl breakpoint has sec % 60 == 0 is NOT assumed; all changes are bisected to the second and compared exactly)')
    chk.assume('zic/zdump (glibc 2.36) is the oracle; TzSem.tla must accept zic traces for the same lines else exit 2')
    return chk.finish()
