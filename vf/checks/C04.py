"""C04 -- Python ZoneSpecifier and C++ extended processor are observationally equal."""
import json
import os
import random
from .. import common, compiler, tzconf, tzparse, dbsource, zicoracle

LEVEL = 'model_checking'
PYZS = os.path.join(common.VERIF, 'vf', 'pydrv_zs.py')


def decoded_tables(scope='extended'):
    """the shipped C++ tables read through the brokers, in the shape pydrv_zs.build_infos expects"""
    dd = common.build_binary('dbdump', ['dbdump.cpp'], 'opt')
    rc, out, err, _ = common.run_cmd([dd, scope], timeout=300)
    if rc != 0:
        raise common.MachineryError('dbdump failed: ' + err[-400:])
    d = json.loads(out)
    zones = {z['name']: {'eras': [dict(e, policy=(e['policy'] if e['policy'] >= 0 else None)) for e in z['eras']]} for z in d['zones']}
    pols = {str(i): rules for i, rules in enumerate(d['policies'])}
    return {'zones': zones, 'policies': pols}


def run_py(data, work, mode, tag, extra=()):
    inp = os.path.join(work, 'zs-in-%s.json' % tag)
    outp = os.path.join(work, 'zs-out-%s.json' % tag)
    json.dump(data, open(inp, 'w'))
    rc, out, err, _ = common.run_cmd([common.PY, PYZS, inp, outp, mode] + list(extra), env=compiler.tool_env(), timeout=7000)
    if rc != 0:
        return None, err[-2000:]
    return json.load(open(outp)), None


def run(tier):
    chk = common.Check('C04', tier, LEVEL)
    work = common.scratch('C04')
    scan = common.build_binary('tzscan', ['tzscan.cpp'], 'opt')
    rnd = random.Random(common.seed() * 7907 + 41)
    data = decoded_tables('extended')
    names = sorted(data['zones'])
    if tier == 'quick':
        # all zones for the default options; the 8-way option sweep on a seeded half of the zones plus the historically tricky ones
        must = ['America/Los_Angeles', 'Europe/London', 'Asia/Jerusalem', 'America/Argentina/Buenos_Aires', 'Australia/Perth', 'Pacific/Fiji', 'Europe/Istanbul',
                'Asia/Famagusta', 'Asia/Khandyga', 'Africa/Casablanca', 'America/Caracas', 'Pacific/Apia', 'Antarctica/Troll', 'Europe/Dublin', 'Asia/Tehran', 'America/Havana']
        # ... and every zone with an era boundary inside the range (the options only matter where eras and rules interact)
        multi = {n for n, z in data['zones'].items() if sum(1 for e in z['eras'] if e['untilYear'] > 2000) > 1}
        only = sorted(set(rnd.sample(names, len(names) // 3)) | {m for m in must if m in data['zones']} | multi)
    else:
        only = names
    # ---- instants: Python (8 option combinations) vs the C++ sweep vs the specification
    py, err = run_py(dict(data, only=only, all_options=True), work, 'instants', 'opts')
    if py is None:
        chk.violation('python:crash', 'ZoneSpecifier driver failed: %s' % err, {'stderr': err})
        return chk.finish()
    rest = [n for n in names if n not in set(only)]
    pyd = {'pieces': {}, 'nobs': 0}
    if rest:
        pyd, err = run_py(dict(data, only=rest, all_options=False), work, 'instants', 'default')
        if pyd is None:
            chk.violation('python:crash', 'ZoneSpecifier driver failed: %s' % err, {'stderr': err})
            return chk.finish()
    idx = {n: i for i, n in enumerate(tzconf.list_zones(scan, 'extended'))}
    impl, crashes = tzconf.scan_db(scan, 'extended', len(idx), 300, 0)
    for c in crashes:
        chk.violation('cpp:crash', 'C++ sweep crashed: %s' % (c[3],), {})
    pypieces = {}
    ncomb = 0
    for n in names:
        combos = (py['pieces'].get(n) or pyd['pieces'].get(n))
        ref_key = '14-1-1'
        ref = compiler.to_pieces(combos[ref_key])
        pypieces[n] = ref
        for k, ps in combos.items():
            ncomb += 1
            if compiler.to_pieces(ps) != ref:
                a = compiler.to_pieces(ps)
                j = next((i for i in range(min(len(a), len(ref))) if a[i] != ref[i]), min(len(a), len(ref)))
                chk.violation('options:%s:%s' % (k, n), 'ZoneSpecifier(%s) with options %s differs from the default options at piece %d: %s vs %s' % (n, k, j, a[j] if j < len(a) else None, ref[j] if j < len(ref) else None), {'zone': n, 'options': k})
        # DST *amount* too (the property speaks of the DST offset): compare the raw python (offset, dst, abbrev) pieces with the C++ dpieces
        cpp = impl.get(n)
        if cpp:
            pd = []
            for t, o in combos[ref_key]:
                rec = [t // 86400, t % 86400] + (list(o) if len(o) == 3 else [999999, 0, str(o)])
                if not pd or pd[-1][2:] != rec[2:]:
                    pd.append(rec)
            if pd != cpp['dpieces']:
                j = next((i for i in range(min(len(pd), len(cpp['dpieces']))) if pd[i] != cpp['dpieces'][i]), min(len(pd), len(cpp['dpieces'])))
                chk.violation('python-vs-cpp:%s' % n, 'ZoneSpecifier and ExtendedZoneProcessor differ at piece %d: python %s, C++ %s' % (j, pd[j] if j < len(pd) else None, cpp['dpieces'][j] if j < len(cpp['dpieces']) else None), {'zone': n})
    # the two days either side of the range: the C++ processor accepts the UTC years 1999 and 2050 (local dates of 2000 east
    # and of 2049 west of Greenwich): both implementations must still agree there
    ntail = 0
    for a, b, tag in ((tzconf.T1, tzconf.T1 + 86400, '2050-01-01'), (-86400, 0, '1999-12-31')):
        impl2, crashes2 = tzconf.scan_db(scan, 'extended', len(idx), 300, 0, t0=a, t1=b)
        for c in crashes2:
            chk.violation('cpp:crash:%s' % tag, 'C++ sweep of %s crashed: %s' % (tag, c[3],), {})
        py2, err = run_py(dict(data, range=[a, b], all_options=False), work, 'instants', 'tail' + tag)
        if py2 is None:
            chk.violation('python:crash:%s' % tag, 'ZoneSpecifier driver failed on %s: %s' % (tag, err), {'stderr': err})
            continue
        for n in names:
            cpp = impl2.get(n)
            ps = (py2['pieces'].get(n) or {}).get('14-1-1')
            if not cpp or ps is None:
                continue
            pd = []
            for t, o in ps:
                rec = [t // 86400, t % 86400] + (list(o) if len(o) == 3 else [999999, 0, str(o)])
                if not pd or pd[-1][2:] != rec[2:]:
                    pd.append(rec)
            ntail += 1
            if pd != cpp['dpieces']:
                chk.violation('python-vs-cpp:%s:%s' % (tag, n), 'on %s UTC ZoneSpecifier answers %s, ExtendedZoneProcessor %s' % (tag, pd[:3], cpp['dpieces'][:3]), {'zone': n, 'day': tag})
    chk.add(zones_compared_on_boundary_days=ntail)
    # freshly compiled sources: the Python tables the compiler writes, read by ZoneSpecifier, against the C++ tables it writes,
    # read by ExtendedZoneProcessor (one-minute offsets, remainders of 8..14 minutes, negative sub-hour offsets, 0:20 shifts...)
    nfresh = 0
    srcg = compiler.gen_source(random.Random(common.seed() * 977 + 5), 40 if tier == 'quick' else 160, near_until=True)
    srcg = srcg + compiler.edge_source()
    wf = os.path.join(work, 'fresh')
    os.makedirs(wf, exist_ok=True)
    rx, outx, errx = compiler.run_compiler(srcg, wf, 'extended', flags=('arduino', 'python', 'pieces'))
    rb, outb, errb = compiler.run_compiler(srcg, wf, 'basic', flags=('arduino',))
    if rx is None or rb is None:
        chk.notes.append('generated source not accepted by the compiler: %s' % ((errx or errb),))
    else:
        exes, berr = compiler.build_tools_for(os.path.join(outb, 'arduino'), os.path.join(outx, 'arduino'), 'c04-fresh')
        if exes is None:
            chk.violation('fresh:does-not-compile', 'generated C++ tables do not compile: %s' % berr[-1200:], {})
        else:
            implf, crashesf = tzconf.scan_db(exes['tzscan'], 'extended', len(rx['emitted_zones']), 300, 0, chunk=8)
            for c in crashesf:
                chk.violation('fresh:cpp:crash', 'C++ sweep of the generated tables crashed: %s' % (c[3],), {})
            for n in sorted(rx['emitted_zones']):
                cpp = implf.get(n)
                ps = (rx['pieces'].get(n) or {}).get('14-1-1')
                if not cpp or ps is None:
                    continue
                pd = []
                for t, o in ps:
                    rec = [t // 86400, t % 86400] + (list(o) if len(o) == 3 else [999999, 0, str(o)])
                    if not pd or pd[-1][2:] != rec[2:]:
                        pd.append(rec)
                nfresh += 1
                if pd != cpp['dpieces']:
                    j = next((i for i in range(min(len(pd), len(cpp['dpieces']))) if pd[i] != cpp['dpieces'][i]), min(len(pd), len(cpp['dpieces'])))
                    chk.violation('fresh:python-vs-cpp:%s' % n, 'generated zone %s: ZoneSpecifier on the generated Python tables and ExtendedZoneProcessor on the generated C++ tables differ at piece %d: python %s, C++ %s' % (
                        n, j, pd[j] if j < len(pd) else None, cpp['dpieces'][j] if j < len(cpp['dpieces']) else None), {'zone': n})
    chk.add(freshly_compiled_zones_compared=nfresh)
    # TLC judges the Python trace (the C++ trace of the same tables is judged in C01)
    lines, _links = dbsource.reconstruct(os.path.join(common.REPO, 'src/ace_time/zonedbx'))
    r, njudged, bad = compiler.judge(chk, 'zonedbx:python', lines, names, pypieces, work, 2000, 2050)
    # ---- local date-times: the offset each implementation selects
    rules, zones, _ = tzparse.parse(lines)
    zic, _m = zicoracle.compile_and_dump(lines, names, common.scratch('C04-zic'))
    wz = only if tier == 'quick' else names
    windows = {n: tzconf.wall_windows(zic[n], rnd, 20 if tier == 'quick' else 200, halfwidth=180 * 60) for n in wz}
    pw, err = run_py(dict(data, only=wz, windows={n: [list(w) for w in ws] for n, ws in windows.items()}), work, 'wall', 'wall')
    nwall = 0
    if pw is None:
        chk.violation('python:crash:wall', 'ZoneSpecifier wall driver failed: %s' % err, {'stderr': err})
    else:
        exe_res, crashes = tzconf.run_wall(scan.replace('tzscan', 'tzscan'), 'extended', idx, windows)   # normalised (unused here)
        # raw selection by the C++ processor
        def raw(bucket):
            inp = ''.join('%d %d %d %d\n' % (idx[z], a, b, 60) for z in bucket for a, b in windows[z])
            rc, out, e, _ = common.run_cmd([scan, 'wallraw', 'extended'], input=inp, timeout=7000)
            return bucket, rc, [json.loads(l) for l in out.splitlines() if l.startswith('{')], e[-500:]
        inv = {i: z for z, i in idx.items()}
        cppraw = {z: [] for z in wz}
        buckets = [wz[i::common.NCPU] for i in range(common.NCPU)]
        for bucket, rc, recs, e in common.tmap(raw, [b for b in buckets if b]):
            if rc != 0:
                chk.violation('cpp:crash:wall', 'C++ getOffsetDateTime sweep crashed: %s' % e, {})
            for rec in recs:
                cppraw[inv[rec['zi']]].append(rec)
        wobs = {}
        for n in wz:
            pyw = pw['wall'][n]
            a = pyw['14-1-1']
            b = pyw['13-0-0']
            if a != b:
                import datetime
                d0 = next((x, y) for x, y in zip(a, b) if x != y)
                t_a = next((p[0] for p, q in zip(d0[0][2], d0[1][2]) if p != q), d0[0][0])
                t_b = next((q[0] for p, q in zip(d0[0][2], d0[1][2]) if p != q), d0[0][0])
                when = (datetime.datetime(2000, 1, 1) + datetime.timedelta(seconds=min(t_a, t_b))).strftime('%Y-%m-%dT%H:%M')
                chk.violation('options:wall:%s:%s' % (n, when), 'ZoneSpecifier selects different offsets for local date-times from %s with options 13-0-0 (%s) and 14-1-1 (%s)' % (when, d0[1][2], d0[0][2]), {'zone': n, 'wall': when})
            wl = []
            for (w0, w1, ps), crec in zip(a, cppraw[n]):
                nwall += 1
                pp = [[p[0] // 86400, p[0] % 86400, (-(p[1]) if isinstance(p[1], int) else 0), (p[1] if isinstance(p[1], int) else 0), 0 if isinstance(p[1], int) else 1] for p in ps]
                # compare the selected *instant* (shift = instant - wall time); the C++ side reports its offset after normalisation
                def shifts(seq):
                    o = []
                    for q in seq:
                        if not o or o[-1][2:] != [q[2], q[4]]:
                            o.append([q[0], q[1], q[2], q[4]])
                    return o
                cp = crec['pieces']
                if shifts(pp) != shifts(cp):
                    j = next((i for i in range(min(len(pp), len(cp))) if pp[i] != cp[i]), min(len(pp), len(cp)))
                    chk.violation('python-vs-cpp:wall:%s' % n, 'for local date-times ZoneSpecifier and ExtendedZoneProcessor select different instants: window day %d: python %s, C++ %s' % (w0 // 86400, shifts(pp)[:4], shifts(cp)[:4]), {'zone': n, 'window': [w0, w1]})
                    break
                wl.append({'w0': [w0 // 86400, w0 % 86400], 'w1': [w1 // 86400, w1 % 86400], 'pieces': pp})
            wobs[n] = wl
        model_path = os.path.join(work, 'model-wall.json')
        tzparse.write_model(model_path, rules, zones, only=set(wz))
        tzconf.judge_wall(chk, 'zonedbx:python:wall', 'extended', work, model_path, wz, wobs, 'later', 'raw')
    # algorithm level: the per-year transition table of a fresh ZoneSpecifier (default options) and of a never-used
    # ExtendedZoneProcessor are the same table, namely the one ExtProc.tla computes -- every zone x year 1999..2050
    from .. import extproc
    pt, err = run_py(data, work, 'tables', 'tables', extra=('1999', '2050'))
    ntab = 0
    if pt is None:
        chk.violation('python:tables-crash', 'ZoneSpecifier table driver failed: %s' % err, {'stderr': err})
    else:
        for n, ys in pt['tables'].items():
            for y, v in ys.items():
                if 'error' in v:
                    chk.violation('python:%s:%s:init-error' % (n, y), 'ZoneSpecifier(%s).init_for_year(%s) raised %s' % (n, y, v['error']), {'zone': n, 'year': y})
        dd = common.build_binary('dbdump', ['dbdump.cpp'], 'opt')
        pdrv = common.build_binary('pairdrv', ['pairdrv.cpp'], 'opt')
        dt = extproc.dump_tables(dd, 'extended')
        w2 = os.path.join(work, 'extproc')
        os.makedirs(w2, exist_ok=True)
        extproc.check_tables(chk, 'python-zonespecifier', dt, pt['tables'], None, w2, invariants=[])
        extproc.check_tables(chk, 'cpp-extended', dt, extproc.impl_tables(pdrv, len(dt['zones']), 1999, 2050), None, w2, invariants=[])
        ntab = sum(len(v) for v in pt['tables'].values())
    chk.add(tables_python_and_cpp_bound_to_extproc=ntab)
    chk.add(states=r.distinct, transitions=r.generated, python_observations=py['nobs'] + pyd.get('nobs', 0), option_combinations_compared=ncomb,
            zones_all_options=len(only), zones_default_options=len(rest), wall_windows=nwall,
            rule='the shipped zonedbx tables decoded through the C++ brokers into the Python data model; ZoneSpecifier swept over 2000..2049 (daily grid, every change bisected to the second) with all 8 option combinations on %d zones and the default options on the rest; all must equal each other, the C++ ExtendedZoneProcessor sweep (offset, DST amount, abbreviation) and be accepted by TzSem.tla; local date-times within +-3 h of every transition plus random ones: both implementations must select the same offset, judged by TLC against Allowed(w, later); the per-year transition tables of ZoneSpecifier and of ExtendedZoneProcessor both equal ExtProc.tla for every zone x year 1999..2050' % len(only))
    chk.sample({'zone': 'America/Los_Angeles', 'python_pieces': pypieces.get('America/Los_Angeles', [])[:3]})
    return chk.finish()
