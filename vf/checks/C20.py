"""C20 -- Generated artifacts are deterministic and mutually consistent."""
import filecmp
import glob
import json
import os
import re
from .. import common, compiler, tzparse, dbsource
from .C04 import run_py

LEVEL = 'translation_validation'


def normalise(text):
    """identical apart from the order in which several reasons are listed inside one comment"""
    out = []
    for ln in text.splitlines():
        if ln.lstrip().startswith(('//', '#')) and '(' in ln and ')' in ln and ln.index('(') < ln.rindex(')'):
            # the reasons of one comment, printed as a set `{...}`, a list `([...])` or a plain `(a, b)`: the fragments between
            # commas are compared as a multiset, which no permutation of the reasons changes
            a, b = ln.index('('), ln.rindex(')')
            inner = sorted(x.strip(' \t"\'[]{}') for x in ln[a + 1:b].split(','))
            ln = ln[:a + 1] + '|'.join(inner) + ln[b:]
        out.append(ln)
    return '\n'.join(out)


def files_of(d):
    return sorted(os.path.relpath(p, d) for p in glob.glob(os.path.join(d, '*', '*')) if os.path.isfile(p) and not p.endswith('.pyc') and '__pycache__' not in p)


def zonedbpy_lines():
    d = os.path.join(common.REPO, 'tools', 'zonedbpy')
    lines = []
    for l in open(os.path.join(d, 'zone_policies.py')):
        m = re.match(r'\s*# (Rule\s+\S+\s+\d+\s+\S+\s+\S+\s+\S+\s+\S+\s+\S+\s+\S+\s+\S+.*)$', l)
        if m:
            lines.append(re.sub(r'\s+', '\t', m.group(1).strip()))
    inf = open(os.path.join(d, 'zone_infos.py')).read().splitlines()
    zone = None
    first = False
    for i, l in enumerate(inf):
        m = re.match(r'# Zone name: (\S+)', l)
        if m:
            zone, first = m.group(1), True
            continue
        m = re.match(r'\s+#\s+(\S.*)$', l)
        if m and i + 1 < len(inf) and inf[i + 1].strip() == '{' and zone:
            era = re.sub(r'\s+', '\t', m.group(1).strip())
            lines.append(('Zone\t%s\t%s' % (zone, era)) if first else '\t\t\t' + era)
            first = False
    return lines


def run(tier):
    chk = common.Check('C20', tier, LEVEL)
    work = common.scratch('C20')
    sources = [('tz2025b', compiler.lines_2025b()), ('shipped-zonedbx-lines', compiler.lines_shipped('zonedbx'))]
    import random
    rnd = random.Random(common.seed() * 31 + 7)
    # a generated source over the documented grammar: offsets west and east of UTC that are not multiples of the basic granularity
    sources.append(('gen', compiler.gen_source(rnd, 80 if tier == 'thorough' else 40)))
    # zone names that differ only in characters the generators map to '_': whatever is emitted must be one table per name
    sources.append(('similar', ['Zone\tTest/Foo-Bar\t1:00\t-\tTST', 'Zone\tTest/Foo_Bar\t2:00\t-\tUST', 'Zone\tTest/Other\t3:00\t-\tVST',
                                'Rule\tSim\t1995\tmax\t-\tMar\tlastSun\t2:00\t1:00\tD', 'Rule\tSim\t1995\tmax\t-\tOct\tlastSun\t2:00\t0\tS',
                                'Zone\tTest/With-Rules\t4:00\tSim\tW%sT', 'Zone\tTest/Plain\t5:00\t-\tPLN', 'Link\tTest/Other\tTest/Elsewhere']))
    # two different rules of one policy whose field values, written one after the other without a separator, give the same
    # string (month 1 / plain day 15 and month 10 / Monday / day 5): each must keep its own row in every generated table
    sources.append(('collide', ['Rule\tCol\t1995\tmax\t-\tJan\t15\t2:00\t1:00\tD', 'Rule\tCol\t1995\tmax\t-\tApr\t1\t2:00\t0\tS',
                                'Rule\tCol\t1995\tmax\t-\tOct\tMon>=5\t2:00\t1:00\tD', 'Rule\tCol\t1995\tmax\t-\tDec\t1\t2:00\t0\tS',
                                'Zone\tTest/Collide\t6:00\tCol\tC%sT', 'Zone\tTest/Fixed\t7:00\t-\tFXD']))
    runs = []
    pairs = []
    progs = 0
    nfiles = 0
    # input directories of the sources, so that one source can be compiled "warm" after another one
    from .. import ziexpand
    other_in = {}
    indirs = {}
    for sname, lines in sources:
        d = os.path.join(work, 'indir-' + sname)
        ziexpand.write_input_dir(lines, d)
        indirs[sname] = d
    for sname, lines in sources:
        # the source compiled first in the same process for run 1: the same names with other contents (see decoy_source)
        d = os.path.join(work, 'indir-decoy-' + sname)
        ziexpand.write_input_dir(compiler.decoy_source(lines), d)
        other_in[sname] = d
    for sname, lines in sources:
        w = os.path.join(work, sname)
        os.makedirs(w)
        idx = {}
        res_by_scope = {}
        for scope in ('basic', 'extended'):
            label = '%s:%s' % (sname, scope)
            outs = []
            for k, hs in enumerate(['0', '0', '1', '17'] if tier == 'thorough' else ['0', '0', '3']):
                # run 2 first compiles, in the same process, the other scope; run 1 first compiles a decoy of the source (same zone, link
                # and policy names, other contents) in the same scope: the files must be identical to those of the cold run 0
                extra = ()
                if k == 2:
                    extra = ('warm',)
                elif k == 1 and other_in.get(sname):
                    extra = ('warmdir:' + other_in[sname],)
                res, out, err = compiler.run_compiler(lines, w, scope, flags=('arduino', 'python', 'inmem') + (('pieces',) if k == 0 else ()) + extra, hashseed=hs, tag='-run%d' % k)
                if res is None:
                    chk.violation('%s:compiler' % label, 'compiler failed (run %d): %s' % (k, err), {})
                    break
                outs.append(out)
                if k == 0:
                    res_by_scope[scope] = res
                    if sorted(res['zone_strings']) != sorted(res['emitted_zones']):
                        chk.violation('%s:zone-strings' % label, 'the zone-name list handed to the generators (zone_strings.cpp / tzdb.json) has %d names, the compiler emitted %d zones (only in one: %s)' % (
                            len(res['zone_strings']), len(res['emitted_zones']), sorted(set(res['zone_strings']) ^ set(res['emitted_zones']))[:6]), {})
                    usedf = {f.replace('%s', '%') for fs in res['emitted_formats'].values() for f in fs}      # (the list holds the short form)
                    if not usedf <= set(res['format_strings']):
                        chk.violation('%s:format-strings' % label, 'formats used by emitted eras missing from the format-string list: %s' % sorted(usedf - set(res['format_strings']))[:6], {})
            if len(outs) < 2:
                continue
            # determinism: every generated file identical across runs and hash seeds (modulo reason order inside comments)
            base = outs[0]
            for k, o in enumerate(outs[1:], 1):
                fa, fb = files_of(base), files_of(o)
                if fa != fb:
                    chk.violation('%s:file-set' % label, 'runs produce different sets of files: %s' % sorted(set(fa) ^ set(fb)), {})
                for f in fa:
                    if f in fb and f.endswith(('.h', '.cpp', '.py', '.txt')):
                        nfiles += 1
                        a = open(os.path.join(base, f)).read()
                        b = open(os.path.join(o, f)).read()
                        if a != b and normalise(a) != normalise(b):
                            la, lb = a.splitlines(), b.splitlines()
                            j = next((i for i in range(min(len(la), len(lb))) if la[i] != lb[i]), min(len(la), len(lb)))
                            chk.violation('%s:nondeterministic:%s' % (label, f), 'file %s differs between run 0 and run %d (PYTHONHASHSEED varies) at line %d: %r vs %r' % (f, k, j + 1, la[j][:120] if j < len(la) else None, lb[j][:120] if j < len(lb) else None), {'file': f})
            progs += 1
            # artifact relations
            rc, out_, err_, _ = common.run_cmd([common.PY, os.path.join(common.VERIF, 'vf', 'pydrv_artifacts.py'), base], env=compiler.tool_env(), timeout=900)
            if rc != 0:
                chk.violation('%s:artifacts-unreadable' % label, 'generated files could not be imported / parsed: %s' % err_[-1200:], {'stderr': err_[-2500:]})
                continue
            a = json.loads(out_)
            a['label'] = label
            runs.append(a)
            idx[scope] = len(runs)
            # the run that compiled the other scope first in the same process: its in-memory tables must still equal its files
            if len(outs) > 2:
                rc, out_, err_, _ = common.run_cmd([common.PY, os.path.join(common.VERIF, 'vf', 'pydrv_artifacts.py'), outs[2]], env=compiler.tool_env(), timeout=900)
                if rc != 0:
                    chk.violation('%s:artifacts-unreadable:second-compilation' % label, 'generated files could not be imported / parsed: %s' % err_[-1200:], {'stderr': err_[-2500:]})
                else:
                    a2 = json.loads(out_)
                    a2['label'] = label + ':second-compilation-in-one-process'
                    runs.append(a2)
        if 'basic' in idx and 'extended' in idx:
            pairs.append({'basic': idx['basic'], 'extended': idx['extended'], 'source': sname})
            # identical behaviour of zones emitted in both scopes (truncation-noted zones excepted)
            rb, rx = res_by_scope['basic'], res_by_scope['extended']
            noted = {z for r in (rb, rx) for z, rs in r['notable_zones'].items() if any('truncat' in x for x in rs)}
            # a truncation note on a policy counts for the zones that use the policy
            notedpol = {p for r in (rb, rx) for p, rs in r['notable_policies'].items() if any('truncat' in x for x in rs)}
            noted |= {z for r in (rb, rx) for z, ps in r['emitted_zone_policies'].items() if set(ps) & notedpol}
            for z in sorted(set(rb['emitted_zones']) & set(rx['emitted_zones'])):
                pa, pb = compiler.to_pieces(rb['pieces'][z]['14-1-1']), compiler.to_pieces(rx['pieces'][z]['14-1-1'])
                if pa != pb and z not in noted:
                    j = next((i for i in range(min(len(pa), len(pb))) if pa[i] != pb[i]), min(len(pa), len(pb)))
                    chk.violation('%s:basic-vs-extended:%s' % (sname, z), 'zone %s emitted in both scopes behaves differently at piece %d: basic %s, extended %s' % (z, j, pa[j] if j < len(pa) else None, pb[j] if j < len(pb) else None), {'zone': z})
    if not runs:
        return chk.finish()
    dp = os.path.join(work, 'artifacts.json')
    json.dump({'runs': [{k: r[k] for k in ('label', 'emitted', 'zones_txt', 'py_digests', 'inmem_digests', 'counts')} for r in runs], 'pairs': pairs or [{'basic': 1, 'extended': 1, 'source': 'none'}]}, open(dp, 'w'))
    r = common.run_tlc('Artifacts', 'Artifacts.cfg', env={'ARTIFACTS_DATA': dp}, workers=1, timeout=900)
    common.tlc_must_pass(r, 'Artifacts')
    v = [x for x in common.tlc_prints(r.out) if isinstance(x, dict) and 'artifacts' in x]
    if not v or v[0]['nruns'] != len(runs):
        raise common.MachineryError('Artifacts produced no verdict')
    nrel = 0
    for a, av in zip(runs, v[0]['artifacts']):
        nrel += len(a['py_digests']) + len(a['counts']) + 1
        for k in av['py']:
            what = a['names'][k - 1] if k >= 1 else 'different number of tables'
            chk.violation('%s:python-vs-inmemory:%s' % (a['label'], what), 'imported Python table for %s differs from the in-memory table it was validated with (first difference: %s)' % (what, str(a['first_diff'])[:300]), {'what': what})
        if av['zonelist']:
            chk.violation('%s:zones.txt' % a['label'], 'zones.txt does not list exactly the emitted zones: %s' % sorted(set(a['zones_txt']) ^ set(a['emitted']))[:8], {})
        for k in av['counts']:
            c = a['counts'][k - 1]
            chk.violation('%s:count:%s' % (a['label'], c['what']), '%s states %d but there are %d entries' % (c['what'], c['stated'], c['actual']), c)
    for p, sv in zip(pairs, v[0]['subset']):
        for z in sv:
            chk.violation('%s:basic-not-in-extended:%s' % (p['source'], z), 'zone %s is emitted in basic scope but not in extended scope' % z, {'zone': z})
    # the Python database checked into the repository: loads, and answers every year of its range like zic on its own recorded lines
    lines = zonedbpy_lines()
    pz, err = run_py({'module': 'zonedbpy', 'all_options': False}, work, 'instants', 'zonedbpy')
    nz = 0
    if pz is None:
        chk.violation('zonedbpy:load', 'tools/zonedbpy could not be loaded / evaluated: %s' % err, {'stderr': err})
    else:
        pieces = {n: compiler.to_pieces(v2['14-1-1']) for n, v2 in pz['pieces'].items()}
        rj, nz, bad = compiler.judge(chk, 'zonedbpy', lines, sorted(pieces), pieces, work, 2000, 2050)
        rules, zones, _ = tzparse.parse(lines)
        if set(zones) != set(pieces):
            chk.violation('zonedbpy:zone-set', 'ZONE_INFO_MAP and the recorded lines list different zones: %s' % sorted(set(zones) ^ set(pieces))[:6], {})
    chk.add(programs=progs + 1, disagreements_checked=nrel + nz, files_compared=nfiles, states=r.distinct + 1, transitions=r.generated + 1, zonedbpy_zones=nz,
            rule='each source x scope compiled %d times (same and different PYTHONHASHSEED): every generated file (C++ tables, Python tables, zones.txt) byte-identical modulo reason order in comments; TLC (Artifacts.tla) checks imported Python tables = in-memory tables per zone/policy, zones.txt = emitted set, every stated count = number of entries, basic subset of extended; zones emitted in both scopes behave identically (ZoneSpecifier traces); tools/zonedbpy loaded and its traces over 2000..2049 judged by TzSem.tla/zic on its own recorded lines' % (4 if tier == 'thorough' else 3))
    chk.sample({'run': runs[0]['label'], 'counts': runs[0]['counts'][:3], 'nzones': len(runs[0]['emitted'])})
    return chk.finish()
