"""C08 -- Answers are independent of query history (caches, shared processors, eviction)."""
import os
import random
from .. import common, zoneproc, tzconf

LEVEL = 'model_checking'


def zone_index(kind):
    exe = common.build_binary('tzscan', ['tzscan.cpp'], 'opt')
    return {n: i for i, n in enumerate(tzconf.list_zones(exe, kind))}


def run(tier, pid='C08'):
    chk = common.Check(pid, tier, LEVEL)
    work = common.scratch(pid)
    exe = common.build_binary('histdrv', ['histdrv.cpp'], 'san')
    configs = [('D1', 1, 0), ('M1', 0, 1), ('M2', 0, 2)]
    if tier == 'thorough':
        configs += [('D2', 2, 0), ('DM', 1, 1)]
    refuted = zoneproc.refute_asread(work)
    if 'HistoryIndependent' not in refuted or 'NoNullDeref' not in refuted:
        raise common.MachineryError('TLC no longer refutes the AsRead parameterisation (got %s)' % refuted)
    chk.add(asread_parameterisation_refuted=refuted)
    st = tr = nscripts = nsteps = 0
    zidx = {k: zone_index(k) for k in ('basic', 'extended')}
    for tag, nd, k in configs:
        res, edges = zoneproc.model_edges(nd, k, work, tag)
        st += res.distinct
        tr += res.generated
        for kind in ('extended', 'basic'):
            for variant in (0, 1):
                zoneproc.ARG_VARIANT[0] = variant
                a, b = zoneproc.replay_edges(chk, exe, kind, nd, k, edges, zidx[kind], tag + ('' if variant == 0 else '-jan'))
                nscripts += a
                nsteps += b
        zoneproc.ARG_VARIANT[0] = 0
        if len(chk.cov['samples']) < 3:
            e = edges[len(edges) // 2]
            chk.sample({'config': tag, 'edge': {'from': e['from'], 'call': e['call'], 'to': e['to']}})
    # P2: seeded random histories on richer domains, validated as traces
    rnd = random.Random(common.seed() * 104729 + 5)
    ntr = acc = 0
    nh, ln = (40, 60) if tier == 'quick' else (250, 200)
    # (the third zone ends in an era without rules: a year cache that is never rebuilt for later years would still be "right" inside the range)
    zones6 = ["America/Los_Angeles", "Europe/London", "Asia/Kolkata", "Australia/Sydney", "America/Sao_Paulo", "Asia/Tokyo", "Africa/Johannesburg", "Pacific/Auckland"]
    for kind in ('extended', 'basic'):
        zs = [z for z in zones6 if z in zidx[kind]]
        for k in (1, 2, 3, 4):
            hs = zoneproc.gen_histories(rnd, kind, k, zs[:k + 2], nh, ln)
            res, n, a, s = zoneproc.validate_histories(chk, exe, kind, k, hs, zidx[kind], work, '%s-K%d' % (kind, k))
            if res is not None:
                st += res.distinct
                tr += res.generated
            ntr += n
            acc += a
            nsteps += s
            if kind == 'extended' and k == 2:
                chk.sample({'random_history_prefix': [(c['h']['kind'], c['h']['zone'], c['op'], c['arg']) for c in hs[0][:6]]})
    # all ordered pairs of cached-year states, every zone of both databases: the edge Query(B) from "cached = A" of ZoneProc
    # (HistoryIndependent) instantiated for every zone x every (A, B) in 2000..2052 (+ far out-of-range A); table and answers
    # of the long-lived processor against a never-used one in zero-filled memory
    pd = common.build_binary('pairdrv', ['pairdrv.cpp'], 'opt')
    npairs = npc = 0
    step = 5 if tier == 'quick' else 1

    def prun(a):
        rc, out_, err, _ = common.run_cmd([pd, a[0], str(a[1]), str(a[2]), '2000', '2052', str(step)], timeout=6000)
        return a, rc, out_, err
    import json as _json
    jobs = [(kind, i, min(i + 8, len(zidx[kind]))) for kind in ('extended', 'basic') for i in range(0, len(zidx[kind]), 8)]
    for a, rc, out_, err in common.tmap(prun, jobs):
        recs = [_json.loads(l) for l in out_.splitlines() if l.startswith('{')]
        if rc != 0 or not recs or 'done' not in recs[-1]:
            chk.violation('pairs:%s:crash:%d-%d' % a, 'year-pair sweep crashed rc=%s: %s' % (rc, err[-600:]), {'args': list(a)})
            continue
        npairs += recs[-1]['pairs']
        npc += recs[-1]['calls']
        for r in recs[:-1]:
            chk.violation('pairs:%s:%s:%d:%s' % (a[0], r['zone'], r['B'], r['kind']),
                          '%s %s: after serving year %d, the processor asked about year %d %s %s; a never-used processor %s' % (
                              a[0], r['zone'], r['A'], r['B'], 'holds the table' if r['kind'] == 'table' else 'answers (utc/dst/abbrev/local) at t=%s' % r.get('t'), r['got'][:300], r['fresh'][:300]), r)
    chk.add(year_pairs_checked=npairs, year_pair_calls=npc)
    # the Python reference implementation keeps a per-year cache too (ZoneSpecifier.init_for_year): reused object vs fresh object
    from . import C04
    pyn = 0
    if pid == 'C08':
        data = C04.decoded_tables('extended')
        res, err = C04.run_py(dict(data, seed=common.seed(), length=30 if tier == 'quick' else 150), work, 'history', 'hist')
        if res is None:
            chk.violation('python:history-crash', 'ZoneSpecifier history driver failed: %s' % err, {'stderr': err})
        else:
            pyn = res['ncalls']
            for b in res['bad']:
                chk.violation('python:%s:%s' % (b['zone'], b['kind']), 'ZoneSpecifier(%s) reused across years answers %s at step %d (%s %d), a fresh one %s' % (b['zone'], str(b['reused'])[:120], b['step'], b['kind'], b['arg'], str(b['fresh'])[:120]), b)
    chk.add(python_zone_specifier_calls=pyn)
    chk.add(states=st, transitions=tr, traces_validated_against_impl=ntr + nscripts, model_edges_replayed=nscripts,
            random_histories=ntr, random_histories_accepted=acc, real_calls_compared_with_fresh_time_zone=nsteps,
            rule='every transition of the ZoneProc model graph (configs %s) replayed in the ASan+UBSan build of the real classes for Basic and Extended; seeded random histories (K=1..4, 3-6 zones, in/out-of-range and Jan-1 arguments) validated by ZoneProc_Trace; every zone of zonedb/zonedbx x every ordered pair of years 2000..2052 (the last ones outside the zone data; + far out-of-range years as the first of the pair): per-year table and answers vs a never-used processor' % [c[0] for c in configs])
    chk.assume('hostshim; private state read with a "#define private public" include in the driver only; sanitizers (ASan, UBSan) as monitors for crashes and undefined behaviour')
    return chk.finish()
