"""C16 -- TimeZone is a faithful value: equality, manual offsets, save/restore."""
import json
import os
from .. import common

LEVEL = 'model_checking'


def run(tier):
    chk = common.Check('C16', tier, LEVEL)
    work = common.scratch('C16')
    exe = common.build_binary('tzvdrv', ['tzvdrv.cpp'], 'san')
    r0 = common.run_tlc('TimeZoneValue', 'TimeZoneValue.cfg', timeout=600)
    common.tlc_must_pass(r0, 'TimeZoneValue (RoundTrip, EqualityIsDenotation, Coincidence)')
    nsave = neq = 0
    for db in ('basic', 'extended'):
        rc, out, err, _ = common.run_cmd([exe, db], env=common.san_env(), timeout=1200)
        if rc != 0:
            chk.violation('%s:driver-crash' % db, 'tzvdrv crashed rc=%s: %s' % (rc, err[-1500:]), {'stderr': err[-3000:]})
            continue
        rec = json.loads(out)
        for f in rec['fails']:
            chk.violation('%s:native:%s' % (db, f), f, {'db': db})
        cp = os.path.join(work, 'cases_%s.json' % db)
        json.dump({'save': rec['save'], 'eq': rec['eq']}, open(cp, 'w'))
        r = common.run_tlc('TimeZoneValue_Trace', 'TimeZoneValue.cfg', env={'TZV_CASES': cp}, workers=1, timeout=900)
        common.tlc_must_pass(r, 'TimeZoneValue_Trace %s' % db)
        v = [x for x in common.tlc_prints(r.out) if isinstance(x, dict) and 'tzv_bad_save' in x]
        if not v or v[0]['nsave'] != len(rec['save']) or v[0]['neq'] != len(rec['eq']):
            raise common.MachineryError('TimeZoneValue_Trace judged no cases')
        for k in sorted(v[0]['tzv_bad_save'])[:50]:
            c = rec['save'][k - 1]
            chk.violation('%s:save-restore:kind%d' % (db, c['tz'][0]), 'save/restore case rejected by TimeZoneValue: tz=%s data=%s restored=%s eq_created=%s inreg=%s utc=%s' % (
                c['tz'], c['data'], c['restored'], c['eq_created'], c['inreg'], c['utc']), c)
        for k in sorted(v[0]['tzv_bad_eq'])[:50]:
            c = rec['eq'][k - 1]
            chk.violation('%s:equality:kinds%d-%d' % (db, c['a'][0], c['b'][0]), 'operator== disagrees with TimeZoneValue!Equal: %s' % c, c)
        nsave += len(rec['save'])
        neq += len(rec['eq'])
        chk.sample({'db': db, 'save_case': rec['save'][3], 'eq_case': rec['eq'][40]})
    rc, out, err, _ = common.run_cmd([exe, 'cross'], env=common.san_env(), timeout=600)
    if rc != 0:
        chk.violation('cross:driver-crash', 'tzvdrv cross crashed: %s' % err[-800:], {})
    else:
        c = json.loads(out)
        if c['absent_not_error']:
            chk.violation('cross:absent-id-not-error', '%d zone ids absent from the basic registry restored to a non-error zone' % c['absent_not_error'], c)
        if c['shared_wrong']:
            chk.violation('cross:shared-id-wrong', '%d shared zone ids restored to the wrong zone' % c['shared_wrong'], c)
    chk.add(states=r0.distinct + 2, transitions=r0.generated + 2, traces_validated_against_impl=nsave + neq, save_restore_cases=nsave, equality_cases=neq,
            exhaustive=True, rule='TLC: RoundTrip / EqualityIsDenotation over all kinds x 3 zones x 5x5 offsets x all registries (as ASSUMEs); every zone of both registries (managed and direct, full and partial registries), manual offsets on a 15-minute grid x DST set plus int16 boundaries, error and UTC zones, and all pairs of a 24-value pool recorded from the real classes and judged by TLC against Save/Restore/Equal')
    chk.assume('zone ids (32 bit) are replaced by registry positions in the recorded cases; the driver itself checks id equality')
    return chk.finish()
