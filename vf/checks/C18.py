"""C18 -- Rule day resolution (lastSun, Sun>=8, Fri<=1) agrees in C++, Python and the calendar."""
import json
import os
from .. import common
from .C06 import tlc_table

LEVEL = 'model_checking'


def write_cfg(path, lo, hi, step, dump):
    open(path, 'w').write("SPECIFICATION Spec\nCONSTANTS YearLo = %d\n YearHi = %d\n YearStep = %d\n DumpOn = %s\nINVARIANT DefIsRight\nINVARIANT AdmittedAgree\nINVARIANT SpillRejected\nINVARIANT Dump\nCHECK_DEADLOCK FALSE\n" % (lo, hi, step, 'TRUE' if dump else 'FALSE'))


def spill_source():
    """zones whose policies use day expressions that leave their month: `Fri<=1` (the last days of the month before) and
    `Sun>=28` (the first days of the month after), as the DST-start or as the DST-end rule, with every weekday; rules end in
    2036 (zic's POSIX footer cannot express a spilling form; the last rule is a return to standard time)"""
    lines = []
    forms = [('Apr', 'Fri<=1', True), ('Sep', 'Sun>=28', False), ('Mar', 'Sat<=2', True), ('Feb', 'Sun>=25', True), ('Jun', 'Mon>=29', False),
             ('May', 'Thu<=3', True), ('Nov', 'Sun>=27', False), ('Aug', 'Wed<=4', False), ('Apr', 'Tue>=28', True), ('Oct', 'Sun<=5', False),
             ('Feb', 'Sat>=24', True), ('Sep', 'Mon<=6', False)]
    mon = ['Jan', 'Feb', 'Mar', 'Apr', 'May', 'Jun', 'Jul', 'Aug', 'Sep', 'Oct', 'Nov', 'Dec']
    offs = ['2:00', '-5:00', '9:30', '-3:30', '0:00', '5:45']
    for k, (m, on, is_start) in enumerate(forms):
        pol = 'SP%02d' % k
        other = mon[(mon.index(m) + 6) % 12]
        a = ('Rule\t%s\t1995\t2036\t-\t%s\t%s\t2:00\t%s\t%s' % (pol, m, on, '1:00' if is_start else '0', 'D' if is_start else 'S'))
        b = ('Rule\t%s\t1995\t2036\t-\t%s\tlastSun\t2:00\t%s\t%s' % (pol, other, '0' if is_start else '1:00', 'S' if is_start else 'D'))
        # (the return to standard time must be the later rule of 2036)
        first_is_dst = is_start
        ma, mb = mon.index(m), mon.index(other)
        if (first_is_dst and ma > mb) or (not first_is_dst and ma < mb):
            # the DST-start rule comes later in the year than the DST-end rule (southern pattern): end the start rule a year earlier
            if is_start:
                a = a.replace('\t2036\t', '\t2035\t')
            else:
                b = b.replace('\t2036\t', '\t2035\t')
        lines += [a, b, 'Zone\tTest/Spill_%02d\t%s\t%s\tT%%sT' % (k, offs[k % len(offs)], pol)]
    return lines


def run(tier):
    chk = common.Check('C18', tier, LEVEL)
    work = common.scratch('C18')
    exe = common.build_binary('caldrv', ['caldrv.cpp'], 'opt')
    # 1. TLC over the argument space: definition is right; admitted => C++ = Python = definition, no year spill; spill => rejected
    cfg = os.path.join(work, 'MC_RuleDay_full.cfg')
    write_cfg(cfg, 1873, 2126, 3 if tier == 'quick' else 1, False)
    r = common.run_tlc('MC_RuleDay', cfg, timeout=3000)
    common.tlc_must_pass(r, 'MC_RuleDay')
    # 2. the dumped table (every 11th year): the real code must reproduce it row by row
    cfg2 = os.path.join(work, 'MC_RuleDay_dump.cfg')
    write_cfg(cfg2, 1873, 2126, 11, True)
    r2, rows = tlc_table('MC_RuleDay', cfg2)
    spec = {(y, m, dow, dom): (cy, cm, cd, adm) for y, m, dow, dom, cy, cm, cd, adm in rows}
    # 3. the real C++ over the whole admitted space
    jobs = [(y, min(y + 15, 2126)) for y in range(1873, 2127, 16)]

    def one(j):
        rc, out, err, _ = common.run_cmd([exe, 'ruleday', str(j[0]), str(j[1])], timeout=3000)
        return j, rc, out, err[-500:]
    allrows = os.path.join(work, 'cpp_rows.txt')
    ncpp = 0
    with open(allrows, 'w') as f:
        for j, rc, out, err in common.tmap(one, jobs):
            if rc != 0:
                chk.violation('cpp:crash:%d-%d' % j, 'calcStartDayOfMonth sweep crashed rc=%s: %s' % (rc, err), {'years': j})
                continue
            f.write(out)
            for ln in out.splitlines():
                y, m, dow, dom, rm, rd = map(int, ln.split())
                ncpp += 1
                s = spec.get((y, m, dow, dom))
                if s is not None and s[3] == 1 and (rm, rd) != (s[1], s[2]):
                    chk.violation('cpp:%s' % ('ge' if dom > 0 else 'le' if dom < 0 else 'last'),
                                  'calcStartDayOfMonth(%d, %d, dow=%d, dom=%d) = (%d, %d); the calendar resolves it to %s' % (y, m, dow, dom, rm, rd, s[:3]),
                                  {'year': y, 'month': m, 'dow': dow, 'dom': dom, 'cpp': [rm, rd], 'spec': s[:3]})
    # 4. Python: calc_day_of_month on every row (must equal the C++ result), ON-string parsing, and the real rejection filter
    env = dict(os.environ, PYTHONPATH=os.path.join(common.REPO, 'tools'), PYTHONDONTWRITEBYTECODE='1')
    rc, out, err, _ = common.run_cmd([common.PY, os.path.join(common.VERIF, 'vf', 'pydrv_ruleday.py'), allrows], env=env, timeout=3000)
    if rc != 0:
        chk.violation('python:crash', 'python side crashed: %s' % err[-1500:], {'stderr': err[-3000:]})
    else:
        p = json.loads(out.splitlines()[-1])
        for b in p['bad']:
            chk.violation('python-vs-cpp:%s' % ('ge' if b['dom'] > 0 else 'le' if b['dom'] < 0 else 'last'), 'calc_day_of_month%s = %s but calcStartDayOfMonth = %s' % ((b['y'], b['m'], b['dow'], b['dom']), b['python'], b['cpp']), b)
        for b in p['parse_bad']:
            chk.violation('python:parse:%s' % b[0], '_parse_on_day_string(%r) = %s, expected %s' % (b[0], b[1], b[2]), {'on': b[0]})
        admitted = {tuple(a) for a in p['admitted']}
        multi = {tuple(a) for a in p['admitted_multi']}
        for e in sorted(multi ^ admitted)[:12]:
            chk.violation('python:filter-depends-on-rule-position:m=%d:dom=%d' % (e[0], e[2]), 'the compiler %s a policy whose only questionable rule is month=%d dow=%d dom=%d when that rule stands between two harmless weekday rules, but %s it when it stands alone' % (
                'admits' if e in multi else 'rejects', e[0], e[1], e[2], 'admits' if e in admitted else 'rejects'), {'expr': e})
        # every expression that can leave the year (in some year) must be rejected by the real filter
        spills = set()
        for (y, m, dow, dom), (cy, cm, cd, adm) in spec.items():
            if cy != y:
                spills.add((m, dow, dom))
        # (the dump covers 24 years spread over 1873..2126: every weekday alignment occurs)
        for e in sorted(spills & admitted):
            yr = next(y for (y, m, dow, dom), v in spec.items() if (m, dow, dom) == e and v[0] != y)
            chk.violation('python:admits-year-spill:m=%d:dom=%d' % (e[0], e[2]), 'the compiler admits month=%d dow=%d dom=%d although in %d it resolves outside the year' % (e[0], e[1], e[2], yr), {'month': e[0], 'dow': e[1], 'dom': e[2], 'year': yr})
        # and the specification's Admitted must be the predicate the compiler implements (else the theorems are about something else)
        spec_adm = {(m, dow, dom) for (y, m, dow, dom), v in spec.items() if v[3] == 1 and dom != 0}
        domain = {(m, dow, dom) for (y, m, dow, dom) in spec}
        real_adm = {a for a in admitted if a in domain}
        diff = sorted((spec_adm ^ real_adm))
        for e in diff[:10]:
            chk.violation('python:rejection-predicate:m=%d:dom=%d' % (e[0], e[2]), 'compiler %s month=%d dow=%d dom=%d, the specification says the opposite' % ('admits' if e in real_adm else 'rejects', e[0], e[1], e[2]), {'expr': e})
        # calc_day_of_month signals a spill over the year boundary by month 0 / 13 -- on every expression, admitted or not
        ncon = 0
        for y, m, dow, dom, rr_ in p['contract']:
            sres = spec.get((y, m, dow, dom))
            if sres is None:
                continue
            ncon += 1
            cy, cm, cd, _adm = sres
            want = [cm, cd] if cy == y else ([0, cd] if cy < y else [13, cd])
            if rr_ != want:
                chk.violation('python:calc_day_of_month:contract:m=%d' % m, 'calc_day_of_month(%d, %d, %d, %d) = %s; the calendar says %s (month 0 / 13 = previous / next year)' % (y, m, dow, dom, rr_, want), {'args': [y, m, dow, dom]})
                break
        # the UNTIL-day filter removes exactly the eras whose expression leaves the year (and resolves the others correctly)
        nun = 0
        for rec in p['until']:
            if rec[0] == 'exception':
                chk.violation('python:until-filter:exception', '_create_zones_with_until_day raised %s' % rec[1], {})
                break
            zn, y, m, dow, dom, kept, day, kmonth = rec
            # the declarative resolution, computed from the day count of the TLC table's own calendar (same formulas as Calendar.tla)
            import datetime
            if dom == 0:
                last = (datetime.date(y + (m == 12), m % 12 + 1, 1) - datetime.timedelta(days=1))
                d = last - datetime.timedelta(days=(last.isoweekday() - dow) % 7)
            elif dom > 0:
                b = datetime.date(y, m, dom) if dom <= ((datetime.date(y + (m == 12), m % 12 + 1, 1) - datetime.timedelta(days=1)).day) else None
                d = b + datetime.timedelta(days=(dow - b.isoweekday()) % 7) if b else None
            else:
                b = datetime.date(y, m, -dom)
                d = b - datetime.timedelta(days=(b.isoweekday() - dow) % 7)
            if d is None:
                continue
            nun += 1
            spills = d.year != y
            if spills and kept:
                chk.violation('python:until-filter:admits-year-spill:m=%d' % m, 'era with UNTIL %d month %d dow %d dom %d is kept (resolved to day %s) although the expression falls on %s' % (y, m, dow, dom, day, d), {'zone': zn})
            elif not spills and kept and (day != d.day or kmonth != d.month):
                chk.violation('python:until-filter:wrong-day', 'UNTIL %d month %d dow %d dom %d resolved to month %s day %s, the calendar says %s' % (y, m, dow, dom, kmonth, day, d), {'zone': zn})
        chk.add(python_rows=p['n'], on_strings_parsed=p['nparse'], rejection_filter_expressions=p['nexpr'], calc_contract_rows=ncon, until_filter_cases=nun)
    # 5. the resolved (month, day) *as the processors use it*: a source whose rules resolve into the neighbouring month in
    # most years, through the real compiler (both scopes, both targets), the generated C++ tables read by the real processors
    # and bound to BasicProc.tla / ExtProc.tla, the traces judged by TzSem.tla (zic validating) -- the path of C03
    from .C03 import check_source
    sp, sdis, sst, strn, _res = check_source(chk, 'spill', spill_source(), tier, start=2000, until=2038)
    chk.add(spill_programs=sp, spill_zones_judged=sdis)
    chk.add(states=r.distinct + r2.distinct + sst, transitions=r.generated + r2.generated + strn, traces_validated_against_impl=ncpp,
            cpp_cases=ncpp, tlc_table_rows=len(spec), exhaustive=(tier == 'thorough'),
            rule='TLC over years 1873..2126 (step %d) x 12 months x 7 weekdays x every day-of-month expression: definition right, admitted => C++ = Python = definition, spill => rejected; the real calcStartDayOfMonth on the whole admitted space, equal to the TLC table on every 11th year and to the real calc_day_of_month on every row; the real _parse_on_day_string on the ON grammar; the real rejection filter on all 12x7x62 expressions' % (3 if tier == 'quick' else 1))
    chk.sample({'tlc_row': rows[1000], 'meaning': '[year, month, dow, dom, resolved y, m, d, admitted]'})
    chk.sample({'tlc_row': next(x for x in rows if x[4] != x[0])})
    return chk.finish()
