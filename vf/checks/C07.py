"""C07 -- Local time resolution: identity if unique, forward in gaps, valid in overlaps."""
import os
from .. import common, tzconf

LEVEL = 'model_checking'


def run(tier):
    chk = common.Check('C07', tier, LEVEL)
    exe = common.build_binary('tzscan', ['tzscan.cpp'], 'opt')
    nrandom = 300 if tier == 'quick' else 3000
    full = tier == 'thorough'
    tzconf.check_wall(chk, exe, 'extended', os.path.join(common.REPO, 'src/ace_time/zonedbx'), 'later', 'zonedbx', nrandom, full=full)
    tzconf.check_wall(chk, exe, 'basic', os.path.join(common.REPO, 'src/ace_time/zonedb'), 'either', 'zonedb', nrandom, full=full)
    chk.add(exhaustive=full, rule=('every wall minute of 2000..2049 of every zone' if full else
            'every wall minute within +-200 min of every transition of every zone plus %d seeded random wall minutes per zone' % nrandom) +
            ', each change of the result bisected to the second; run-length traces judged by TLC against TzSem.tla Allowed(w, policy)')
    chk.assume('local date-times of the years 2000..2049; their instants may fall up to a day outside [2000, 2050), where the model keeps walking')
    return chk.finish()
