"""C07 -- Local time resolution: identity if unique, forward in gaps, valid in overlaps."""
import os
from .. import common, tzconf, extproc

LEVEL = 'model_checking'


def run(tier):
    chk = common.Check('C07', tier, LEVEL)
    exe = common.build_binary('tzscan', ['tzscan.cpp'], 'opt')
    nrandom = 300 if tier == 'quick' else 3000
    full = tier == 'thorough'
    wx = tzconf.check_wall(chk, exe, 'extended', os.path.join(common.REPO, 'src/ace_time/zonedbx'), 'later', 'zonedbx', nrandom, full=full)
    wb = tzconf.check_wall(chk, exe, 'basic', os.path.join(common.REPO, 'src/ace_time/zonedb'), 'either', 'zonedb', nrandom, full=full)
    # zones created directly on one shared processor and used alternately resolve local times like zones with their own
    import json
    nshared = 0
    for db in ('extended', 'basic'):
        rc, out, err, _ = common.run_cmd([exe, 'wallshared', db], timeout=1800)
        recs = [json.loads(l) for l in out.splitlines() if l.startswith('{')]
        if rc != 0 or not recs:
            chk.violation('%s:shared-processor:crash' % db, 'tzscan wallshared crashed rc=%s: %s' % (rc, err[-600:]), {})
            continue
        nshared += recs[-1]['nq']
        if recs[-1]['nbad']:
            chk.violation('%s:shared-processor:forComponents' % db, 'two directly created zones sharing one processor, used alternately: %d of %d local times resolve differently from zones with their own processor; first: %s' % (recs[-1]['nbad'], recs[-1]['nq'], recs[-1]['first']), recs[-1]['first'])
    chk.add(forComponents_on_shared_processor=nshared)
    # algorithm level: the same recorded resolutions must *equal* what ExtProc.tla (findTransitionForDateTime + normalisation
    # on the table of the local year) and BasicProc.tla (the three-step offset iteration over the tables selected by UTC date)
    # compute from the compiled tables, at the start of every recorded piece and at every wall time where the model can change
    work = common.scratch('C07-algorithm')
    extproc.check_wall_algorithm(chk, 'zonedbx', 'extended', wx, work)
    extproc.check_wall_algorithm(chk, 'zonedb', 'basic', wb, work)
    chk.add(exhaustive=full, rule=('every wall minute of 2000..2049 of every zone' if full else
            'every wall minute within +-200 min of every transition of every zone plus %d seeded random wall minutes per zone' % nrandom) +
            ', each change of the result bisected to the second; run-length traces judged by TLC against TzSem.tla Allowed(w, policy), and for equality against the wall-clock algorithms of ExtProc.tla / BasicProc.tla')
    chk.assume('local date-times of the years 2000..2049; their instants may fall up to a day outside [2000, 2050), where the model keeps walking')
    return chk.finish()
