"""C17 -- TimePeriod, TimeOffset and mutation helpers keep stated ranges and inverses."""
import json
import os
from .. import common
from .C06 import tlc_table

LEVEL = 'model_checking'


def run(tier):
    chk = common.Check('C17', tier, LEVEL)
    work = common.scratch('C17')
    exe = common.build_binary('perdrv', ['perdrv.cpp'], 'opt')
    step = 61 if tier == 'quick' else 7
    cfg = os.path.join(work, 'MC_Period.cfg')
    open(cfg, 'w').write("SPECIFICATION Spec\nCONSTANTS PeriodStep = %d\n DumpOn = TRUE\nINVARIANT PeriodOK\nINVARIANT HourMinuteOK\nINVARIANT Inc15OK\nINVARIANT ByteOK\nINVARIANT Dump\nCHECK_DEADLOCK FALSE\n" % step)
    r, rows = tlc_table('MC_Period', cfg, timeout=3000)
    spec = {}
    for row in rows:
        if row[0] == 'byte':
            spec[('byte', row[1])] = row[2:]
        elif row[0] == 'hm':
            spec[('hm', row[1], row[2])] = row[3:]
        else:
            spec[(row[0], row[1])] = row[2:]
    rc, out, err, _ = common.run_cmd([exe, 'tables', str(step)], timeout=900)
    if rc != 0:
        chk.violation('tables:crash', 'perdrv tables crashed: %s' % err[-600:], {})
        out = ''
    seen_keys = set()
    for ln in out.splitlines():
        f = ln.split()
        kind = f[0]
        v = [int(x) for x in f[1:]]
        if kind == 'period':
            want = spec.get(('period', v[0]))
            if want is not None:
                seen_keys.add(('period', v[0]))
                if v[1:] != want:
                    chk.violation('period:fields', 'TimePeriod(%d) has (sign,h,m,s)=%s, specification %s' % (v[0], v[1:], want), {'seconds': v[0]})
        elif kind == 'hm':
            want = spec.get(('hm', v[0], v[1]))
            seen_keys.add(('hm', v[0], v[1]))
            if want is None or v[2:5] != want or v[5] != 60 * v[2]:
                chk.violation('offset:hour-minute', 'forHourMinute(%d,%d): minutes=%d toHourMinute=(%d,%d) toSeconds=%d; specification %s' % (v[0], v[1], v[2], v[3], v[4], v[5], want), {'hour': v[0], 'minute': v[1]})
        elif kind == 'inc15':
            want = spec.get(('inc15', v[0]))
            seen_keys.add(('inc15', v[0]))
            if want is None or [v[1]] != want:
                chk.violation('offset:increment15Minutes', 'increment15Minutes(%d) = %d, specification %s' % (v[0], v[1], want), {'minutes': v[0]})
        elif kind == 'byte':
            b = v[0]
            want = spec.get(('byte', b))
            seen_keys.add(('byte', b))
            # want = [hour, minute, month, day, year]; code row = [pHour, pMinute, zMonth, zDay, zYear, zHour, zMinute]
            got = v[1:]
            exp = [want[0], want[1], want[2], want[3], want[4], want[0], want[1]]
            if b >= 127:
                got[4] = exp[4] = 0      # the signed year helper: 127 overflows int8, 128..255 are negative year offsets (dates before 2000), which it only counts up
            if got != exp:
                chk.violation('mutation:byte', 'increment helpers on byte %d give (period hour, period minute, month, day, year, hour, minute)=%s, specification %s' % (b, got, exp), {'byte': b})
    seen = len(seen_keys)
    if seen_keys != set(spec) and rc == 0:
        chk.violation('tables:coverage', 'only %d of %d specification rows were produced by the code' % (seen, len(spec)), {})
    # the helper with an explicit modulus on the whole (limit, hour) product against the specification's IncMod; the one-day
    # date helpers on every day against the calendar; each helper leaves the other fields alone
    rc, out, err, _ = common.run_cmd([exe, 'helpers'], timeout=900)
    nh = 0
    if rc != 0 or not out.strip().splitlines() or not out.strip().splitlines()[-1].startswith('done'):
        chk.violation('helpers:crash', 'perdrv helpers crashed: %s' % err[-600:], {})
    else:
        for ln in out.splitlines():
            f = ln.split()
            if f[0] == 'hl':
                limit, h, got = int(f[1]), int(f[2]), int(f[3])
                e = (h + 1) % 256
                want = 0 if e >= limit else e          # MC_Period.IncMod
                nh += 1
                if got != want:
                    chk.violation('mutation:incrementHour-limit', 'incrementHour(period, limit=%d) on hour %d gives %d, specification (IncMod) %d' % (limit, h, got, want), {'limit': limit, 'hour': h})
            elif f[0] == 'day':
                chk.violation('mutation:one-day:%s' % f[1], '%sOneDay on epoch day %s gives %s-%s-%s, the calendar says otherwise' % ('increment' if f[1] == 'inc' else 'decrement', f[2], f[3], f[4], f[5]), {'day': int(f[2])})
            elif f[0].startswith('other-fields'):
                chk.violation('mutation:%s' % f[0], 'an increment helper applied to a value whose field is %s changes another field' % f[1], {'byte': int(f[1])})
            elif f[0] == 'done':
                nh += int(f[1])
    chk.add(helper_cases=nh)
    rc, out, err, _ = common.run_cmd([exe, 'periods'], timeout=900)
    recs = [json.loads(l) for l in out.splitlines() if l.startswith('{')] if rc == 0 else []
    nper = 0
    if rc != 0 or not recs or 'done' not in recs[-1]:
        chk.violation('periods:crash', 'perdrv periods crashed: %s' % err[-600:], {})
    else:
        nper = recs[-1]['n']
        for b in recs[:-1]:
            chk.violation('period:roundtrip-order', 'TimePeriod(%d): fields %s toSeconds %d (round trip, ranges, negate or compareTo broken)' % (b['s'], b['fields'], b['toSeconds']), b)
    chk.add(states=r.distinct, transitions=r.generated, traces_validated_against_impl=seen, spec_rows_compared=seen, periods_swept_natively=nper,
            exhaustive=True, rule='TLC: second counts on a stride of %d plus boundaries (round trip, ranges, negate, compareTo vs neighbours/extremes), all sign-consistent int8 (hour, minute) pairs, all offsets -960..960 under increment15Minutes (closure and the 129-cycle), all 256 byte values through every increment helper; each dumped row compared with the real classes; all 1,843,199 second counts through the real TimePeriod' % step)
    chk.sample({'tlc_rows': rows[:2] + [x for x in rows if x[0] == 'byte'][:1]})
    chk.assume('documented intervals are read from the doc comments; the signed year helper is compared on 0..126 (every year 2000..2126: into [0, 99]), not on 127 (int8 overflow) and negative offsets')
    return chk.finish()
