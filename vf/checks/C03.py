"""C03 -- TZ compiler preserves semantics end to end; unsupported zones are reported."""
import json
import os
import random
from .. import common, compiler, tzparse, tzconf

LEVEL = 'translation_validation'


def accounting(chk, label, res):
    """every input zone and link is either emitted or listed as removed with a reason"""
    iz = set(res['input_zones'])
    ez = set(res['emitted_zones'])
    rz = set(res['removed_zones'])
    for z in sorted(iz - ez - rz):
        chk.violation('%s:%s:zone-silently-dropped' % (label, z), 'input zone %s is neither emitted nor listed as removed' % z, {'zone': z})
    for z in sorted(ez - iz):
        chk.violation('%s:%s:zone-invented' % (label, z), 'emitted zone %s is not in the input' % z, {'zone': z})
    for z in sorted(ez & rz):
        chk.violation('%s:%s:zone-both' % (label, z), 'zone %s is both emitted and listed as removed' % z, {'zone': z})
    for z in sorted(rz & iz):
        if not res['removed_zones'][z]:
            chk.violation('%s:%s:no-reason' % (label, z), 'zone %s removed without a reason' % z, {'zone': z})
    il = res['input_links']
    el = res['emitted_links']
    rl = set(res['removed_links'])
    for a in sorted(set(il) - set(el) - rl):
        chk.violation('%s:%s:link-silently-dropped' % (label, a), 'input link %s -> %s is neither emitted nor listed as removed' % (a, il[a]), {'link': a})
    for a, t in sorted(el.items()):
        if il.get(a) != t:
            chk.violation('%s:%s:link-altered' % (label, a), 'emitted link %s -> %s, input says %s' % (a, t, il.get(a)), {'link': a})
        if t not in ez:
            chk.violation('%s:%s:link-dangling' % (label, a), 'emitted link %s points to %s which is not emitted' % (a, t), {'link': a})
    # conservation at every filter step (each step's output is its input minus what it reports as dropped, plus what it adds)
    for s in res['steps']:
        for b, a, dr, ad in zip(s['before'], s['after'], s['dropped'], s['added']):
            if len(dr) < 400 and b - len(dr) + len(ad) != a:
                chk.violation('%s:step:%s' % (label, s['step']), 'filter step %s: %d in, %d out, %d dropped, %d added' % (s['step'], b, a, len(dr), len(ad)), s)
    return len(iz), len(ez), len(rz)


def truncation_noted(res):
    """zones that carry a truncation note of their own, or use a policy that carries one"""
    return {z for z, rs in res['notable_zones'].items() if any('truncat' in r for r in rs)} | \
           {z for z, pols in res.get('emitted_zone_policies', {}).items() for p in pols
            if any('truncat' in r for r in res['notable_policies'].get(p, []))}


def excused_from_source(res):
    """zones whose documented notes allow them to differ from the *untruncated* source: a note of their own (the transformer
    attaches STDOFF, UNTIL, fixed-RULES and -- for every zone using the policy -- rule AT-time truncations to the zone), or a
    policy whose SAVE was truncated (recorded at the policy only). A policy-level AT note alone does not excuse a zone."""
    return {z for z, rs in res['notable_zones'].items() if any('truncat' in r for r in rs)} | \
           {z for z, pols in res.get('emitted_zone_policies', {}).items() for p in pols
            if any('truncat' in r and not r.startswith('AT time') for r in res['notable_policies'].get(p, []))}


def judge_both(chk, label, lines, scope, res, pieces, work, start, until):
    """zones without a truncation note against the source as written; zones with one against the source with the documented
    truncations applied (compiler.truncate_lines) -- altered as documented and no further"""
    r, n, bad = compiler.judge(chk, label, lines, res['emitted_zones'], pieces, work, start, until, excused_from_source(res))
    st, tr = r.distinct, r.generated
    noted = sorted(z for z in truncation_noted(res) if z in pieces and z in res['emitted_zones'])
    if noted:
        r2, n2, bad2 = compiler.judge(chk, label, compiler.truncate_lines(lines, scope), noted, pieces, work, start, until, (), variant=':as-truncated')
        st += r2.distinct
        tr += r2.generated
        bad += bad2
    return st, tr, n, bad


def check_source(chk, name, lines, tier, start=2000, until=2050, scan_grid=300):
    work = common.scratch('C03-' + name)
    progs = 0
    disagreements = 0
    st = tr = 0
    out_dirs = {}
    results = {}
    for scope in ('extended', 'basic'):
        res, out, err = compiler.run_compiler(lines, work, scope, start, until)
        if res is None:
            if name.startswith(('gen', 'mut')):      # (not the fixed sources: release, recorded lines, edge)
                # "for any source the compiler accepts": a generated source the compiler refuses (loudly) is not accepted
                chk.notes.append('generated source %s not accepted by the compiler (%s): %s' % (name, scope, err[1].strip().splitlines()[-1][:160]))
            else:
                chk.violation('%s:%s:compiler-crash' % (name, scope), 'the compiler failed on source %s (%s): %s' % (name, scope, err), {'source': name, 'stderr': err[1]})
            continue
        results[scope] = res
        out_dirs[scope] = out
        label = '%s:%s' % (name, scope)
        accounting(chk, label, res)
        # python target: ZoneSpecifier over the emitted tables
        pieces = {z: compiler.to_pieces(v['14-1-1']) for z, v in res['pieces'].items()}
        s_, t_, n, bad = judge_both(chk, label + ':python', lines, scope, res, pieces, work, start, until)
        st += s_
        tr += t_
        progs += 1
        disagreements += n
    # arduino target: the generated C++ tables compiled into the sweep driver and read by the real processors
    if 'basic' in out_dirs and 'extended' in out_dirs:
        exes, err = compiler.build_tools_for(os.path.join(out_dirs['basic'], 'arduino'), os.path.join(out_dirs['extended'], 'arduino'), 'tools-' + name)
        exe = exes['tzscan'] if exes else None
        if exe is None:
            chk.violation('%s:arduino:does-not-compile' % name, 'generated C++ tables do not compile: %s' % err[-1500:], {'source': name})
        else:
            lo, hi = compiler.year_day(start) * 86400, compiler.year_day(until) * 86400
            for scope, db in (('extended', 'extended'), ('basic', 'basic')):
                res = results[scope]
                znames = tzconf.list_zones(exe, db)
                if sorted(znames) != sorted(res['emitted_zones']):
                    chk.violation('%s:%s:arduino:registry' % (name, scope), 'generated registry does not list exactly the emitted zones: %s' % sorted(set(znames) ^ set(res['emitted_zones']))[:8], {})
                impl, crashes = tzconf.scan_db(exe, db, len(znames), scan_grid, 0, chunk=8, t0=lo, t1=hi)
                for c in crashes:
                    chk.violation('%s:%s:arduino:crash' % (name, scope), 'processor crashed on generated tables (zones %s): %s' % (c[1], c[3][1][-500:]), {})
                pieces = {z: rec['pieces'] for z, rec in impl.items()}
                s_, t_, n, bad = judge_both(chk, '%s:%s:arduino' % (name, scope), lines, scope, res, pieces, work, start, until)
                st += s_
                tr += t_
                progs += 1
                disagreements += n
                # the processors reading the generated tables still follow their algorithm-level specifications
                # (ExtProc.tla / BasicProc.tla): table for table, every year 1999..2050
                from .. import extproc
                d = extproc.dump_tables(exes['dbdump'], scope)
                obs = extproc.impl_tables(exes['pairdrv'], len(d['zones']), start - 1, until, mode=extproc.SPECS[scope][1])
                r3, _b, _p = extproc.check_tables(chk, '%s:%s:arduino' % (name, scope), d, obs, None, work, y0=start, y1=until - 1, ylast=until, scope=scope, invariants=[])
                st += r3.distinct
                tr += r3.generated
    return progs, disagreements, st, tr, results


def run(tier):
    chk = common.Check('C03', tier, LEVEL)
    rnd = random.Random(common.seed() * 1000003 + 29)
    sources = [('tz2025b', compiler.lines_2025b()), ('shipped-zonedbx', compiler.lines_shipped('zonedbx'))]
    ngen = 3 if tier == 'quick' else 12
    for k in range(ngen):
        # (the last generated source also has eras that end on the day of one of their rule transitions at a time given in
        #  another time frame, between the wall and the universal reading of the transition)
        sources.append(('gen%02d' % k, compiler.gen_source(rnd, 40 if tier == 'quick' else 120, near_until=(k == ngen - 1))))
    sources.append(('edge', compiler.edge_source()))
    base = compiler.lines_shipped('zonedbx')
    for k in range(1 if tier == 'quick' else 4):
        m, done = compiler.mutate_source(rnd, base, 25)
        sources.append(('mut%02d' % k, m))
    progs = dis = st = tr = 0
    nsrc = 0
    for name, lines in sources:
        # a source zic itself rejects is not a TZ-database source
        import tempfile
        d = common.scratch('C03-zic-' + name)
        from .. import zicoracle
        _o, rc, msg = zicoracle.zic_compile(lines, d)
        if rc != 0:
            chk.notes.append('source %s skipped: zic rejects it (%s)' % (name, msg.strip()[:120]))
            continue
        nsrc += 1
        p, dgs, s, t, results = check_source(chk, name, lines, tier)
        progs += p
        dis += dgs
        st += s
        tr += t
        if name in ('tz2025b', 'gen00'):
            r = results.get('extended')
            if r:
                chk.sample({'source': name, 'scope': 'extended', 'input_zones': len(r['input_zones']), 'emitted': len(r['emitted_zones']),
                            'removed': len(r['removed_zones']), 'example_removed': list(r['removed_zones'].items())[:2]})
    chk.add(programs=progs, disagreements_checked=dis, sources=nsrc, states=st, transitions=tr,
            rule='sources: the vendored 2025b release, the source recorded in the shipped zonedbx tables, %d generated sources over the documented grammar, seeded single-field mutations; each x scope {basic, extended} x target {python (ZoneSpecifier), arduino (generated C++ compiled and read by the real processors)}; one "program" = one source x scope x target, one "disagreement checked" = one emitted zone whose run-length trace over [2000, 2050) TLC judged against TzSem.tla on the input lines' % ngen)
    chk.assume('zic (glibc 2.36) validates TzSem.tla on every source; zones carrying a truncation note are judged against the source with the documented truncations applied (vf/compiler.py truncate_lines), all others against the source as written')
    return chk.finish()
