"""C13 -- SystemClock keeps exact time from millis(), across counter wrap-around."""
import json
import os
import random
from .. import common, clocks

LEVEL = 'model_checking'


def run(tier):
    chk = common.Check('C13', tier, LEVEL)
    work = common.scratch('C13')
    exe = common.build_binary('clockdrv', ['clockdrv.cpp'], 'san')
    fast = common.build_binary('clockdrv', ['clockdrv.cpp'], 'opt')
    st = tr = 0
    # 1. the design, exhaustively on scaled constants (every phase x every gap x histories to the depth bound)
    scaled = [('scaled', 32, 5, list(range(1, 28)) + [28, 32, 33], 4 if tier == 'quick' else 5),
              ('scaled2', 16, 3, list(range(1, 14)) + [14, 16, 17], 5 if tier == 'quick' else 6)]
    for name, W, S, gaps, depth in scaled:
        cfg = os.path.join(work, 'SystemClock_%s.cfg' % name)
        clocks.sc_cfg(cfg, W, S, gaps, depth, False, list(range(W)), [100, 101])
        r = common.run_tlc('SystemClock', cfg, timeout=2400)
        common.tlc_must_pass(r, 'SystemClock %s' % name)
        st += r.distinct
        tr += r.generated
    # 2. the known finding: with re-setting to the stale stored value allowed, TLC refutes ExactTime
    cfg = os.path.join(work, 'SystemClock_stale.cfg')
    clocks.sc_cfg(cfg, 32, 5, list(range(1, 28)) + [28, 32, 33], 4, True, list(range(32)), [100, 101])
    r = common.run_tlc('SystemClock', cfg, timeout=600)
    if 'ExactTime' not in r.violated:
        raise common.MachineryError('TLC does not refute ExactTime when stale re-setting is allowed (violated=%s)' % r.violated)
    chk.add(stale_resync_model_refutes=['ExactTime'])
    # ... and the same history in the real class
    scripts = []
    hist = []
    for phase, gap in [(100, 1500), (0, 999), (65000, 1001), (999, 2500)]:
        scripts.append(('S @ID@ 0 %d' % phase, ['T 5000', 'A %d' % gap, 'T 5000', 'G']))
        hist.append((phase, gap))
    res, crashes = clocks.run_driver(exe, 'sc', scripts)
    for (phase, gap), steps in zip(hist, res):
        reading = steps[-1][6]
        if reading != 5000:
            chk.violation('systemclock:resync-to-stored-seconds:setNow(T)@m0;setNow(T)@m1;getNow',
                          'setNow(5000) at counter %d, setNow(5000) again %d ms later without a reading in between, getNow() at once returns %s instead of 5000' % (phase, gap, reading),
                          {'phase': phase, 'ops': ['T 5000', 'A %d' % gap, 'T 5000', 'G']})
    # 3. real constants, boundary sets: every model transition replayed in the real class
    phases = [0, 999, 1000, 64535, 64536, 65535]
    cfg = os.path.join(work, 'SystemClock_real.cfg')
    clocks.sc_cfg(cfg, 65536, 1000, [1, 999, 1000, 1001, 64535, 64536, 64537, 65536], 4 if tier == 'quick' else 5, False, phases, [0, 5000, 5001, 70536], dump=True)      # (the last value is 2^16 seconds after another one)
    r = common.run_tlc('SystemClock', cfg, workers=1, timeout=2400)
    common.tlc_must_pass(r, 'SystemClock real constants')
    edges = [e for e in common.tlc_prints(r.out) if isinstance(e, dict) and 'op' in e]
    if len(edges) + len(phases) != r.generated:
        raise common.MachineryError('SystemClock edge dump incomplete: %d edges vs %d generated' % (len(edges), r.generated))
    st += r.distinct
    tr += r.generated
    nscripts, nsteps = clocks.sc_replay_edges(chk, exe, edges, phases)
    # the same graph on a SystemClockLoop without reference clock, where the poll that does not read (K) is loop()
    a, b = clocks.sc_replay_edges(chk, exe, edges, phases, mode='scloop')
    nscripts += a
    nsteps += b
    # the same graph with the clock set through setup() (value taken from the backup clock) and through forceSync() (value
    # taken from a reference clock): both are documented to set the clock like setNow()
    # ... and through syncNow() itself, which loop() / runCoroutine() call when a response has arrived
    for via in ('U', 'F', 'Y'):
        a, b = clocks.sc_replay_edges(chk, exe, edges, phases, setvia=via)
        nscripts += a
        nsteps += b
    chk.sample({'model_edge': edges[len(edges) // 3]})
    # 4. native sweep of phase x gap pairs against the closed form T + gap div 1000
    if tier == 'quick':
        ranges = [(0, 16), (990, 1006), (32760, 32776), (65520, 65536)]
        jobs = [(a, b, 'all') for a, b in ranges] + [(i * 4096, (i + 1) * 4096, 'boundary') for i in range(16)]
    else:
        jobs = [(i * 512, (i + 1) * 512, 'all') for i in range(128)]

    def sweep(j):
        rc, out, err, _ = common.run_cmd([fast, 'sweep', str(j[0]), str(j[1]), j[2]], timeout=7000)
        return j, rc, [json.loads(l) for l in out.splitlines() if l.startswith('{')], err[-500:]
    npairs = 0
    for j, rc, recs, err in common.tmap(sweep, jobs):
        if rc != 0 or not recs or 'done' not in recs[-1]:
            chk.violation('systemclock:sweep-crash', 'sweep %s crashed rc=%s %s' % (j, rc, err), {})
            continue
        npairs += recs[-1]['n']
        for b in recs[:-1]:
            chk.violation('systemclock:sweep:phase-gap', 'set at counter phase %d, polled after %s ms (base %d): reads %d, expected %d' % (
                b['m0'], [b['gap'], b.get('gap2')], b['base'], b['got'], b['want']), b)
    # 5. seeded random multi-step schedules, validated as traces by TLC
    rnd = random.Random(common.seed() * 2654435761 % 2**32 + 11)
    traces = clocks.sc_random_traces(rnd, 200 if tier == 'quick' else 1500, 60)
    rt, ntr, acc = clocks.sc_validate_traces(chk, exe, traces, work, 'rnd')
    # the same schedules on a SystemClockLoop without reference clock (the non-reading poll is loop())
    rt2, ntr2, acc2 = clocks.sc_validate_traces(chk, exe, traces, work, 'rnd-loop', mode='scloop')
    ntr += ntr2
    acc += acc2
    st += rt.distinct
    tr += rt.generated
    chk.sample({'random_schedule_prefix': traces[0][1][:8], 'phase': traces[0][0]})
    chk.add(states=st, transitions=tr, traces_validated_against_impl=ntr + nscripts, model_edges_replayed=nscripts, replayed_steps=nsteps,
            random_schedules=ntr, random_schedules_accepted=acc, phase_gap_polls_swept=npairs, exhaustive=(tier == 'thorough'),
            rule='TLC exhaustive on scaled constants (W=32,S=5 / W=16,S=3: all phases x all gaps x all op sequences to the depth bound); real constants on boundary phases/gaps with every model transition replayed in the real class under counter bases straddling 2^16 and 2^32; native sweep of (phase, gap) single and double polls (%s); seeded random schedules validated by SystemClock_Trace' % ('all 65536 phases x all 64536 gaps' if tier == 'thorough' else '64 boundary phases x all gaps, all phases x 21 boundary gaps'))
    chk.assume('host unsigned long is 64-bit: the counter base 2^32-65536 exercises values above 2^32, not 32-bit wrap of the counter type itself (the code only uses the low 16 bits)')
    return chk.finish()
