"""C15 -- Printed forms are exact ISO-8601 and parse back to the same value."""
import json
import re
import os
from .. import common
from .C06 import tlc_table

LEVEL = 'model_checking'


def run(tier):
    chk = common.Check('C15', tier, LEVEL)
    work = common.scratch('C15')
    exe = common.build_binary('isodrv', ['isodrv.cpp'], 'san')
    daystep, secstep = (3, 7) if tier == 'quick' else (1, 1)
    cfg = os.path.join(work, 'MC_Iso8601.cfg')
    open(cfg, 'w').write("SPECIFICATION Spec\nCONSTANTS DayStep = %d\n SecStep = %d\n DumpOn = TRUE\nINVARIANT DateOK\nINVARIANT TimeOK\nINVARIANT OffsetOK\nINVARIANT ChainOK\nINVARIANT Dump\nCHECK_DEADLOCK FALSE\n" % (daystep, secstep))
    r, rows = tlc_table('MC_Iso8601', cfg, timeout=3000)
    spec = {}
    for row in rows:
        text = ''.join(chr(c) for c in row[-1])
        spec[tuple(row[:-1])] = text
    rc, out, err, _ = common.run_cmd([exe, 'tables', str(daystep), str(secstep)], env=common.san_env(), timeout=1800)
    if rc != 0:
        chk.violation('tables:crash', 'isodrv tables crashed: %s' % err[-800:], {'stderr': err[-2000:]})
        out = ''
    seen = set()
    for ln in out.splitlines():
        f = ln.split(' ')
        k = 1
        while k < len(f) - 1 and re.fullmatch(r'-?\d+', f[k]):
            k += 1
        f = f[:k] + [' '.join(f[k:])]      # (the printed text is the rest of the line: a placeholder contains a space)
        key = tuple([f[0]] + [int(x) for x in f[1:-1]])
        seen.add(key)
        want = spec.get(key)
        if want is None:
            chk.violation('tables:extra-row:%s' % f[0], 'code produced a row the specification does not have: %s' % ln, {})
        elif f[-1] != want:
            chk.violation('print:%s' % f[0], '%s prints as %r, the specification says %r' % (key, f[-1], want), {'value': key, 'code': f[-1], 'spec': want})
    if rc == 0 and seen != set(spec):
        chk.violation('tables:coverage', '%d specification rows were not produced by the code' % len(set(spec) - seen), {})
    rc, out, err, _ = common.run_cmd([exe, 'roundtrip', '1' if tier == 'thorough' else '2'], env=common.san_env(), timeout=3000)
    recs = [json.loads(l) for l in out.splitlines() if l.startswith('{')] if rc == 0 else []
    nrt = 0
    if rc != 0 or not recs or 'done' not in recs[-1]:
        chk.violation('roundtrip:crash', 'isodrv roundtrip crashed rc=%s: %s' % (rc, err[-1000:]), {'stderr': err[-2500:]})
    else:
        nrt = recs[-1]['n']
        for b in recs[:-1]:
            chk.violation('roundtrip:%s' % b['fail'], '%s: %r (a=%s b=%s)' % (b['fail'], b['text'], b['a'], b['b']), b)
    chk.add(states=r.distinct, transitions=r.generated, traces_validated_against_impl=len(seen), printed_forms_compared=len(seen), roundtrips=nrt,
            exhaustive=(tier == 'thorough'),
            rule='TLC: Parse(Print(x)) = x and exact shapes for dates (stride %d), seconds of a day (stride %d), all offsets -99:59..+99:59 and the chained form; every dumped text compared with the real printTo; native print->parse round trips of local/offset date-times over all days (stride %s) x times x offsets, zoned date-times of every zone, placeholders, every too-short prefix' % (daystep, secstep, '1' if tier == 'thorough' else '2'))
    chk.sample({'spec_rows': [list(k) + [v] for k, v in list(spec.items())[:2]] + [['offset', -30, spec[('offset', -30)]]]})
    return chk.finish()
