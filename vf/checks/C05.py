"""C05 -- Instant <-> zoned date-time round trip; conversions preserve the instant."""
import json
import os
from .. import common, tzconf
from .C06 import tlc_table

LEVEL = 'model_checking'


def run(tier):
    chk = common.Check('C05', tier, LEVEL)
    work = common.scratch('C05')
    exe = common.build_binary('convdrv', ['convdrv.cpp'], 'opt')
    scan = common.build_binary('tzscan', ['tzscan.cpp'], 'opt')
    step = 197 if tier == 'quick' else 29
    cfg = os.path.join(work, 'MC_Fields.cfg')
    open(cfg, 'w').write("SPECIFICATION Spec\nCONSTANTS DayStep = %d\n DumpOn = TRUE\nINVARIANT RoundTrip\nINVARIANT FieldsValid\nINVARIANT ConvertPreserves\nINVARIANT UnixOffset\nINVARIANT OrderIsInstantOrder\nINVARIANT Dump\nCHECK_DEADLOCK FALSE\n" % step)
    r, rows = tlc_table('MC_Fields', cfg, timeout=3000)
    spec = {(a, b, c): rest for a, b, c, *rest in rows}
    rc, out, err, _ = common.run_cmd([exe, 'rows', str(step)], timeout=900)
    if rc != 0:
        chk.violation('rows:crash', 'convdrv rows crashed: %s' % err[-600:], {})
        out = ''
    seen = 0
    for ln in out.splitlines():
        f = ln.split()
        k = (int(f[0]), int(f[1]), int(f[2]))
        if k not in spec:
            raise common.MachineryError('row %s not in the TLC table' % (k,))
        if f[3] == 'skip':
            continue
        seen += 1
        got = [int(x) for x in f[3:]]
        if got != spec[k]:
            chk.violation('manual:fields:off=%d' % k[2], 'OffsetDateTime::forEpochSeconds(day %d sec %d, offset %d min) has fields %s, the specification %s' % (k[0], k[1], k[2], got, spec[k]), {'day': k[0], 'sec': k[1], 'offset': k[2]})
    # manual offsets: sweep of the int32 instants
    stride = 257 if tier == 'quick' else 7
    n = common.NCPU * 2
    span = 2**32 // n
    jobs = [['manual', str(-2**31 + i * span), str(-2**31 + (i + 1) * span if i < n - 1 else 2**31), str(stride)] for i in range(n)]
    # database zones: every zone of both registries (direct and manager-created), conversions to sampled zones
    grid = 86400 * 5 + 3600 if tier == 'quick' else 86400 + 3600
    nconv = 2 if tier == 'quick' else 4
    for db in ('basic', 'extended'):
        nz = len(tzconf.list_zones(scan, db))
        ch = 8
        jobs += [['zones', db, str(i), str(min(i + ch, nz)), str(grid), str(nconv)] for i in range(0, nz, ch)]

    def one(args):
        rc_, out_, err_, _ = common.run_cmd([exe] + args, timeout=7000)
        return args, rc_, [json.loads(l) for l in out_.splitlines() if l.startswith('{')], err_[-500:]
    nops = 0
    for args, rc_, recs, err_ in common.tmap(one, jobs):
        if rc_ != 0 or not recs or 'done' not in recs[-1]:
            chk.violation('%s:crash' % args[0], 'convdrv %s crashed rc=%s: %s' % (args, rc_, err_), {'args': args})
            continue
        nops += recs[-1]['nops']
        for b in recs[:-1]:
            chk.violation('%s:%s' % (args[0] if args[0] == 'manual' else args[1], b['fail']), '%s at t=%d (a=%s b=%s) [%s]' % (b['fail'], b['t'], b['a'], b['b'], ' '.join(args[:4])), dict(b, args=args))
    chk.add(states=r.distinct, transitions=r.generated, traces_validated_against_impl=seen, spec_rows_compared=seen, native_operations=nops,
            exhaustive=False, rule='TLC: round trip, valid fields, conversion between offsets, Unix offset = 10957 days, order = instant order for every %dth day of the int32 range x 6 seconds x 11 offsets, each dumped row compared with the real OffsetDateTime; native sweep of all int32 instants at stride %d (+ every day boundary) x 11 offsets; every zone of both registries, direct and manager-created, on a %d s grid plus +-2 h at 10 min around every transition: round trip, Unix variants, conversion to %d other zones, compareTo incl. across fall-backs' % (step, stride, grid, nconv))
    chk.sample({'tlc_rows': rows[:2], 'meaning': '[day, sec, offset minutes, y, m, d, h, mi, s]'})
    chk.assume("'in the zone's supported range' = the shifted instant and the Unix value are representable in int32 and the year lies in the zone data; outside it the behaviour belongs to C09")
    return chk.finish()
