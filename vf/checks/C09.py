"""C09 -- Total error handling and memory safety; transition buffers never overflow."""
import json
import os
import re
from .. import common, zoneproc, tzconf, compiler
from . import C08

LEVEL = 'model_checking'


def ubsan_sites(stderr):
    sites = set()
    for m in re.finditer(r'(\S+):(\d+):\d+: runtime error: ([^\n]*)\n\s+#0 \S+ in ([^\n]*?) /', stderr):
        f = os.path.basename(m.group(1))
        fn = re.sub(r'\(.*', '', m.group(4)).replace('ace_time::', '')
        kind = m.group(3).split(':')[0]
        kind = re.sub(r' \(aka [^)]*\)', '', re.sub(r'index -?\d+', 'index N', kind))     # the first offending index is incidental
        sites.add(('%s:%s:%s' % (f, fn, kind), m.group(3)[:160], '%s:%s' % (m.group(1), m.group(2))))
    # every AddressSanitizer report: identified by its kind and the first frame that has a source position (frame #0 is often
    # an interceptor such as strlen, which has none)
    for blk in re.split(r'(?=ERROR: AddressSanitizer: )', stderr)[1:]:
        kind = re.match(r'ERROR: AddressSanitizer: (\S+)', blk).group(1)
        body = blk.split('SUMMARY:')[0]
        fr = re.search(r'#\d+ \S+ in ([^\n]*?) (/[^\s:()]+):(\d+)', body)
        if fr:
            sites.add(('%s:%s:asan-%s' % (os.path.basename(fr.group(2)), re.sub(r'\(.*', '', fr.group(1)).replace('ace_time::', ''), kind), kind, '%s:%s' % (fr.group(2), fr.group(3))))
        else:
            sites.add(('unknown:asan-%s' % kind, kind, 'no source frame'))
    return sites


def run(tier):
    chk = common.Check('C09', tier, LEVEL)
    work = common.scratch('C09')
    # (i) totality / repeated errors: ZoneProc (NoNullDeref, ErrorsRepeat) with the sentinel as an argument class,
    #     every model transition replayed in the ASan+UBSan build
    hist = common.build_binary('histdrv', ['histdrv.cpp'], 'san')
    years = [2005, 1990, 2060, zoneproc.SENTINEL_YEAR]
    out = [1990, 2060, zoneproc.SENTINEL_YEAR]
    zidx = {k: C08.zone_index(k) for k in ('basic', 'extended')}
    st = tr = nscripts = nsteps = 0
    for tag, nd, k in [('D1', 1, 0), ('M1', 0, 1)] + ([('M2', 0, 2)] if tier == 'thorough' else []):
        res, edges = zoneproc.model_edges(nd, k, work, tag, years=years, out=out)
        st += res.distinct
        tr += res.generated
        for kind in ('extended', 'basic'):
            a, b = zoneproc.replay_edges(chk, hist, kind, nd, k, edges, zidx[kind], tag)
            nscripts += a
            nsteps += b
        chk.sample({'config': tag, 'model_edge_out_of_range': next(e for e in edges if e['call']['year'] == zoneproc.SENTINEL_YEAR and e['call']['op'] == 'delta')['call']})
    # (ii) undefined behaviour / out-of-bounds: sanitizers as monitors over the value types
    vs = common.build_binary('valsweep', ['valsweep.cpp'], 'sanrec')
    env = common.san_env()
    env['UBSAN_OPTIONS'] = 'print_stacktrace=1:halt_on_error=0'
    stride = 9973 if tier == 'quick' else 997
    n = common.NCPU
    span = 2**32 // n
    env['ASAN_OPTIONS'] = env['ASAN_OPTIONS'] + ':halt_on_error=0'      # every site is reported, the sweep goes on
    jobs = [['instants', str(-2**31 + i * span), str(-2**31 + (i + 1) * span if i < n - 1 else 2**31), str(stride)] for i in range(n)] + [['components'], ['anyarg', 'valid'], ['anyarg', 'invalid'], ['lookups']]

    def vrun(args):
        rc, out_, err, _ = common.run_cmd([vs] + args, env=env, timeout=7000)
        return args, rc, out_, err
    nops = 0
    sites = {}
    for args, rc, out_, err in common.tmap(vrun, jobs):
        recs = [json.loads(l) for l in out_.splitlines() if l.startswith('{')]
        if rc != 0 or not recs or 'done' not in recs[-1]:
            chk.violation('valsweep:crash:%s' % args[0], 'value-type sweep %s crashed rc=%s: %s' % (args, rc, err[-1200:]), {'args': args, 'stderr': err[-3000:]})
            continue
        nops += recs[-1]['nops']
        for f in recs[:-1]:
            chk.violation('semantic:%s' % f['fail'], 'value-type operation: %s (a=%s b=%s c=%s)' % (f['fail'], f['a'], f['b'], f['c']), f)
        for key, msg, where in ubsan_sites(err):
            if args == ['anyarg', 'valid'] and 'signed integer overflow' not in key:
                key = 'valid-components:' + key        # the input class is part of a finding's identity
            sites.setdefault(key, (msg, where, args))
    for key, (msg, where, args) in sorted(sites.items()):
        chk.violation('ubsan:' + key, 'undefined behaviour at %s: %s (first seen in sweep %s)' % (where, msg, args), {'site': where, 'message': msg, 'sweep': args})
    # zone processors under the sanitizers: coarse sweeps of every zone and wall-clock windows
    zs = common.build_binary('tzscan', ['tzscan.cpp'], 'san')
    grid = 86400 + 60 if tier == 'quick' else 3600 + 60
    nobs = 0
    for db, nz in (('extended', len(zidx['extended'])), ('basic', len(zidx['basic']))):
        impl, crashes = tzconf.scan_db(zs, db, nz, grid, 5, chunk=10)
        for c in crashes:
            ss = ubsan_sites(c[3][1])
            chk.violation('%s:sanitizer-sweep:%s' % (db, ';'.join(sorted(s[0] for s in ss)) or 'crash'), 'sweep of zones %s under ASan/UBSan stopped rc=%s: %s' % (c[1], c[2], c[3][1][-600:]), {'range': c[1]})
        nobs += sum(r['nprobe'] for r in impl.values())
    # (iii) buffers: every zone x every year 1999..2050
    opt = common.build_binary('tzscan', ['tzscan.cpp'], 'opt')
    nzx = len(zidx['extended'])

    def bufs(rng):
        rc, out_, err, _ = common.run_cmd([opt, 'bufs', 'extended', str(rng[0]), str(rng[1])], timeout=3000)
        return rng, rc, [json.loads(l) for l in out_.splitlines() if l.startswith('{')], err[-800:]
    uniq = {}
    nzy = 0
    maxhw = 0
    for rng, rc, recs, err in common.tmap(bufs, [(i, min(i + 25, nzx)) for i in range(0, nzx, 25)]):
        if rc != 0:
            chk.violation('zonedbx:bufs-crash:%d-%d' % rng, 'buffer sweep crashed rc=%s %s' % (rc, err), {})
            continue
        for r in recs:
            if not r['hookH2']:
                raise common.MachineryError('hook H2 is not compiled in')
            for (y, hw, maxfree, iserr), trace in zip(r['years'], r['traces']):
                nzy += 1
                maxhw = max(maxhw, hw)
                if hw >= r['bufSize'] or hw >= 8:
                    chk.violation('zonedbx:%s:%d:high-water' % (r['zone'], y), 'transition pool high-water mark %d is not below the recorded size %d / capacity 8' % (hw, r['bufSize']), {'zone': r['zone'], 'year': y})
                uniq.setdefault(json.dumps(trace), (r['zone'], y))
    # design level: TLC on TransitionPool.tla; then the recorded event sequences as traces
    r1 = common.run_tlc('TransitionPool', 'TransitionPool.cfg', timeout=900)
    common.tlc_must_pass(r1, 'TransitionPool (SafeBelowCapacity)')
    r2 = common.run_tlc('TransitionPool', 'TransitionPool_unsafe.cfg', timeout=900)
    if 'AlwaysInBounds' not in r2.violated:
        raise common.MachineryError('TLC no longer shows that the pool design needs the capacity bound')
    traces = [{'ev': json.loads(k), 'zone': v[0], 'year': v[1]} for k, v in uniq.items()]
    tp = os.path.join(work, 'pool_traces.json')
    json.dump(traces, open(tp, 'w'))
    r3 = common.run_tlc('TransitionPool_Trace', 'TransitionPool_Trace.cfg', env={'POOL_TRACES': tp}, workers=1, timeout=900)
    common.tlc_must_pass(r3, 'TransitionPool_Trace')
    verdicts = [v for v in common.tlc_prints(r3.out) if isinstance(v, dict) and 'pool_verdicts' in v]
    if not verdicts or len(verdicts[0]['pool_verdicts']) != len(traces):
        raise common.MachineryError('TransitionPool_Trace produced no verdicts')
    acc = 0
    for t, v in zip(traces, verdicts[0]['pool_verdicts']):
        if v == 0:
            acc += 1
        else:
            chk.violation('zonedbx:%s:%d:pool-protocol' % (t['zone'], t['year']), 'pool events of init() rejected by TransitionPool at event %d: %s' % (v, t['ev'][max(0, v - 3):v + 1]), t)
    # basic processor: never more than five cache slots (hook H1), every year of every zone
    bimpl, crashes = tzconf.scan_db(opt, 'basic', len(zidx['basic']), 14 * 86400, 0, chunk=20)
    for n_, rec in bimpl.items():
        if not rec.get('hookH1'):
            raise common.MachineryError('hook H1 is not compiled in')
        if rec['dropped']:
            chk.violation('zonedb:%s:cache-overflow' % n_, 'BasicZoneProcessor needed more than 5 cache slots (%d transitions dropped)' % rec['dropped'], {'zone': n_})
    # (iv) compiler-generated zones: the sizes BufSizeEstimator writes into freshly generated tables against the high-water
    #      marks of the real processors reading those tables (every year the processors accept: 1999..2050), the basic cache
    #      bound on the generated basic tables, and the same bounds as invariants of ExtProc.tla / BasicProc.tla bound to them
    import random
    from .. import extproc
    rnd = random.Random(common.seed() * 7919 + 3)
    # (source, start_year, until_year): the compiler is also run with a start year other than the shipped 2000 -- the processors
    # accept start_year - 1, whose window reaches back into start_year - 2
    gsrc = [('shipped-zonedbx', compiler.lines_shipped('zonedbx'), 2000, 2050), ('gen', compiler.gen_source(rnd, 40 if tier == 'quick' else 160), 2000, 2050),
            ('tz2025b-from-2003', compiler.lines_2025b(), 2003, 2030)]
    if tier == 'thorough':
        gsrc += [('tz2025b', compiler.lines_2025b(), 2000, 2050), ('tz2025b-from-2011', compiler.lines_2025b(), 2011, 2038), ('tz2025b-1990-2020', compiler.lines_2025b(), 1990, 2020)]
    gzy = 0
    gzones = 0
    for gname, lines, gy0, gy1 in gsrc:
        gw = os.path.join(work, 'gen-' + gname)
        os.makedirs(gw, exist_ok=True)
        outs = {}
        for scope in ('extended', 'basic'):
            res, out, err = compiler.run_compiler(lines, gw, scope, start=gy0, until=gy1, flags=('arduino',))
            if res is None:
                if gname == 'gen' or (gy0, gy1) != (2000, 2050):
                    # (a generated source or an unusual year range the compiler itself refuses, loudly, is not a table to check)
                    chk.notes.append('source %s [%d, %d) not accepted by the compiler (%s): %s' % (gname, gy0, gy1, scope, (err[1] or '').strip().splitlines()[-1][:120] if err and err[1] else err))
                else:
                    chk.violation('generated:%s:%s:compiler-crash' % (gname, scope), 'the compiler failed on source %s (%s): %s' % (gname, scope, err), {'source': gname})
            else:
                outs[scope] = (res, out)
        if len(outs) != 2:
            continue
        exes, err = compiler.build_tools_for(os.path.join(outs['basic'][1], 'arduino'), os.path.join(outs['extended'][1], 'arduino'), 'c09-' + gname)
        if exes is None:
            chk.violation('generated:%s:does-not-compile' % gname, 'generated C++ tables do not compile: %s' % err[-1500:], {'source': gname})
            continue
        for scope, invs in (('extended', ['NoOverflow', 'WithinRecordedSize', 'Covered']), ('basic', ['FitsCache'])):
            d = extproc.dump_tables(exes['dbdump'], scope)
            obs = extproc.impl_tables(exes['pairdrv'], len(d['zones']), gy0 - 1, gy1, mode=extproc.SPECS[scope][1])
            if sorted(obs) != sorted(outs[scope][0]['emitted_zones']):
                chk.violation('generated:%s:%s:zones-missing' % (gname, scope), 'generated registry lists %d zones, the compiler emitted %d' % (len(obs), len(outs[scope][0]['emitted_zones'])), {})
            gzones += len(obs)
            if scope == 'extended':
                size = {z['name']: z['bufSize'] for z in d['zones']}
                for zn, years in sorted(obs.items()):
                    gzy += len(years)
                    yw, worst = max(years.items(), key=lambda kv: kv[1]['hw'])
                    if worst['hw'] >= size[zn] or worst['hw'] >= 8:
                        chk.violation('generated:%s:%s:high-water' % (gname, zn), 'generated table for %s records transitionBufSize %d but the extended processor reaches a high-water mark of %d in %s (capacity 8)' % (zn, size[zn], worst['hw'], yw), {'zone': zn, 'year': int(yw), 'source': gname})
            else:
                for zn, years in sorted(obs.items()):
                    gzy += len(years)
                    dr = [(y, v['dropped']) for y, v in years.items() if v['dropped']]
                    if dr:
                        chk.violation('generated:%s:%s:cache-overflow' % (gname, zn), 'BasicZoneProcessor needed more than 5 cache slots on the generated table (%s)' % dr[:3], {'zone': zn})
            extproc.check_tables(chk, 'generated:' + gname, d, obs, None, gw, y0=gy0, y1=gy1 - 1, ylast=gy1, scope=scope, invariants=invs)
            # every accepted year answers (no error value, no crash) at its first and a middle instant
            if scope == 'extended':
                bad_years = [(zn, y) for zn, years in sorted(obs.items()) for y, v in sorted(years.items()) if v['filled'] and not v['rows']]
                for zn, y in bad_years[:6]:
                    chk.violation('generated:%s:%s:%s:no-transition' % (gname, zn, y), 'generated tables (start year %d): ExtendedZoneProcessor::init(%s) of %s succeeds but holds no transition: every query of that accepted year is an error or dereferences a null transition' % (gy0, y, zn), {'zone': zn, 'year': y})
    chk.sample({'pool_trace': traces[len(traces) // 2]})
    chk.add(states=st + r1.distinct + r3.distinct, transitions=tr + r1.generated + r3.generated,
            traces_validated_against_impl=nscripts + len(traces), model_edges_replayed=nscripts, replayed_calls=nsteps,
            value_type_operations_under_sanitizers=nops, zone_observations_under_sanitizers=nobs, ub_sites_seen=len(sites),
            zone_years_buffer_checked=nzy, max_high_water=maxhw, distinct_pool_event_traces=len(traces), pool_traces_accepted=acc,
            basic_zones_cache_checked=len(bimpl), generated_zone_years_buffer_checked=gzy, generated_zones_checked=gzones,
            rule='(i) every transition of ZoneProc (arguments valid / below / above range / the sentinel) replayed under ASan+UBSan; (ii) value-type operations swept over int32 (stride %d + boundaries) and boundary component tuples / strings and every accessor on ANY component values (error values included, no precondition) in an ASan+UBSan-recover build, every distinct UB / out-of-bounds site reported; zone processors swept under sanitizers at %d s; (iii) high-water mark and pool event protocol (hook H2) of every zonedbx zone x year 1999..2050 against TransitionPool.tla, basic cache drops (hook H1); (iv) the same high-water / cache bounds, years 1999..2050, on tables freshly generated by the real compiler (BufSizeEstimator sizes) from the shipped source and a generated source' % (stride, grid) + (' and tzdata 2025b' if tier == 'thorough' else '') + ', read from the real processors and as invariants NoOverflow / WithinRecordedSize / FitsCache of ExtProc.tla / BasicProc.tla bound to those processors')
    chk.assume('undefined behaviour and out-of-bounds accesses are decided by ASan/UBSan on the executions the models and sweeps generate, not by TLC')
    return chk.finish()
