"""C14 -- SystemClockLoop sync: applies good responses, backs off, never corrupts time."""
import os
import random
from .. import common, clocks

LEVEL = 'model_checking'


def run(tier):
    chk = common.Check('C14', tier, LEVEL)
    work = common.scratch('C14')
    exe = common.build_binary('clockdrv', ['clockdrv.cpp'], 'san')
    exe32 = clocks.build_clockdrv32()
    # (sync, initial, timeout, steps, horizon for the exhaustive run, horizon for the replayed graph)
    confs = [(4, 1, 1000, [500, 1000, 2500], 16000, 7000),
             (8, 3, 500, [250, 1000, 3500], 24000, 6000),
             (4, 5, 1000, [500, 1000, 2500], 20000, 7000),
             (8, 1, 1000, [500, 1500, 4000], 26000, 8000),
             # loop() not called for more than 65.536 s while a request is outstanding / between syncs
             (8, 2, 6000, [5000, 66000], 110000, 81000),
             # a sync period above 2^15 s with a long initial period: the doubling of the retry period must saturate at the
             # sync period (uint16 arithmetic in the code), hours between calls
             (50000, 30000, 1000, [30000000, 31000000], 400000000, 250000000)]
    if tier == 'thorough':
        # (the first four lattices grow about fivefold per 25 % of horizon; the long-period configurations are coarse lattices)
        confs = [(a, b, c, d, int(e * 1.25), f) if max(d) < 60000 else (a, b, c, d, e, f) for a, b, c, d, e, f in confs]      # (replayed graphs keep their size: one script per edge)
        confs += [(3600, 5, 6000, [5000, 600000], 2500000, 130000), (2, 1, 250, [100, 300, 1000], 7000, 2500), (16, 2, 2000, [1000, 7000], 60000, 30000)]
    st = tr = nscripts = nsteps = 0
    for ci, (sync, initial, timeout, steps, tmax, treplay) in enumerate(confs):
        for mode in ('distinct', 'same', 'none'):
            if mode == 'none' and max(steps) * 10 >= 65536:
                continue      # without a reference clock only the keep-alive bound matters: covered by the other configurations
            # the application may set the clock before the first loop() call (every other configuration; always when there
            # is no reference clock, where an unset clock has nothing to keep). Without a reference clock the time between
            # loop() calls is stretched (still far below the 65.535 s the 16-bit bookkeeping allows) so that schedules
            # run past one wrap of the 16-bit millisecond counter.
            preset = (5000 + ci) if mode == 'none' else (100 if ci % 2 == 1 else None)
            if mode == 'none':
                steps_m, tmax_m, treplay_m = [x * 10 for x in steps], max(tmax * 10, 200000), max(treplay * 10, 140000)
            else:
                steps_m, tmax_m, treplay_m = steps, tmax, treplay
            tag = 's%d-i%d-t%d-%s%s' % (sync, initial, timeout, mode, '' if preset is None else '-set%d' % preset)
            cfg = os.path.join(work, 'SCL_%s.cfg' % tag)
            extra_ref = (0,) if ci == 5 or (ci == 0 and mode == 'distinct') else ()      # the reference clock may also report 0, the AceTime epoch itself
            clocks.scl_cfg(cfg, sync, initial, timeout, steps_m, tmax_m, mode, preset=preset, extra_ref=extra_ref)
            r = common.run_tlc('SystemClockLoop', cfg, timeout=3000)
            common.tlc_must_pass(r, 'SystemClockLoop %s' % tag)
            st += r.distinct
            tr += r.generated
            # the same model to a shorter horizon, with every transition dumped and replayed in the real class
            cfg2 = os.path.join(work, 'SCL_%s_dump.cfg' % tag)
            clocks.scl_cfg(cfg2, sync, initial, timeout, steps_m, treplay_m, mode, dump=True, preset=preset, extra_ref=extra_ref)
            r2 = common.run_tlc('SystemClockLoop', cfg2, workers=1, timeout=3000)
            common.tlc_must_pass(r2, 'SystemClockLoop %s (dump)' % tag)
            edges = [e for e in common.tlc_prints(r2.out) if isinstance(e, dict) and 'ev' in e]
            # (transitions into states beyond the horizon are generated but not dumped: the state constraint is evaluated first)
            if not edges or len(edges) + 1 > r2.generated or len(edges) < r2.distinct - 1:
                raise common.MachineryError('SystemClockLoop edge dump inconsistent: %d edges, %d generated, %d distinct' % (len(edges), r2.generated, r2.distinct))
            evs = {e['ev'] for e in edges}
            if len(edges) > 300000:
                raise common.MachineryError('replay graph of %s has %d edges: horizon too large for one script per edge' % (tag, len(edges)))
            need = {'noref'} if mode == 'none' else {'send', 'valid', 'invalid', 'timeout', 'waiting', 'ok', 'wait'}
            if min(steps_m) >= timeout:
                need -= {'waiting'}       # every call comes after the request has timed out
            if not need <= evs:
                raise common.MachineryError('vacuous model run %s: events never taken: %s' % (tag, need - evs))
            if mode == 'none' and max(e['to']['now'] for e in edges) < 70000:
                raise common.MachineryError('vacuous model run %s: no schedule passes one wrap of the 16-bit millisecond counter' % tag)
            a, b = clocks.scl_replay_edges(chk, exe, edges, (sync, initial, timeout, mode), tag, preset=preset)
            nscripts += a
            nsteps += b
            # the same edges on the variant in which millis() is 32 bits wide, started shortly before it wraps
            if tier == 'thorough' or ci in (0, 4, 5):
                a, b = clocks.scl_replay_edges(chk, exe32, edges, (sync, initial, timeout, mode), tag + '-ul32', preset=preset, wrap32=True)
                nscripts += a
                nsteps += b
            if mode == 'none':
                # the same schedules with an application that reads the clock only after the last loop() call
                a, b = clocks.scl_replay_edges(chk, exe, edges, (sync, initial, timeout, mode), tag + '-quiet', preset=preset, quiet=True)
                nscripts += a
                nsteps += b
            if mode == 'distinct' and len(chk.cov['samples']) < 3:
                chk.sample({'config': tag, 'model_edge': next(e for e in edges if e['ev'] == 'valid')})
    chk.add(states=st, transitions=tr, traces_validated_against_impl=nscripts, model_edges_replayed=nscripts, replayed_loop_calls=nsteps,
            configurations=len(confs) * 3 - 2,
            rule='TLC exhaustive to the horizon for each (sync, initial, timeout) x {distinct, same, none}: ValidApplied, BackupLaw, NoCorrupt, Separation, BackoffLaw, BoundedResponse, RequestCount; every transition of the shorter-horizon graph replayed in a subclass of the real SystemClockLoop (injected clockMillis, recording reference/backup clocks) comparing FSM status, retry period, request/sync timestamps, clock state (read before getNow()), backup writes, requests sent, getNow() and getLastSyncTime(); the clock set by setNow() before the first call in every other configuration; without a reference clock: schedules up to 140 s (past one wrap of the 16-bit millisecond bookkeeping), also replayed with the clock read only after the last loop() call')
    chk.assume('time moves on a lattice of step sizes per configuration; loop() is called after every step (regular polling)')
    chk.assume('32-bit millis(): a second driver is compiled against copies of SystemClock.h / SystemClockLoop.h generated from the working tree with `unsigned long` replaced by uint32_t; every edge is replayed on it from bases just below 2^32')
    return chk.finish()
