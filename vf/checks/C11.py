"""C11 -- Zone ids are djb2(name), unique, shared by all databases, and stable."""
import hashlib
import json
import os
import re
from .. import common, compiler

LEVEL = 'model_checking'


def limbs(v):
    return [v >> 16, v & 0xFFFF]


def header_info(path):
    h = open(path).read()
    zones = re.findall(r'extern const \w+::ZoneInfo (kZone\w+); // (\S+)', h)
    links = re.findall(r'extern const \w+::ZoneInfo& (kZone\w+); // (\S+) -> (\S+)', h)
    kids = re.findall(r'const uint32_t (kZoneId\w+) = (0x[0-9a-f]+); // (\S+)', h)
    return zones, links, kids


def run(tier):
    chk = common.Check('C11', tier, LEVEL)
    work = common.scratch('C11')
    names = []
    nidx = {}

    def nid(name):
        if name not in nidx:
            nidx[name] = len(names) + 1
            names.append({'text': name, 'codes': list(name.encode('latin-1'))})
        return nidx[name]
    dbs = []
    # ---- the shipped C++ databases through the real accessors
    dd = common.build_binary('dbdump', ['dbdump.cpp'], 'opt')
    gen = []
    info = {}
    for db, scope in (('zonedb', 'basic'), ('zonedbx', 'extended')):
        zones, links, kids = header_info(os.path.join(common.REPO, 'src/ace_time', db, 'zone_infos.h'))
        info[db] = (zones, links, kids)
        for sym, alias, target in links:
            gen.append('L%s(%s, "%s")' % ('B' if db == 'zonedb' else 'X', sym, alias))
        for sym, _v, name in kids:
            gen.append('K%s(%s, "%s")' % ('B' if db == 'zonedb' else 'X', sym, name))
    incdir = os.path.join(work, 'inc')
    os.makedirs(incdir)
    open(os.path.join(incdir, 'links_gen.inc'), 'w').write('\n'.join(gen) + '\n')
    hh = hashlib.sha256('\n'.join(gen).encode()).hexdigest()[:16]
    ld = common.build_binary('linkdump', ['linkdump.cpp'], 'opt', extra_flags=['-I' + incdir, '-DGENHASH_%s' % hh])
    rc, out, err, _ = common.run_cmd([ld], timeout=300)
    if rc != 0:
        raise common.MachineryError('linkdump failed: %s' % err[-500:])
    resolved = json.loads(out)
    for db, scope in (('zonedb', 'basic'), ('zonedbx', 'extended')):
        rc, out, err, _ = common.run_cmd([dd, scope], timeout=300)
        if rc != 0:
            chk.violation('%s:dump-crash' % db, 'dbdump crashed: %s' % err[-500:], {})
            continue
        d = json.loads(out)
        zones, links, kids = info[db]
        ids = []
        for z in d['zones']:
            n = nid(z['name'])
            ids.append({'n': n, 'id': limbs(z['zoneId'])})
            for other in ('tzId', 'mgrId'):
                if z[other] != z['zoneId']:
                    chk.violation('%s:%s:%s' % (db, z['name'], other), 'TimeZone::getZoneId() (%s) = %#x differs from the zone\'s id %#x' % (other, z[other], z['zoneId']), {'zone': z['name']})
            if z['printTo'] != z['name']:
                chk.violation('%s:%s:name' % (db, z['name']), 'time zone prints %r' % z['printTo'], {})
        kc = [{'n': nid(r['kconst']), 'id': limbs(r['id'])} for r in resolved if r['db'] == db and 'kconst' in r]
        lk = [{'alias': nid(r['alias']), 'target': nid(next(t for s, a, t in links if a == r['alias'])), 'resolves': nid(r['resolves'])}
              for r in resolved if r['db'] == db and 'alias' in r]
        dbs.append({'label': db, 'ids': ids, 'registry': [nid(z['name']) for z in d['zones']], 'zones': [nid(nm) for _s, nm in zones], 'zoneset': 1, 'links': lk})
        dbs.append({'label': db + ':kZoneId-constants', 'ids': kc, 'registry': [], 'zones': [], 'zoneset': 0, 'links': []})
        if len(d['zones']) != d['registrySize']:
            chk.violation('%s:registry-size' % db, 'registry size constant %d but %d entries' % (d['registrySize'], len(d['zones'])), {})
    # ---- the Python database and hash_name probes (the real function)
    probes_txt = ['', 'a', 'A' * 64, 'Etc/GMT+1', 'Etc/GMT-1', '\x80\xff', 'America/Argentina/ComodRivadavia']
    drv = os.path.join(work, 'pyids.py')
    open(drv, 'w').write('''import json, sys
from tzdb.transformer import hash_name
from zonedbpy import zone_infos
names = sorted(zi['name'] for zi in zone_infos.ZONE_INFO_MAP.values())
probes = json.load(open(sys.argv[1]))
infos = {k: v for k, v in vars(zone_infos).items() if k.startswith('ZONE_INFO_') and k != 'ZONE_INFO_MAP' and isinstance(v, dict)}
listed = [id(v) for v in zone_infos.ZONE_INFO_MAP.values()]
print(json.dumps({'zonedbpy': {n: hash_name(n) for n in names}, 'keys': sorted(zone_infos.ZONE_INFO_MAP.keys()), 'probes': [hash_name(p) for p in probes],
                  'map': {k: v['name'] for k, v in zone_infos.ZONE_INFO_MAP.items()},
                  'times_listed': {v['name']: listed.count(id(v)) for v in infos.values()}}))
''')
    allnames_file = os.path.join(work, 'probes.json')
    # ---- freshly compiled sources
    fresh = {}
    # a source with two zone names whose djb2 hashes collide: the compiler must refuse it (or emit distinct ids)
    collide = ['Zone\tTest/Harbor_ab\t1:00\t-\tTST', 'Zone\tTest/Harbor_bA\t2:00\t-\tUST', 'Zone\tTest/Other\t3:00\t-\tVST']
    # zone names that differ only in '-' / '_' normalise to the same C++ identifier; a link to the one that is dropped must not survive
    similar = ['Zone\tTest/Port-Alpha\t1:00\t-\tTST', 'Zone\tTest/Port_Alpha\t2:00\t-\tUST', 'Zone\tTest/Other\t3:00\t-\tVST', 'Link\tTest/Port_Alpha\tTest/Harbour', 'Link\tTest/Other\tTest/Elsewhere']
    for sname, lines in (('tz2025b', compiler.lines_2025b()), ('shipped-zonedbx-lines', compiler.lines_shipped('zonedbx')), ('colliding-names', collide), ('similar-names', similar)):
        w = os.path.join(work, sname)
        os.makedirs(w)
        from .. import ziexpand, tzparse
        declared = tzparse.parse(lines)[2]
        warm = ()
        if sname == 'shipped-zonedbx-lines':
            # this source is compiled after a decoy of itself (same names, other contents, two more links) in the same process
            warm = ('warmdir:' + ziexpand.write_input_dir(compiler.decoy_source(lines), os.path.join(w, 'indir-decoy')),)
        for scope in ('basic', 'extended'):
            res, out, err = compiler.run_compiler(lines, w, scope, flags=('arduino', 'python') + warm)
            if res is None:
                if sname == 'colliding-names' and 'ollision' in err[1]:
                    chk.add(collision_refused=True)
                elif sname == 'similar-names':
                    chk.add(similar_names_refused=True)     # refused loudly (KeyError): nothing is emitted
                else:
                    chk.violation('%s:%s:compiler' % (sname, scope), 'compiler failed: %s' % (err,), {})
                continue
            # the generated Python tables: the record filed under a name is the record of that name, one per emitted zone
            rcp, op_, ep_, _ = common.run_cmd([common.PY, '-c', 'import sys, os, json, importlib; d = sys.argv[1]; open(os.path.join(d, "__init__.py"), "a").close(); sys.path.insert(0, os.path.dirname(d)); z = importlib.import_module(os.path.basename(d) + ".zone_infos"); print(json.dumps({k: v["name"] for k, v in z.ZONE_INFO_MAP.items()}))', os.path.join(out, 'python')], env=compiler.tool_env(), timeout=120)
            if rcp != 0:
                chk.violation('%s:%s:python-tables-do-not-load' % (sname, scope), 'generated Python tables do not import: %s' % ep_[-500:], {})
            else:
                pm_ = json.loads(op_)
                for k_, nme_ in sorted(pm_.items()):
                    if k_ != nme_:
                        chk.violation('%s:%s:python:%s:wrong-record' % (sname, scope, k_), 'ZONE_INFO_MAP[%r] of the generated Python tables holds the record of %r' % (k_, nme_), {'key': k_, 'record': nme_})
                if sorted(pm_) != sorted(res['emitted_zones']):
                    chk.violation('%s:%s:python:zone-set' % (sname, scope), 'generated ZONE_INFO_MAP has %d zones, the compiler emitted %d (only in one: %s)' % (len(pm_), len(res['emitted_zones']), sorted(set(pm_) ^ set(res['emitted_zones']))[:6]), {})
            zones, links, kids = header_info(os.path.join(out, 'arduino', 'zone_infos.h'))
            cpp = open(os.path.join(out, 'arduino', 'zone_infos.cpp')).read()
            zid = dict((m.group(1), int(m.group(2), 16)) for m in re.finditer(r'const \w+::ZoneInfo (kZone\w+) ACE_TIME_PROGMEM = \{\s*\w+ /\*name\*/,\s*(0x[0-9a-f]+) /\*zoneId\*/', cpp))
            reg = re.findall(r'&(kZone\w+), // (\S+)', open(os.path.join(out, 'arduino', 'zone_registry.cpp')).read())
            sym2name = {s: n for s, n in zones}
            ids = [{'n': nid(sym2name[s]), 'id': limbs(v)} for s, v in zid.items() if s in sym2name]
            label = '%s:%s' % (sname, scope)
            # resolve each alias through the generated C++: `const ZoneInfo& kZoneAlias = kZoneTarget;` -> the zone that symbol defines
            alias_sym = dict(re.findall(r'const \w+::ZoneInfo& (kZone\w+) = (kZone\w+);', cpp))
            # the links of the generated header are exactly the links the compiler reports as emitted, and each is declared in the source
            if sorted(a for _s, a, _t in links) != sorted(res['emitted_links']):
                chk.violation('%s:link-set' % label, 'zone_infos.h declares links %s, the compiler reports %s as emitted' % (sorted(set(a for _s, a, _t in links) - set(res['emitted_links']))[:5], sorted(set(res['emitted_links']) - set(a for _s, a, _t in links))[:5]), {})
            for _s, a, t in links:
                if a not in declared:
                    chk.violation('%s:link:%s:not-in-source' % (label, a), 'the generated tables contain a link %s -> %s that the source does not declare' % (a, t), {'link': a, 'target': t})
            lk = [{'alias': nid(a), 'target': nid(res['emitted_links'].get(a, t)), 'resolves': nid(sym2name.get(alias_sym.get(s, '?'), '?'))} for s, a, t in links]
            dbs.append({'label': label, 'ids': ids, 'registry': [nid(n) for _s, n in reg], 'zones': [nid(n) for n in res['emitted_zones']], 'zoneset': 1, 'links': lk})
            dbs.append({'label': label + ':kZoneId-constants', 'ids': [{'n': nid(n), 'id': limbs(int(v, 16))} for _s, v, n in kids], 'registry': [], 'zones': [], 'zoneset': 0, 'links': []})
            if set(zid) != {s for s, _n in zones}:
                chk.violation('%s:zone-symbols' % label, 'zone_infos.cpp defines %s differently from the header' % sorted(set(zid) ^ {s for s, _n in zones})[:5], {})
    # ---- two more sources, audited directly: (a) zone names that normalise to one identifier (no link involved): whatever
    #      is emitted must be internally consistent in both languages; (b) a link name declared twice with different targets:
    #      if it is emitted it must denote the zone zic resolves it to
    similar2 = ['Zone\tTest/Foo-Bar\t1:00\t-\tTST', 'Zone\tTest/Foo_Bar\t2:00\t-\tUST', 'Zone\tTest/Other\t3:00\t-\tVST', 'Link\tTest/Other\tTest/Elsewhere']
    duplink = ['Zone\tTest/Alpha\t1:00\t-\tAST', 'Zone\tTest/Beta\t2:00\t-\tBST', 'Zone\tTest/Gamma\t3:00\t-\tCST',
               'Link\tTest/Alpha\tLegacy/Moved', 'Link\tTest/Gamma\tLegacy/Kept', 'Link\tTest/Beta\tLegacy/Moved']
    from .. import zicoracle
    chain = ['Zone\tTest/Real\t1:00\t-\tRST', 'Zone\tTest/Other\t3:00\t-\tVST', 'Link\tTest/Real\tTest/First', 'Link\tTest/First\tTest/Second', 'Link\tTest/Other\tTest/Elsewhere']
    undefined = ['Zone\tTest/Real\t1:00\t-\tRST', 'Link\tTest/Real\tTest/First', 'Link\tTest/Nowhere\tTest/Dangling']
    for sname, lines in (('similar-names-no-link', similar2), ('duplicate-link-lines', duplink), ('link-to-a-link', chain), ('link-to-nothing', undefined)):
        w = os.path.join(work, sname)
        os.makedirs(w)
        zout, zrc, zmsg = zicoracle.zic_compile(lines, w)
        for scope in ('basic', 'extended'):
            label = '%s:%s' % (sname, scope)
            res, out, err = compiler.run_compiler(lines, w, scope, flags=('arduino', 'python'))
            arduino = True
            if res is None:
                # the C++ generator may refuse what the Python generator, zones.txt and tzdb.json accept: audit those outputs
                res, out, err2 = compiler.run_compiler(lines, w, scope, flags=('python',), tag='-pyonly')
                arduino = False
                if res is None:
                    chk.notes.append('%s: refused by the compiler (%s)' % (label, (err[1] or '').strip().splitlines()[-1][:120] if err and err[1] else err))
                    continue
                for a, t in sorted(res['emitted_links'].items()):
                    if t not in res['emitted_zones']:
                        chk.violation('%s:link:%s:dangling' % (label, a), 'the compiler keeps link %s -> %s in its output database although %s is not an emitted zone' % (a, t, t), {'link': a, 'target': t})
                continue
            # python tables: the record filed under a name is the record of that name; one record per emitted zone
            rc, o, e, _ = common.run_cmd([common.PY, '-c', 'import sys, os, json, importlib; d = sys.argv[1]; open(os.path.join(d, "__init__.py"), "a").close(); sys.path.insert(0, os.path.dirname(d)); z = importlib.import_module(os.path.basename(d) + ".zone_infos"); print(json.dumps({k: v["name"] for k, v in z.ZONE_INFO_MAP.items()}))', os.path.join(out, 'python')], env=compiler.tool_env(), timeout=120)
            if rc != 0:
                chk.violation('%s:python-tables-do-not-load' % label, 'generated Python tables do not import: %s' % e[-500:], {})
            else:
                pm = json.loads(o)
                for k, nme in sorted(pm.items()):
                    if k != nme:
                        chk.violation('%s:python:%s:wrong-record' % (label, k), 'ZONE_INFO_MAP[%r] holds the record of %r' % (k, nme), {'key': k, 'record': nme})
                if sorted(pm) != sorted(res['emitted_zones']):
                    chk.violation('%s:python:zone-set' % label, 'ZONE_INFO_MAP has %s, the compiler emitted %s' % (sorted(pm), sorted(res['emitted_zones'])), {})
            # C++ tables: compile, every emitted zone once in the registry, its name and id its own
            zones_h, links_h, kids = header_info(os.path.join(out, 'arduino', 'zone_infos.h'))
            cpp = open(os.path.join(out, 'arduino', 'zone_infos.cpp')).read()
            defs = re.findall(r'const \w+::ZoneInfo (kZone\w+) ACE_TIME_PROGMEM = \{', cpp)
            if len(defs) != len(set(defs)):
                chk.violation('%s:arduino:duplicate-definition' % label, 'zone_infos.cpp defines a zone symbol twice: %s' % sorted(d for d in set(defs) if defs.count(d) > 1), {})
            reg = re.findall(r'&(kZone\w+), // (\S+)', open(os.path.join(out, 'arduino', 'zone_registry.cpp')).read())
            if sorted(n for _s, n in reg) != sorted(res['emitted_zones']) or len({s for s, _n in reg}) != len(reg):
                chk.violation('%s:arduino:registry' % label, 'registry lists %s, emitted zones are %s' % (sorted(n for _s, n in reg), sorted(res['emitted_zones'])), {})
            kid_names = [n for _s, _v, n in kids]
            if len(kid_names) != len(set(kid_names)) or len({s for s, _v, _n in kids}) != len(kids):
                chk.violation('%s:arduino:duplicate-id-constant' % label, 'a kZoneId constant is emitted twice: %s' % sorted(kids)[:6], {})
            # links: an emitted link denotes an emitted zone, namely the one zic makes of the same lines
            for a, t in sorted(res['emitted_links'].items()):
                if t not in res['emitted_zones']:
                    chk.violation('%s:link:%s:dangling' % (label, a), 'emitted link %s -> %s, which is not an emitted zone' % (a, t), {'link': a, 'target': t})
                fa, ft = os.path.join(zout, a), os.path.join(zout, t)
                if zrc == 0 and os.path.exists(fa) and os.path.exists(ft) and open(fa, 'rb').read() != open(ft, 'rb').read():
                    chk.violation('%s:link:%s' % (label, a), 'emitted link %s -> %s, but zic resolves %s to a different zone' % (a, t, a), {'link': a, 'target': t})
    json.dump(probes_txt + [n['text'] for n in names], open(allnames_file, 'w'))
    rc, out, err, _ = common.run_cmd([common.PY, drv, allnames_file], env=compiler.tool_env(), timeout=300)
    if rc != 0:
        chk.violation('python:crash', 'python id driver failed: %s' % err[-800:], {})
        py = {'zonedbpy': {}, 'probes': [], 'keys': []}
    else:
        py = json.loads(out)
    # the Python database's map: every name denotes the zone recorded under that name, every zone is listed exactly once
    for k, nmv in sorted(py.get('map', {}).items()):
        if k != nmv:
            chk.violation('zonedbpy:map:%s' % k, "tools/zonedbpy: ZONE_INFO_MAP['%s'] is the zone recorded as '%s' (its id is that zone's, not the published id of '%s')" % (k, nmv, k), {'key': k, 'zone': nmv})
    for nmv, cnt in sorted(py.get('times_listed', {}).items()):
        if cnt != 1:
            chk.violation('zonedbpy:listed:%s' % nmv, 'tools/zonedbpy: zone %s is listed %d times in ZONE_INFO_MAP' % (nmv, cnt), {'zone': nmv})
    dbs.append({'label': 'tools/zonedbpy (hash_name of its zone names)', 'ids': [{'n': nid(n), 'id': limbs(v)} for n, v in py['zonedbpy'].items()],
                'registry': [], 'zones': [], 'zoneset': 0, 'links': []})
    probes = [{'codes': list(t.encode('latin-1')), 'id': limbs(v)} for t, v in zip(probes_txt + [n['text'] for n in names], py['probes'])]
    # ---- baseline recorded from the pinned tree
    base = json.load(open(os.path.join(common.DATA, 'zone_ids_baseline.json')))
    baseline = [{'n': nid(n), 'id': limbs(v)} for n, v in sorted(base.items())]
    data = {'names': names, 'dbs': dbs, 'baseline': baseline, 'probes': probes or [{'codes': [], 'id': limbs(5381)}]}
    dp = os.path.join(work, 'zoneids.json')
    json.dump(data, open(dp, 'w'))
    r = common.run_tlc('ZoneIds', 'ZoneIds.cfg', env={'ZONEIDS_DATA': dp}, workers=1, timeout=1500)
    common.tlc_must_pass(r, 'ZoneIds')
    v = [x for x in common.tlc_prints(r.out) if isinstance(x, dict) and 'zoneids' in x]
    if not v or v[0]['nnames'] != len(names):
        raise common.MachineryError('ZoneIds produced no verdict')
    v = v[0]
    nm = lambda n: names[n - 1]['text']
    nids = 0
    for d, dv in zip(dbs, v['zoneids']):
        nids += len(d['ids'])
        for k in dv['notdjb2']:
            e = d['ids'][k - 1]
            chk.violation('%s:not-djb2' % d['label'], 'id of %s is %#x, not djb2(name)' % (nm(e['n']), (e['id'][0] << 16) | e['id'][1]), {'name': nm(e['n'])})
        for a, b in dv['collisions']:
            chk.violation('%s:collision' % d['label'], '%s and %s have the same id' % (nm(d['ids'][a - 1]['n']), nm(d['ids'][b - 1]['n'])), {})
        for k in dv['registry']:
            chk.violation('%s:registry-order' % d['label'], 'registry not in ascending name order at %s, %s' % (nm(d['registry'][k - 1]), nm(d['registry'][k])), {})
        if not dv['complete']:
            chk.violation('%s:registry-incomplete' % d['label'], 'registry does not list exactly the zones of the database', {})
        for k in dv['links']:
            e = d['links'][k - 1]
            chk.violation('%s:link' % d['label'], 'link %s denotes %s, not its target %s' % (nm(e['alias']), nm(e['resolves']), nm(e['target'])), {})
    for a, b, n in v['cross']:
        chk.violation('cross:%s' % nm(n), '%s has different ids in %s and %s' % (nm(n), dbs[a - 1]['label'], dbs[b - 1]['label']), {})
    for k in v['baseline']:
        chk.violation('baseline:%s' % nm(baseline[k - 1]['n']), 'id of %s differs from the id recorded for earlier releases' % nm(baseline[k - 1]['n']), {})
    for k in v['probes']:
        chk.violation('hash_name:probe', 'transformer.hash_name differs from djb2 on %r' % bytes(probes[k - 1]['codes']), {})
    chk.add(states=r.distinct + 1, transitions=r.generated + 1, traces_validated_against_impl=nids, ids_audited=nids, names=len(names), databases=len(dbs),
            hash_probes=len(probes), baseline_names=len(baseline), exhaustive=True,
            rule='TLC evaluates id = djb2(name) (16-bit limb arithmetic), uniqueness per database, equality across databases and with the recorded baseline, ascending registry order and completeness, link -> target, on data extracted through the real accessors (BasicZone/ExtendedZone::zoneId, TimeZone::getZoneId, compiled kZoneId* constants and link aliases), from tools/zonedbpy via the real hash_name, and from a fresh compilation of tzdata 2025b in both scopes')
    chk.sample({'name': 'America/Los_Angeles', 'id': '0x%08x' % base.get('America/Los_Angeles', 0)})
    chk.sample({'databases': [d['label'] for d in dbs]})
    return chk.finish()
