"""C19 -- Reference-data generators bracket every library transition, render losslessly."""
import json
import os
import re
import subprocess
from .. import common, compiler

LEVEL = 'model_checking'
DRV = os.path.join(common.VERIF, 'vf', 'pydrv_tdgen.py')


def sampler_cfg(path, I, M, R, maxc, detect=True, general=False):
    open(path, 'w').write("SPECIFICATION Spec\nCONSTANTS I = %d\n M = %d\n R = %d\n MaxChanges = %d\n DetectDst = %s\nINVARIANT RecordedAreChanges\nINVARIANT %s\n%sCHECK_DEADLOCK FALSE\n" % (
        I, M, R, maxc, 'TRUE' if detect else 'FALSE', 'EveryChangeBracketed' if general else 'BracketedUnderEnv', '' if general else 'INVARIANT Dump\n'))


def run(tier):
    chk = common.Check('C19', tier, LEVEL)
    work = common.scratch('C19')
    env = compiler.tool_env()
    st = tr = 0
    # ---- 1. the algorithm as a model: refuted in general, holds under EnvOK; every enumerated case replayed through the real classes
    # (I, year): the remainder R is what the year's length in minutes leaves modulo I
    configs = [(5, 2000), (7, 2000)] if tier == 'quick' else [(5, 2000), (7, 2000), (7, 2001), (4, 2000), (6, 2001), (11, 2000)]
    ncases = 0
    cfgg = os.path.join(work, 'Sampler_general.cfg')
    sampler_cfg(cfgg, 5, 3, 2, 2, general=True)
    rg = common.run_tlc('Sampler', cfgg, timeout=900)
    if 'EveryChangeBracketed' not in rg.violated:
        raise common.MachineryError('TLC no longer refutes EveryChangeBracketed for the algorithm in general')
    for flavour in ('pytz', 'dateutil'):
        for I, year in configs:
            total = (366 if year % 4 == 0 else 365) * 1440
            R = total % I
            M = 3 if tier == 'quick' else 3
            cfg = os.path.join(work, 'Sampler_%d_%d.cfg' % (I, year))
            sampler_cfg(cfg, I, M, R, 2)
            r = common.run_tlc('Sampler', cfg, workers=1, timeout=1800)
            common.tlc_must_pass(r, 'Sampler I=%d R=%d' % (I, R))
            st += r.distinct
            tr += r.generated
            cases = [c for c in common.tlc_prints(r.out) if isinstance(c, dict) and 'chg' in c]
            # the abstract values are rendered as minutes east of UTC as they stand, and (first configuration) as offsets on the
            # two sides of the date line: <<0, 0>> and <<60, 60>> become -10:00 and +14:00 with the same DST offset, i.e. a
            # change of the UTC offset by exactly one day; every equality between values the model relies on is preserved
            renderings = [(None, '')] + ([({'0,0': [-600, 60], '60,60': [840, 60], '0,30': [-600, 30]}, ':dateline')] if (I, year) == configs[0] else [])
            for vmap, vtag in renderings:
                spec = {'flavour': flavour, 'year': year, 'cases': [dict({'I': I, 'H': c['H'], 'chg': c['chg'], 'vals': c['vals'], 'fast': (k % 97 != 0)}, **({'map': vmap} if vmap else {})) for k, c in enumerate(cases)]}
                sp = os.path.join(work, 'cases_%s_%d_%d%s.json' % (flavour, I, year, vtag.replace(':', '_')))
                op = os.path.join(work, 'out_%s_%d_%d%s.json' % (flavour, I, year, vtag.replace(':', '_')))
                json.dump(spec, open(sp, 'w'))
                rc, out, err, _ = common.run_cmd([common.PY, DRV, 'replay', sp, op], env=env, timeout=3000)
                if rc != 0:
                    chk.violation('%s:replay-crash' % flavour, 'generator driver failed: %s' % err[-1200:], {'stderr': err[-2500:]})
                    continue
                res = json.load(open(op))['results']
                for c, got in zip(cases, res):
                    ncases += 1
                    key = '%s:I=%d%s' % (flavour, I, vtag)
                    rep = {'flavour': flavour, 'I': I, 'H': c['H'], 'changes': c['chg'], 'values': c['vals'], 'model': {'recorded': c['recorded'], 'items': c['items']}, 'code': got}
                    if 'error' in got:
                        chk.violation(key + ':exception', 'the real generator raised %s on step function changes=%s values=%s' % (got['error'], c['chg'], c['vals']), rep)
                        continue
                    if got['recorded'] != [list(x) for x in c['recorded']]:
                        chk.violation(key + ':transitions', 'step function changes=%s values=%s (interval %d, range end %d): the real _find_transitions records %s, the model %s' % (c['chg'], c['vals'], I, c['H'], got['recorded'], c['recorded']), rep)
                        continue
                    mi = sorted([t, tag] for t, tag in c['items'])
                    gi = sorted([t, tag] for t, tag, _o, _d in got['items'])
                    if mi != gi:
                        chk.violation(key + ':items', 'step function changes=%s values=%s: items %s, the model %s' % (c['chg'], c['vals'], gi, mi), rep)
                        continue
                    # each item's fields are the step function's value at its instant
                    for t, tag, off, dst in got['items']:
                        n = len([x for x in c['chg'] if x <= t])
                        if [off, dst] != list(c['vals'][n]):
                            chk.violation(key + ':item-fields', 'item at tick %d carries offsets %s, the library value there is %s' % (t, [off, dst], c['vals'][n]), rep)
                            break
                if flavour == 'pytz' and I == 5:
                    chk.sample({'model_case': {k: cases[len(cases) // 2][k] for k in ('I', 'H', 'chg', 'vals', 'recorded', 'items', 'all', 'env')}})
    # ---- 1b. several generators in one process: each data set belongs to its generator
    for flavour in ('pytz', 'dateutil'):
        sp = os.path.join(work, 'datasets_%s.json' % flavour)
        op = os.path.join(work, 'datasets_out_%s.json' % flavour)
        json.dump({'flavour': flavour}, open(sp, 'w'))
        rc, out, err, _ = common.run_cmd([common.PY, DRV, 'datasets', sp, op], env=env, timeout=1800)
        if rc != 0:
            chk.violation('%s:datasets-crash' % flavour, 'generator driver failed: %s' % err[-1200:], {'stderr': err[-2500:]})
            continue
        ds = json.load(open(op))
        for pb in ds['problems']:
            chk.violation('%s:data-set' % flavour, pb, {'flavour': flavour})
        chk.add(**{'items_in_multi_generator_data_sets_%s' % flavour: ds['items']})
    # ---- 2. real zones of the installed libraries: completeness against the library's own transition table, item fidelity
    ranges = [(2000, 2038, 22), (2005, 2010, 24), (2000, 2006, 48), (2009, 2012, 36), (2000, 2004, 22), (2004, 2006, 22)] if tier == 'quick' else [(2000, 2038, 22), (2005, 2010, 24), (2000, 2020, 6), (2010, 2038, 48), (2000, 2038, 1), (2000, 2006, 36), (2000, 2004, 22), (2004, 2006, 22), (2011, 2013, 12)]
    import pytz
    zones_by = {'pytz': sorted(pytz.all_timezones)}
    zl = os.path.join(common.REPO, 'tools', 'compare_pytz', 'zones.txt')
    dz = [l.strip() for l in open(zl) if l.strip() and not l.startswith('#')]
    zones_by['dateutil'] = sorted(set(dz) | set(pytz.all_timezones))      # (the repository's list has only the zones of its basic database: no zone that crossed the date line)
    nz = 0
    nchanges = 0
    rendered = {}
    for flavour in ('pytz', 'dateutil'):
        for (a, b, h) in ranges:
            zl = zones_by[flavour]
            if flavour == 'dateutil' and (a, b, h) != ranges[0] and tier == 'quick':
                if h < 24:
                    continue
                zl = zl[::6]      # sampling intervals of a day and more (the bisection spans days): every sixth zone
            tag = '%s_%d_%d_%d' % (flavour, a, b, h)
            sp = os.path.join(work, 'real_%s.json' % tag)
            op = os.path.join(work, 'realout_%s.json' % tag)
            json.dump({'flavour': flavour, 'zones': zl, 'start': a, 'until': b, 'interval': h, 'full': (a, b, h) in (ranges[0], (2000, 2004, 22))}, open(sp, 'w'))
            rc, out, err, _ = common.run_cmd([common.PY, DRV, 'real', sp, op], env=env, timeout=6000)
            if rc != 0:
                chk.violation('%s:real-crash' % flavour, 'generator driver failed on real zones: %s' % err[-1200:], {'stderr': err[-2500:]})
                continue
            zr = json.load(open(op))['zones']
            data = []
            info = {}
            for z, rec in sorted(zr.items()):
                if rec.get('missing'):
                    continue
                if 'error' in rec:
                    chk.violation('%s:%s:exception' % (flavour, z), 'generator raised %s for %s [%d, %d) at %d h' % (rec['error'], z, a, b, h), {'zone': z, 'range': [a, b, h]})
                    continue
                nz += 1
                nchanges += len(rec['changes'])
                for bi in rec['bad_items']:
                    chk.violation('%s:%s:item-fields' % (flavour, z), 'item at epoch %d has fields %s, the library reports %s' % (bi['epoch'], bi['item'], bi['library']), dict(bi, zone=z))
                items = rec['items']
                data.append({'zone': z, 'changes': [c[0] for c in rec['changes']], 'items': [i[0] for i in items],
                             'left': [i[0] for i in items if i[1] in 'Aa'], 'right': [i[0] for i in items if i[1] in 'Bb']})
                info[z] = rec
                # monthly and year-end samples are present
                have = {(i[2], i[3]) for i in items if i[4] == 1 and i[5] <= 2}
                ye = {i[2] for i in items if (i[3], i[4], i[5], i[6]) == (12, 31, 23, 59)}
                miss = [(y, m) for y in range(a, b) for m in range(1, 13) if (y, m) not in have]
                if miss:
                    chk.violation('%s:%s:monthly-sample' % (flavour, z), 'no sample item for the first of %s' % miss[:4], {'zone': z})
                if [y for y in range(a, b) if y not in ye]:
                    chk.violation('%s:%s:year-end-sample' % (flavour, z), 'no year-end item for %s' % [y for y in range(a, b) if y not in ye][:4], {'zone': z})
            if (a, b, h) == (2000, 2004, 22):
                # a short range rendered with its own year bounds: items whose local date lies outside [start, until) (the
                # instant is inside) must be rendered like any other
                full = {zz: rr['full_items'] for zz, rr in sorted(zr.items()) if rr.get('full_items')}
                edge = [zz for zz, its in full.items() if any(it['y'] >= b or it['y'] < a for it in its)]
                rendered['%s-%d-%d' % (flavour, a, b)] = {zz: full[zz] for zz in sorted(set(edge + sorted(full)[:5]))}
            if (a, b, h) == ranges[0]:
                # data set to render: a set of zones that between them show every (UTC offset, DST offset) pair and every
                # abbreviation the library exhibits anywhere (greedy cover); every zone in the thorough tier
                full = {zz: rr['full_items'] for zz, rr in sorted(zr.items()) if rr.get('full_items')}
                feats = {zz: {('o', it['total_offset'], it['dst_offset']) for it in its} | {('a', it['abbrev']) for it in its} | {('t', it['type']) for it in its} for zz, its in full.items()}
                todo = set().union(*feats.values()) if feats else set()
                pick = [zz for zz in ('America/Los_Angeles', 'Europe/Dublin', 'Asia/Dhaka', 'Australia/Lord_Howe', 'Africa/Casablanca') if zz in full]
                for zz in pick:
                    todo -= feats[zz]
                while todo and tier == 'quick':
                    best = max(sorted(feats), key=lambda q: len(feats[q] & todo))
                    pick.append(best)
                    todo -= feats[best]
                if tier != 'quick':
                    pick = sorted(full)
                rendered[flavour] = {zz: full[zz] for zz in pick}
            dp = os.path.join(work, 'sampler_data_%s.json' % tag)
            json.dump({'zones': data}, open(dp, 'w'))
            r = common.run_tlc('Sampler_Data', 'Sampler_Data.cfg', env={'SAMPLER_DATA': dp}, workers=1, timeout=3000)
            common.tlc_must_pass(r, 'Sampler_Data %s' % tag)
            v = [x for x in common.tlc_prints(r.out) if isinstance(x, dict) and 'sampler' in x]
            if not v or len(v[0]['sampler']) != len(data):
                raise common.MachineryError('Sampler_Data produced no verdict for %s' % tag)
            import datetime
            # every instant of the range is examined: the final interval ends at the last minute of the range
            last_sample = int((datetime.datetime(b, 1, 1) - datetime.datetime(2000, 1, 1)).total_seconds()) - 60
            for d, zv in zip(data, v[0]['sampler']):
                for k in zv['missing']:
                    c = info[d['zone']]['changes'][k - 1]
                    when = (datetime.datetime(2000, 1, 1) + datetime.timedelta(seconds=c[0])).strftime('%Y-%m-%dT%H:%M')
                    if c[0] > last_sample:
                        chk.violation('%s:final-interval-not-examined:%s:%d-%d@%dh' % (flavour, d['zone'], a, b, h),
                                      '%s change at %s UTC (%s -> %s) gets no items for range [%d, %d) at %d h: it lies after the last sample examined (%s)' % (
                                          d['zone'], when, c[1:3], c[3:5], a, b, h, (datetime.datetime(2000, 1, 1) + datetime.timedelta(seconds=last_sample)).strftime('%Y-%m-%dT%H:%M')), {'zone': d['zone'], 'change': c, 'range': [a, b, h]})
                    else:
                        chk.violation('%s:%s:change-not-bracketed' % (flavour, d['zone']), '%s change at %s UTC (%s -> %s) is not bracketed by two items at adjacent minutes for range [%d, %d) at %d h' % (d['zone'], when, c[1:3], c[3:5], a, b, h), {'zone': d['zone'], 'change': c, 'range': [a, b, h]})
                if zv['unpaired']:
                    # not demanded by the property (dateutil does not round-trip inside Europe/Dublin's negative-DST hour): recorded only
                    chk.notes.append('%s %s: %d transition items without a partner one minute away' % (flavour, d['zone'], len(zv['unpaired'])))
    # ---- 2b. the older generator tools/validator/zstdgenerator.py (transition instants from ZoneSpecifier on tools/zonedbpy,
    #          values from pytz): pairs at every transition it is given, samples, item fidelity
    nzst = 0
    sp = os.path.join(work, 'zst.json')
    op = os.path.join(work, 'zstout.json')
    zr = (2000, 2012) if tier == 'quick' else (2000, 2038)
    json.dump({'zones': [], 'start': zr[0], 'until': zr[1]}, open(sp, 'w'))     # [] = every zone of tools/zonedbpy
    rc, out, err, _ = common.run_cmd([common.PY, DRV, 'zst', sp, op], env=env, timeout=6000)
    if rc != 0:
        chk.violation('zst:crash', 'zstdgenerator driver failed: %s' % err[-1200:], {'stderr': err[-2500:]})
    else:
        for z, rec in sorted(json.load(open(op))['zones'].items()):
            if rec.get('missing'):
                continue
            if 'error' in rec:
                chk.violation('zst:%s:exception' % z, 'zstdgenerator raised %s for %s' % (rec['error'], z), {'zone': z})
                continue
            nzst += rec['items']
            for pr in rec['problems']:
                chk.violation('zst:%s:%s' % (z, pr.split(' ')[0] + '-' + pr.split(' ')[1]), 'zstdgenerator, %s [%d, %d): %s' % (z, zr[0], zr[1], pr), {'zone': z})
    chk.add(zstdgenerator_items_checked=nzst)
    # ---- 3. rendering to the C++ validation tables preserves every number and string
    nren = 0
    nrz = 0
    for rflavour, rendered in sorted(rendered.items()):
        nrz += len(rendered)
        rd = os.path.join(work, 'render-' + rflavour)
        os.makedirs(rd)
        drv = os.path.join(work, 'render.py')
        open(drv, 'w').write('''import json, sys, logging
logging.disable(logging.CRITICAL)
from validation.arvalgenerator import ArduinoValidationGenerator
td = json.load(open(sys.argv[1]))
vd = {'start_year': int(sys.argv[3]), 'until_year': int(sys.argv[4]), 'source': 'pytz', 'version': 'x', 'has_valid_abbrev': True, 'has_valid_dst': True, 'test_data': td}
ArduinoValidationGenerator(invocation='x', tz_version='x', scope='extended', db_namespace='zonedbx', validation_data=vd, blacklist={}).generate_files(sys.argv[2])
''')
        json.dump(rendered, open(os.path.join(rd, 'td.json'), 'w'))
        ry = rflavour.split('-')[1:] if '-' in rflavour else ['2000', '2038']
        rc, out, err, _ = common.run_cmd([common.PY, drv, os.path.join(rd, 'td.json'), rd] + ry, env=env, timeout=600)
        if rc != 0:
            chk.violation('render:%s:crash' % rflavour, 'ArduinoValidationGenerator failed: %s' % err[-1000:], {})
        else:
            syms = re.findall(r'extern const testing::ValidationData (kValidationData\w+);', open(os.path.join(rd, 'validation_data.h')).read())
            names = sorted(rendered)
            norm = lambda n: re.sub(r'[^0-9a-zA-Z_]', '_', n.replace('+', '_PLUS_'))
            lst = ''.join('V(kValidationData%s, "%s")\n' % (norm(n), n) for n in names)
            open(os.path.join(rd, 'valread_list.inc'), 'w').write(lst)
            exe = os.path.join(rd, 'valread')
            cmd = ['g++', '-std=c++11', '-O1', '-w', '-DVALNS=zonedbx', '-DUNIX_HOST_DUINO', '-I' + rd, '-I' + common.SHIM, '-I' + os.path.join(common.REPO, 'src'),
                   os.path.join(common.HARNESS, 'valread.cpp'), os.path.join(rd, 'validation_data.cpp'), '-o', exe]
            p = subprocess.run(cmd, stdout=subprocess.PIPE, stderr=subprocess.STDOUT, text=True)
            if p.returncode != 0:
                chk.violation('render:%s:does-not-compile' % rflavour, 'rendered validation tables do not compile: %s' % p.stdout[-1200:], {})
            else:
                rc, out, err, _ = common.run_cmd([exe], timeout=300)
                # the stated number of items of every zone equals the number of rows written (the reader trusts numItems)
                vtxt = open(os.path.join(rd, 'validation_data.cpp')).read()
                for m in re.finditer(r'ValidationItem kValidationItems(\w+)\[\] = \{(.*?)\n\};\s*const testing::ValidationData kValidationData\1 = \{\s*(\d+) /\*numItems\*/', vtxt, re.S):
                    nrows = len(re.findall(r'^\s*\{', m.group(2), re.M))
                    if nrows != int(m.group(3)):
                        chk.violation('render:%s:%s:numItems' % (rflavour, m.group(1)), 'validation_data.cpp states numItems = %s for %s but writes %d rows' % (m.group(3), m.group(1), nrows), {'zone': m.group(1)})
                try:
                    back = json.loads(out)
                except ValueError:
                    chk.violation('render:%s:unreadable' % rflavour, 'the rendered tables cannot be read back (rows and numItems inconsistent)', {})
                    continue
                for n in names:
                    want = [[it['epoch'], it['total_offset'] // 60 if it['total_offset'] >= 0 else -((-it['total_offset']) // 60), it['dst_offset'] // 60 if it['dst_offset'] >= 0 else -((-it['dst_offset']) // 60),
                             it['y'], it['M'], it['d'], it['h'], it['m'], it['s'], it['abbrev'], it['type']] for it in rendered[n]]
                    got = back.get(n)
                    nren += len(want)
                    if got != want:
                        j = next((i for i in range(min(len(got or []), len(want))) if got[i] != want[i]), 0)
                        chk.violation('render:%s:%s' % (rflavour, n), 'rendered item %d of %s reads back as %s, the collected item is %s' % (j, n, (got or [None])[j] if got else None, want[j]), {'zone': n})
    chk.add(states=st + rg.distinct, transitions=tr + rg.generated, traces_validated_against_impl=ncases, model_cases_replayed=ncases, real_zone_runs=nz,
            library_changes_audited=nchanges, rendered_items_read_back=nren, rendered_zones=nrz,
            rule='TLC: the sampling/bisection algorithm over every step function with <= 2 changes on a window of 3 intervals (+ remainder), refuted in general and proved under EnvOK; every enumerated case replayed through the real TestDataGenerator classes of compare_pytz and compare_dateutil with a fake tzinfo (recorded transitions, items and tags must equal the model\'s); every zone of the installed pytz (and the zones.txt list for dateutil) for ranges %s: each change of the library\'s own transition table bracketed (judged by TLC), monthly and year-end samples present, every item equal to what the library reports at its epoch; rendering through ArduinoValidationGenerator compiled and read back' % (ranges,))
    chk.assume('installed pytz / dateutil as found in /venv; their private transition tables are "the library\'s own transition table"; replayed cases start the scan late in the year (a sample of cases is also run over the whole year and must agree)')
    return chk.finish()
