"""C12 -- Zone tables are a faithful encoding: C++ decode equals what was encoded."""
import json
import os
import glob
import shutil
from .. import common, compiler, tzconf
from .C06 import tlc_table

LEVEL = 'translation_validation'

ATS = None


def synthetic_source():
    """a source covering the product of admissible field values: every AT time 00:00..25:00 by the minute x w/s/u,
    every STDOFF -16:00..+16:00 by the minute, every SAVE -1:00..+2:45, single and multi-character letters"""
    lines = []
    months = ['Jan', 'Feb', 'Mar', 'Apr', 'May', 'Jun', 'Jul', 'Aug', 'Sep', 'Oct', 'Nov', 'Dec']

    def hm(mins, suf=''):
        sign = '-' if mins < 0 else ''
        a = abs(mins)
        return '%s%d:%02d%s' % (sign, a // 60, a % 60, suf)
    # AT times: policies of 24 rules (2001..2024, alternating months), each used by one zone
    combos = [(t, s) for t in range(0, 1501) for s in 'wsu']
    saves = [-60, -45, -30, -15, 0, 15, 30, 45, 60, 75, 90, 105, 120, 135, 150, 165]
    letters = ['S', 'D', '-', 'WAT', 'CAT', '+00', 'X', 'LONG']
    k = 0
    pi = 0
    while k < len(combos):
        name = 'A%03d' % pi
        chunk = combos[k:k + 24]
        for j, (t, s) in enumerate(chunk):
            y = 2001 + j
            save = saves[(pi + j) % len(saves)]
            lines.append('Rule\t%s\t%d\tonly\t-\t%s\t%d\t%s\t%s\t%s' % (name, y, months[(j * 5) % 12], 1 + (j * 7) % 27, hm(t, s if s != 'w' else ''),
                                                                     hm(save) if save else '0', letters[(pi + j) % len(letters)]))
        lines.append('Rule\t%s\t1990\tonly\t-\tJan\t1\t0:00\t0\t-' % name)
        lines.append('Zone\tSyn/At_%03d\t%s\t%s\tS%%sT' % (pi, hm(((pi * 37) % 1921) - 960), name))
        k += 24
        pi += 1
    # STDOFF: zones of 12 eras each, UNTIL in successive years at varying times
    offs = list(range(-960, 961))
    zi = 0
    k = 0
    while k < len(offs):
        chunk = offs[k:k + 12]
        for j, o in enumerate(chunk):
            pre = 'Zone\tSyn/Off_%03d\t' % zi if j == 0 else '\t\t\t'
            until = '' if j == len(chunk) - 1 else '\t%d\t%s\t%d\t%s' % (2002 + 3 * j, months[(j * 5 + zi) % 12], 1 + (j * 3 + zi) % 27, hm((zi * 61 + j * 7) % 1501, 'wsu'[(zi + j) % 3] if (zi + j) % 3 else ''))
            rules = '-' if (j + zi) % 3 else hm(saves[(zi + j) % len(saves)]) if saves[(zi + j) % len(saves)] else '-'
            lines.append('%s%s\t%s\t%s%s' % (pre, hm(o), rules, 'FX' + 'ABCDEFGHIJKL'[j], until))
        k += 12
        zi += 1
    lines.append('Link\tSyn/Off_000\tSyn/Alias')
    return lines


def synthetic_basic():
    """the same product restricted to what the basic scope documents: year-only UNTIL, offsets and shifts in multiples of
    15 minutes, single-character letters, one transition per month, nothing on Jan 1"""
    lines = []
    months = ['Mar', 'Apr', 'May', 'Jun', 'Jul', 'Aug', 'Sep', 'Oct', 'Nov']

    def hm(mins, suf=''):
        sign = '-' if mins < 0 else ''
        a = abs(mins)
        return '%s%d:%02d%s' % (sign, a // 60, a % 60, suf)
    combos = [(t, s) for t in range(0, 1501) for s in 'wsu']
    saves = [60, 0, 30, 0, 120, 0, 45, 0, 15, 0, 90, 0]
    k = 0
    pi = 0
    while k < len(combos):
        name = 'B%03d' % pi
        chunk = combos[k:k + 12]
        for j, (t, s) in enumerate(chunk):
            lines.append('Rule\t%s\t%d\tonly\t-\t%s\t%d\t%s\t%s\t%s' % (name, 2001 + j, months[(j * 4 + pi) % 9], 2 + (j * 7 + pi) % 26, hm(t, s if s != 'w' else ''),
                                                                     hm(saves[j]) if saves[j] else '0', 'DS'[j % 2]))
        lines.append('Rule\t%s\t1990\tonly\t-\tOct\t5\t2:00\t0\tS' % name)
        lines.append('Zone\tSyb/At_%03d\t%s\t%s\tS%%sT' % (pi, hm((((pi * 7) % 129) - 64) * 15), name))
        k += 12
        pi += 1
    offs = [o * 15 for o in range(-64, 65)]
    zi = 0
    k = 0
    while k < len(offs):
        chunk = offs[k:k + 8]
        for j, o in enumerate(chunk):
            pre = 'Zone\tSyb/Off_%03d\t' % zi if j == 0 else '\t\t\t'
            until = '' if j == len(chunk) - 1 else '\t%d' % (2003 + 4 * j)
            rules = '-' if (j + zi) % 2 else hm([15, 30, 60, 120][(zi + j) % 4])
            lines.append('%s%s\t%s\t%s%s' % (pre, hm(o), rules, 'FX' + 'ABCDEFGH'[j], until))
        k += 8
        zi += 1
    return lines


def expected_tables(res, scope):
    """what was given to the generator (the in-memory tables), in the shape dbdump produces"""
    zones = {}
    for key, zi in res['inmem_infos'].items():
        eras = []
        for e, pol in zip(zi['eras'], res['inmem_era_policy_names'][zi['name']]):
            eras.append({'policy': None if pol in ('-', ':') else pol, 'format': e['format'].replace('%s', '%'), 'offsetMinutes': e['offsetSeconds'] // 60,
                         'deltaMinutes': e['rulesDeltaSeconds'] // 60, 'untilYear': 2127 if e['untilYear'] == 10000 else e['untilYear'],
                         'untilMonth': e['untilMonth'], 'untilDay': e['untilDay'], 'untilMinutes': e['untilSeconds'] // 60, 'untilSuffix': e['untilTimeSuffix']})
        zones[zi['name']] = eras
    pols = {}
    for key, p in res['inmem_policies'].items():
        pols[p['name']] = [{'fromYear': 1873 if r['fromYear'] == 0 else r['fromYear'], 'toYear': 2126 if r['toYear'] == 9999 else (1873 if r['toYear'] == 0 else r['toYear']),
                            'inMonth': r['inMonth'], 'onDayOfWeek': r['onDayOfWeek'], 'onDayOfMonth': r['onDayOfMonth'], 'atMinutes': r['atSeconds'] // 60,
                            'atSuffix': r['atTimeSuffix'], 'deltaMinutes': r['deltaSeconds'] // 60, 'letter': r['letter']} for r in p['rules']]
    return zones, pols


def compare_tables(chk, label, dump, zones, pols):
    n = 0
    dz = {z['name']: z for z in dump['zones']}
    if set(dz) != set(zones):
        chk.violation('%s:zone-set' % label, 'tables hold zones %s, the generator was given %s' % (sorted(set(dz) - set(zones))[:5], sorted(set(zones) - set(dz))[:5]), {})
    for name in sorted(set(dz) & set(zones)):
        got, want = dz[name]['eras'], zones[name]
        if len(got) != len(want):
            chk.violation('%s:%s:era-count' % (label, name), '%d eras decoded, %d given' % (len(got), len(want)), {'zone': name})
            continue
        for i, (g, w) in enumerate(zip(got, want)):
            n += 1
            for f in ('format', 'offsetMinutes', 'deltaMinutes', 'untilYear', 'untilMonth', 'untilDay', 'untilMinutes', 'untilSuffix'):
                if g[f] != w[f]:
                    chk.violation('%s:era:%s' % (label, f), 'zone %s era %d: decoded %s = %r, the generator was given %r' % (name, i, f, g[f], w[f]), {'zone': name, 'era': i, 'field': f, 'decoded': g, 'given': w})
                    break
            if (g['policy'] is None or g['policy'] < 0) != (w['policy'] is None):
                chk.violation('%s:era:policy' % label, 'zone %s era %d: policy presence differs' % (name, i), {'zone': name})
            elif w['policy'] is not None:
                gr, wr = dump['policies'][g['policy']], pols[w['policy']]
                if len(gr) != len(wr):
                    chk.violation('%s:policy:rule-count' % label, 'policy %s of zone %s: %d rules decoded, %d given' % (w['policy'], name, len(gr), len(wr)), {'policy': w['policy']})
                    continue
                for j, (a, b) in enumerate(zip(gr, wr)):
                    n += 1
                    for f in ('fromYear', 'toYear', 'inMonth', 'onDayOfWeek', 'onDayOfMonth', 'atMinutes', 'atSuffix', 'deltaMinutes', 'letter'):
                        if a[f] != b[f]:
                            chk.violation('%s:rule:%s' % (label, f), 'policy %s rule %d: decoded %s = %r, the generator was given %r' % (w['policy'], j, f, a[f], b[f]), {'policy': w['policy'], 'rule': j, 'field': f, 'decoded': a, 'given': b})
                            break
    return n


def compare_with_source(chk, label, dump, lines, scope):
    """decoded tables against an independent reading (vf/tzparse.py) of the source lines themselves: every standard offset,
    fixed DST shift, UNTIL time and suffix of every era and every AT time, suffix and SAVE of every rule, by position"""
    from .. import tzparse
    rules, zones, _links = tzparse.parse(lines)
    n = 0
    for z in dump['zones']:
        src = zones.get(z['name'])
        if src is None or len(src) != len(z['eras']):
            continue      # (eras dropped before start_year etc. are the business of compare_tables / C03)
        for i, (e, w) in enumerate(zip(z['eras'], src)):
            n += 1
            want_off = w['off'] // 60 if scope == 'extended' else None
            checks = []
            if want_off is not None and w['off'] % 60 == 0:
                checks.append(('offsetMinutes', e['offsetMinutes'], want_off))
            if w['rules'][0] == 'fixed' and w['rules'][1] % 900 == 0:
                checks.append(('deltaMinutes', e['deltaMinutes'], w['rules'][1] // 60))
            if w['until'] is not None:
                checks.append(('untilYear', e['untilYear'], w['until']['y']))
            if w['until'] is not None and w['until']['at'] % 60 == 0 and scope == 'extended':
                checks.append(('untilMinutes', e['untilMinutes'], w['until']['at'] // 60))
                checks.append(('untilSuffix', e['untilSuffix'], w['until']['suf']))
            for f, got, want in checks:
                if got != want:
                    chk.violation('%s:source:era:%s' % (label, f), 'zone %s era %d: the table holds %s = %r, the source line says %r' % (z['name'], i, f, got, want), {'zone': z['name'], 'era': i, 'field': f})
            if w['rules'][0] == 'named' and e['policy'] is not None and e['policy'] >= 0:
                got_rules = [r for r in dump['policies'][e['policy']] if r['fromYear'] != 1873]      # (the synthetic anchor rule is not a source line)
                src_rules = rules.get(w['rules'][1], [])
                if len(got_rules) != len(src_rules):
                    continue
                for j, (a, b) in enumerate(zip(got_rules, src_rules)):
                    n += 1
                    for f, got, want in (('atMinutes', a['atMinutes'], b['at'] // 60 if b['at'] % 60 == 0 else None), ('atSuffix', a['atSuffix'], b['suf']),
                                         ('deltaMinutes', a['deltaMinutes'], b['save'] // 60 if b['save'] % 900 == 0 else None), ('fromYear', a['fromYear'], b['fr'])):
                        if want is not None and got != want:
                            chk.violation('%s:source:rule:%s' % (label, f), 'policy %s rule %d: the table holds %s = %r, the source line says %r' % (w['rules'][1], j, f, got, want), {'policy': w['rules'][1], 'rule': j, 'field': f})
    return n


def dump_generated(work, out_basic, out_ext, name):
    inc = os.path.join(work, 'inc-' + name)
    shutil.rmtree(inc, ignore_errors=True)
    for sub, src in (('zonedb', os.path.join(out_basic, 'arduino')), ('zonedbx', os.path.join(out_ext, 'arduino'))):
        d = os.path.join(inc, 'ace_time', sub)
        os.makedirs(d)
        for f in glob.glob(os.path.join(src, '*')):
            shutil.copy(f, d)
    exes, err = compiler.build_generated('dbdump-' + name, ['dbdump.cpp'], inc, sorted(glob.glob(os.path.join(inc, 'ace_time', '*', '*.cpp'))))
    if exes is None:
        return None, err
    exe = exes['dbdump']
    out = {}
    for db in ('basic', 'extended'):
        rc, o, e, _ = common.run_cmd([exe, db], timeout=600)
        if rc != 0:
            return None, 'dbdump crashed: ' + e[-500:]
        out[db] = json.loads(o)
    return out, None


def run(tier):
    chk = common.Check('C12', tier, LEVEL)
    work = common.scratch('C12')
    # (a) the encoders: TLC's Dec(Enc(v)) = v, and the real Python encoders equal Enc on the full product
    r, rows = tlc_table('MC_Encoding', 'MC_Encoding.cfg')
    spec = {}
    for row in rows:
        spec[tuple(row[:3]) if row[0] == 'time' else tuple(row[:2])] = row[3:] if row[0] == 'time' else row[2:]
    rc, out, err, _ = common.run_cmd([common.PY, os.path.join(common.VERIF, 'vf', 'pydrv_encoders.py')], env=compiler.tool_env(), timeout=600)
    nenc = 0
    if rc != 0:
        chk.violation('encoders:crash', 'python encoder driver failed: %s' % err[-800:], {})
    else:
        for row in json.loads(out):
            nenc += 1
            if row[0] == 'time':
                want = spec.get(('time', row[1], row[2]))
                if want is None or row[3:5] != want:
                    chk.violation('encoders:time:%s' % row[5], '_to_code_and_modifier(%d, %r, %s) = %s, specification %s' % (row[1], row[2], row[5], row[3:5], want), {'row': row})
            else:
                want = spec.get((row[0], row[1]))
                if want is None or row[2:] != want:
                    chk.violation('encoders:%s' % row[0], 'encoder for %s %d gives %s, specification %s' % (row[0], row[1], row[2:], want), {'row': row})
    progs = 0
    entries = 0
    # (b) synthetic product source and (c) the source recorded in the shipped tables, through the real generator, compiled, read back
    # (the synthetic source is also compiled for a year range that does not start in 2000: nothing in an encoding may depend
    #  on the range)
    for name, lines in (('synthetic', synthetic_source()), ('synthetic@1990', synthetic_source()), ('synthetic-basic', synthetic_basic()), ('shipped-zonedbx', compiler.lines_shipped('zonedbx')), ('shipped-zonedb', compiler.lines_shipped('zonedb'))):
        w = os.path.join(work, name)
        os.makedirs(w, exist_ok=True)
        res = {}
        outs = {}
        bad = False
        y0, y1 = (1990, 2040) if name.endswith('@1990') else (2000, 2050)
        for scope in ('basic', 'extended'):
            rr, o, err = compiler.run_compiler(lines, w, scope, start=y0, until=y1, flags=('arduino', 'inmem'))
            if rr is None:
                chk.violation('%s:%s:compiler' % (name, scope), 'the compiler failed: %s' % (err,), {})
                bad = True
                break
            res[scope], outs[scope] = rr, o
        if bad:
            continue
        if name.startswith('synthetic') and not name.endswith('-basic'):
            # every value of the synthetic source is inside the documented ranges of the extended tables: nothing may be refused
            rz = res['extended']['removed_zones']
            for zname in sorted(set(res['extended']['input_zones']) - set(res['extended']['emitted_zones']))[:10]:
                chk.violation('%s:extended:admissible-value-refused' % name, 'zone %s of the synthetic source (all values inside the documented ranges) is not emitted in extended scope: %s' % (zname, rz.get(zname)), {'zone': zname, 'reason': rz.get(zname)})
        dumps, err = dump_generated(w, outs['basic'], outs['extended'], name.replace('@', '-'))
        if dumps is None:
            chk.violation('%s:generated-tables-do-not-build' % name, 'generated C++ tables do not compile / dump: %s' % err[-1200:], {'source': name})
            continue
        for scope, db in (('basic', 'basic'), ('extended', 'extended')):
            zones, pols = expected_tables(res[scope], scope)
            entries += compare_tables(chk, '%s:%s' % (name, scope), dumps[db], zones, pols)
            entries += compare_with_source(chk, '%s:%s' % (name, scope), dumps[db], lines, scope)
            progs += 1
        # (c) the shipped tables are exactly what the generator produces from their recorded lines
        if name.startswith('shipped-'):
            db = name.split('-')[1]
            scope = 'extended' if db == 'zonedbx' else 'basic'
            exe = common.build_binary('dbdump', ['dbdump.cpp'], 'opt')
            rc, o, e, _ = common.run_cmd([exe, scope], timeout=600)
            shipped = json.loads(o)
            gen = dumps[scope]
            sz = {z['name']: z for z in shipped['zones']}
            gz = {z['name']: z for z in gen['zones']}
            if [z['name'] for z in shipped['zones']] != [z['name'] for z in gen['zones']]:
                chk.violation('%s:regenerated:registry' % db, 'regenerated registry differs from the shipped one: %s' % sorted(set(sz) ^ set(gz))[:8], {})
            for zn in sorted(set(sz) & set(gz)):
                a, b = sz[zn], gz[zn]
                # (transitionBufSize is not an encoding of a recorded line but the output of the buffer estimator: its adequacy,
                #  for shipped and regenerated tables alike, is C09's clause; a regenerated size may exceed the shipped one
                #  since the estimator fix 058f3f7 and is only noted)
                if a['bufSize'] != b['bufSize']:
                    chk.notes.append('%s %s: shipped transitionBufSize %s, regenerated %s' % (db, zn, a['bufSize'], b['bufSize']))
                    if b['bufSize'] < a['bufSize']:
                        chk.violation('%s:regenerated:bufSize-smaller' % db, 'zone %s: the generator now records a smaller transitionBufSize (%s) than the shipped table (%s)' % (zn, b['bufSize'], a['bufSize']), {'zone': zn})
                for f in ('zoneId', 'startYear', 'untilYear'):
                    if a[f] != b[f]:
                        chk.violation('%s:regenerated:%s' % (db, f), 'zone %s: shipped %s = %s, regenerated %s' % (zn, f, a[f], b[f]), {'zone': zn, 'field': f})
                ea = [dict(e, policy=(shipped['policies'][e['policy']] if e['policy'] >= 0 else None)) for e in a['eras']]
                eb = [dict(e, policy=(gen['policies'][e['policy']] if e['policy'] >= 0 else None)) for e in b['eras']]
                entries += len(ea)
                if ea != eb:
                    k = next((i for i in range(min(len(ea), len(eb))) if ea[i] != eb[i]), min(len(ea), len(eb)))
                    chk.violation('%s:regenerated:era' % db, 'zone %s era %d: the shipped table entry differs from what the generator produces from the recorded line' % (zn, k), {'zone': zn, 'era': k, 'shipped': ea[k] if k < len(ea) else None, 'regenerated': eb[k] if k < len(eb) else None})
            # link aliases
            import re
            hs = open(os.path.join(common.REPO, 'src/ace_time', db, 'zone_infos.h')).read()
            hg = open(os.path.join(outs[scope], 'arduino', 'zone_infos.h')).read()
            la = sorted(re.findall(r'extern const \w+::ZoneInfo& (kZone\w+); // (\S+) -> (\S+)', hs))
            lb = sorted(re.findall(r'extern const \w+::ZoneInfo& (kZone\w+); // (\S+) -> (\S+)', hg))
            if la != lb:
                chk.violation('%s:regenerated:links' % db, 'link aliases differ: %s' % (sorted(set(la) ^ set(lb))[:6]), {})
    chk.add(programs=progs, disagreements_checked=entries, states=r.distinct, transitions=r.generated, encoder_rows_compared=nenc,
            rule='(a) TLC: Dec(Enc(v)) = v for every AT/UNTIL time 00:00..25:00 x w/s/u, every offset -16:00..+16:00 by the minute, every DST shift -1:00..+2:45, every year; the real Python encoders equal Enc on all those values; (b) a synthetic source covering that product and (c) the sources recorded in the shipped tables are compiled by the real generator, the C++ tables are built and read back through the brokers and compared field by field with what the generator was given; the shipped tables must equal the regenerated ones entry by entry (eras, rules, ids, buffer sizes, registry order, link aliases)')
    chk.sample({'tlc_row': rows[100], 'meaning': '[time, seconds, suffix, timeCode, modifier]'})
    return chk.finish()
