"""C06 -- Calendar and epoch arithmetic is proleptic Gregorian and bijective."""
import json
import os
from .. import common

LEVEL = 'model_checking'


def tlc_table(module, cfg, env=None, timeout=1200):
    r = common.run_tlc(module, cfg, workers=1, timeout=timeout, env=env)
    common.tlc_must_pass(r, module)
    rows = []
    for line in r.out.splitlines():
        line = line.strip()
        if line.startswith('"['):
            rows.append(json.loads(json.loads(line)))
    return r, rows


def run(tier):
    chk = common.Check('C06', tier, LEVEL)
    exe = common.build_binary('caldrv', ['caldrv.cpp'], 'opt')
    # 1. TLC: the calendar by induction, the library's closed forms against it, and the complete day table
    r, rows = tlc_table('MC_Calendar', 'MC_Calendar.cfg')
    table = {row[0]: row[1:] for row in rows}
    if len(table) != 93136:
        raise common.MachineryError('TLC day table has %d rows' % len(table))
    # cross-check of the table against Python's own calendar (setup sanity, not the oracle)
    import datetime
    for d in (-46385, -36524, -1, 0, 59, 60, 36525, 46750):
        dt = datetime.date(2000, 1, 1) + datetime.timedelta(days=d)
        if table[d][:4] != [dt.year, dt.month, dt.day, dt.isoweekday()]:
            raise common.MachineryError('TLC table disagrees with datetime at day %d' % d)
    # 2. every day through the real LocalDate / mutation helpers
    rc, out, err, _ = common.run_cmd([exe, 'days'], timeout=600)
    if rc != 0:
        chk.violation('days:crash', 'caldrv days crashed: %s' % err[-800:], {})
        lines = []
    else:
        lines = out.splitlines()
    ndays = 0
    lo, hi = -46385, 46750
    for ln in lines:
        f = [int(x) for x in ln.split()]
        d = f[0]
        t = table[d]
        ndays += 1
        rep = {'epoch_day': d, 'code': f, 'table': t}
        if f[1:7] != t:
            chk.violation('days:fields:%s' % ('leap' if f[1:5] == t[:4] else 'ymd-dow'), 'day %d: LocalDate gives (y,m,d,dow,leap,dim)=%s, the calendar %s' % (d, f[1:7], t), rep)
            continue
        if f[13] != d or f[17] or not f[18] or not f[19]:
            chk.violation('days:roundtrip', 'day %d (%s): toEpochDays=%d isError=%d unixdays_ok=%d forComponents_ok=%d' % (d, t[:3], f[13], f[17], f[18], f[19]), rep)
        if d < hi and f[7:10] != table[d + 1][:3]:
            chk.violation('days:incrementOneDay', 'incrementOneDay(%s) = %s, the calendar says %s' % (t[:3], f[7:10], table[d + 1][:3]), rep)
        if d > lo and f[10:13] != table[d - 1][:3]:
            chk.violation('days:decrementOneDay', 'decrementOneDay(%s) = %s, the calendar says %s' % (t[:3], f[10:13], table[d - 1][:3]), rep)
        if f[14:17] != t[:3]:
            raise common.MachineryError('harness civil_from_days disagrees with the TLC table at day %d' % d)
    if ndays != 93136 and rc == 0:
        chk.violation('days:count', 'only %d days produced' % ndays, {})
    # 3. (h, m, s) validity: TLC class table vs all 2^24 byte triples
    r2, vrows = tlc_table('MC_TimeValid', 'MC_TimeValid.cfg')
    vt = {(a, b, c): v for a, b, c, v in vrows}
    rc, out, err, _ = common.run_cmd([exe, 'triples'], timeout=900)
    recs = [json.loads(l) for l in out.splitlines() if l.startswith('{')] if rc == 0 else []
    if rc != 0 or not recs or 'classes' not in recs[-1]:
        chk.violation('triples:crash', 'caldrv triples crashed: %s' % err[-500:], {})
    else:
        for b in recs[:-1]:
            chk.violation('triples:isError', 'LocalTime %s' % b, b)
        fin = recs[-1]
        for h, m, s, v in fin['classes']:
            if vt.get((h, m, s)) != v:
                chk.violation('triples:class', 'LocalTime(%d,%d,%d) valid=%d, specification says %s' % (h, m, s, v, vt.get((h, m, s))), {'h': h, 'm': m, 's': s})
                break
        if fin['nvalid'] != 86401:
            chk.violation('triples:count', '%d byte triples are accepted as valid, expected 86401' % fin['nvalid'], {})
    # 3b. the day conversions in non-ascending orders (the answer may not depend on the call before)
    rc, out, err, _ = common.run_cmd([exe, 'dayorder'], timeout=900)
    recs = [json.loads(l) for l in out.splitlines() if l.startswith('{')]
    if rc != 0 or not recs or 'done' not in recs[-1]:
        chk.violation('dayorder:crash', 'non-monotone day sweep crashed: %s' % err[-500:], {})
    else:
        for b in recs[:-1]:
            chk.violation('dayorder:conversion', 'day %s converted after another day: %s' % (b.get('d'), b), b)
        chk.add(days_converted_out_of_order=recs[-1]['n'])
    # 4. all instants: day table x second-of-day composition
    stride = 16 if tier == 'quick' else 1
    n = common.NCPU * 4
    span = 2**32 // n
    jobs = [(-2**31 + i * span, -2**31 + (i + 1) * span if i < n - 1 else 2**31) for i in range(n)]

    def sweep(j):
        rc_, out_, err_, _ = common.run_cmd([exe, 'instants', str(j[0]), str(j[1]), str(stride)], timeout=7000)
        return j, rc_, [json.loads(l) for l in out_.splitlines() if l.startswith('{')], err_[-400:]
    ninst = 0
    for j, rc_, recs, err_ in common.tmap(sweep, jobs):
        if rc_ != 0 or not recs or 'done' not in recs[-1]:
            chk.violation('instants:crash', 'sweep %s crashed: %s' % (j, err_), {})
            continue
        ninst += recs[-1]['n']
        for b in recs[:-1]:
            if 'offsetMinutes' in b:
                chk.violation('instants:offset-date-time-day-count', 'epoch seconds %d at offset %d min: OffsetDateTime::toEpochDays() = %s, the instant lies on day %s' % (b['t'], b['offsetMinutes'], b['toEpochDays'], b['want']), b)
                continue
            chk.violation('instants:fields', 'epoch seconds %d: fields %s, expected %s' % (b['t'], b['got'], b['want']), b)
    chk.add(states=r.distinct + r2.distinct, transitions=r.generated + r2.generated, traces_validated_against_impl=ndays,
            days_compared_with_tlc_table=ndays, instants_checked=ninst, byte_triples_checked=16777216,
            exhaustive=(tier == 'thorough'), rule='TLC: all 93,136 days (induction step both directions, 4 closed forms, mutation helpers) and the complete day table; every day through the real LocalDate / incrementOneDay / decrementOneDay against the table; all 2^24 (h,m,s) triples; epoch seconds at stride %d plus every day boundary +-2 s' % stride)
    chk.sample({'tlc_table_row': [0] + table[0], 'meaning': '[epochDay, y, m, d, dow, leap, daysInMonth]'})
    chk.sample({'tlc_table_row': [-36524] + table[-36524]})
    chk.assume('for dates the documented isError contract is component ranges (month 1-12, day 1-31); day-within-month is required of fields produced from an instant')
    return chk.finish()
