"""C10 -- Zone lookup by name, id and index is exact and always terminates."""
import itertools
import json
import os
import random
from .. import common, tzconf

LEVEL = 'model_checking'


def hexs(s):
    return s.encode('latin-1').hex() or '00'[:0]


def absent_names(names):
    """names strictly between adjacent entries of a sorted list: before the first, between, after the last"""
    out = ['']   # sorts before everything
    for n in names:
        out.append(n + '\x01')
    return out   # out[k] lies between names[k-1] and names[k]


def run(tier):
    chk = common.Check('C10', tier, LEVEL)
    work = common.scratch('C10')
    exe = common.build_binary('regdrv', ['regdrv.cpp'], 'san')
    scan = common.build_binary('tzscan', ['tzscan.cpp'], 'opt')
    rnd = random.Random(common.seed() * 31337 + 3)
    dbs = {k: tzconf.list_zones(scan, k) for k in ('basic', 'extended')}
    for k, names in dbs.items():
        if names != sorted(names):
            chk.violation('%s:registry-not-sorted' % k, 'shipped registry is not in ascending name order', {})
    # ---- cases: (db, index list) -> queries
    cases = []
    for db, names in dbs.items():
        size = len(names)
        variants = 1 if tier == 'quick' else 4
        for n in range(0, 41):
            for v in range(variants):
                if v == 0:
                    idx = [j * (size // max(n, 1)) for j in range(n)]
                else:
                    idx = sorted(rnd.sample(range(size), n))
                cases.append((db, idx, 'sorted'))
        base = [j * (size // 5) for j in range(5)]
        for n in range(2, 6):
            for perm in itertools.permutations(range(n)):
                if list(perm) != sorted(perm):
                    cases.append((db, [base[p] for p in perm], 'perm'))
        for n in ([7, 12, 40] if tier == 'quick' else [6, 7, 8, 12, 20, 33, 40]):
            for v in range(1 if tier == 'quick' else 3):
                idx = rnd.sample(range(size), n)
                cases.append((db, idx, 'shuffle'))
        # unsorted registries that look sorted to a careless isSorted(): first entry is the minimum, or one adjacent pair swapped
        for n in ([6, 9, 17] if tier == 'quick' else [6, 7, 9, 12, 17, 25, 40]):
            base_idx = sorted(rnd.sample(range(size), n))
            tail = base_idx[1:]
            rnd.shuffle(tail)
            if tail == sorted(tail):
                tail[0], tail[-1] = tail[-1], tail[0]
            cases.append((db, [base_idx[0]] + tail, 'shuffle'))
            for pos in (0, n // 2, n - 2):
                sw = list(base_idx)
                sw[pos], sw[pos + 1] = sw[pos + 1], sw[pos]
                cases.append((db, sw, 'shuffle'))
        cases.append((db, list(range(size)), 'full'))
    # ---- the model: TLC on Registrar.tla (safety incl. probe sequences; liveness; as-found variant refuted)
    extra = {'sizes': sorted({len(v) for v in dbs.values()}), 'perms': []}
    for db, idx, kind in cases:
        if kind == 'shuffle':
            order = sorted(idx)
            extra['perms'].append([2 * order.index(i) + 1 for i in idx])
    if not extra['perms']:
        extra['perms'] = [[1]]
    xp = os.path.join(work, 'extra.json')
    json.dump(extra, open(xp, 'w'))
    res = common.run_tlc('Registrar', 'Registrar_safety.cfg', env={'REG_EXTRA': xp}, timeout=1500)
    common.tlc_must_pass(res, 'Registrar safety')
    live = common.run_tlc('Registrar', 'Registrar_live.cfg', env={'REG_EXTRA': xp}, timeout=1500)
    common.tlc_must_pass(live, 'Registrar liveness (termination under weak fairness)')
    asf = common.run_tlc('Registrar', 'Registrar_asfound.cfg', env={'REG_EXTRA': xp}, timeout=600)
    if asf.ok or not asf.violated:
        raise common.MachineryError('TLC no longer refutes the as-found binary search')
    model = {}
    for d in common.tlc_prints(res.out):
        if isinstance(d, dict) and 'probes' in d:
            model[(tuple(d['reg']), d['q'])] = d
    # ---- run the real code
    inputs = []   # (case no, kind, arg, expectation dict)
    lines_per_case = []
    for ci, (db, idx, kind) in enumerate(cases):
        names = dbs[db]
        sel = [names[i] for i in idx]
        order = sorted(range(len(idx)), key=lambda j: sel[j])           # positions in name order
        rank = {j: r for r, j in enumerate(order)}
        reg = tuple(2 * rank[j] + 1 for j in range(len(idx)))
        snames = [sel[j] for j in order]
        absent = absent_names(snames)
        qs = []
        for q in range(0, 2 * len(idx) + 1):
            name = snames[(q - 1) // 2] if q % 2 else absent[q // 2]
            qs.append(('N', name, {'reg': reg, 'q': q, 'expect_pos': order[(q - 1) // 2] if q % 2 else None, 'name': name}))
        # absent names that collide with a present name under the zone-id hash (djb2: last two characters +1 / -33): they sit
        # in some gap of the registry and must be reported absent like any other name of that gap
        import bisect
        for present in snames[:6] + snames[-2:]:
            if len(present) >= 2 and ord(present[-1]) > 40:
                twin = present[:-2] + chr(ord(present[-2]) + 1) + chr(ord(present[-1]) - 33)
                if twin not in snames:
                    g = bisect.bisect_left(snames, twin)
                    qs.append(('N', twin, {'reg': reg, 'q': 2 * g, 'expect_pos': None, 'name': twin}))
        lines_per_case.append((ci, db, idx, qs))
    chunks = [lines_per_case[i::common.NCPU] for i in range(common.NCPU)]

    def one(chunk):
        lines = []
        meta = []
        for ci, db, idx, qs in chunk:
            lines.append('R %s %s' % (db, ','.join(map(str, idx)) or '-'))
            for kind, arg, exp in qs:
                lines.append('N ' + arg.encode('latin-1').hex())
                meta.append((ci, exp))
        rc, out, err, _ = common.run_cmd([exe], input='\n'.join(lines) + '\n', env=common.san_env(), timeout=3000)
        recs = [json.loads(l) for l in out.splitlines() if l.startswith('{')]
        return meta, recs, rc, err[-2000:]

    nq = 0
    for meta, recs, rc, err in common.tmap(one, [c for c in chunks if c]):
        if len(recs) != len(meta):
            raise common.MachineryError('regdrv answered %d of %d queries (rc=%s) %s' % (len(recs), len(meta), rc, err))
        for (ci, exp), r in zip(meta, recs):
            nq += 1
            db, idx, kind = cases[ci]
            m = model.get((exp['reg'], exp['q']))
            if m is None:
                raise common.MachineryError('no model result for reg size %d q %d kind %s' % (len(exp['reg']), exp['q'], kind))
            where = '%s:%s:n=%d:q=%d' % (db, kind, len(idx), exp['q'])
            rep = {'db': db, 'registry_indices': idx, 'query_name': exp['name'], 'got': r, 'model': m}
            if 'skipped' in r:
                continue
            if 'crash' in r:
                chk.violation(where + ':crash', 'lookup of %r in a %s registry of %d entries crashed (status %s): touches memory outside the registry' % (exp['name'], kind, len(idx), r['crash']), rep)
                continue
            if r.get('budget_exceeded'):
                chk.violation(where + ':no-termination', 'lookup of %r in a %s registry of %d entries did not terminate within size+20 probes: %s' % (exp['name'], kind, len(idx), r['probes'][:12]), rep)
                continue
            want = 65535 if exp['expect_pos'] is None else exp['expect_pos']
            if r['res'] != want or not r['info_ok']:
                chk.violation(where + ':inexact', 'lookup of %r returned %s, expected %s' % (exp['name'], r['res'], want), rep)
                continue
            if any(p < 0 for p in r['probes']):
                chk.violation(where + ':foreign-probe', 'lookup compared against something that is not a registry entry: %s' % r['probes'], rep)
                continue
            if r['probes'] != m['probes'] or bool(r['sorted']) != m['sorted'] or r['res'] != m['res']:
                chk.violation(where + ':probe-sequence', 'code probes %s (sorted=%s res=%s), model %s (sorted=%s res=%s)' % (
                    r['probes'], r['sorted'], r['res'], m['probes'], m['sorted'], m['res']), rep)
                continue
            # manager: not-found -> error time zone; found -> a time zone for exactly that zone
            if want == 65535:
                if r.get('tz') != 'error' or r.get('mgr_index') != 65535:
                    chk.violation(where + ':manager', 'manager turned not-found into %r' % r.get('tz'), rep)
            elif r.get('tz') != exp['name']:
                chk.violation(where + ':manager', 'manager created %r for %r' % (r.get('tz'), exp['name']), rep)
    # ---- ids and indices on the full registries and on small ones
    idq = 0
    for db, names in dbs.items():
        ids = None
        lines = ['R %s %s' % (db, ','.join(map(str, range(len(names)))))]
        meta = []
        # ids through name lookups first
        for n in names:
            lines.append('N ' + n.encode('latin-1').hex())
            meta.append(('name', n))
        rc, out, err, _ = common.run_cmd([exe], input='\n'.join(lines) + '\n', env=common.san_env(), timeout=3000)
        recs = [json.loads(l) for l in out.splitlines() if l.startswith('{')]
        ids = [r.get('tzid') for r in recs]
        if len(ids) != len(names) or None in ids:
            chk.violation('%s:full:ids-unavailable' % db, 'could not obtain ids of all zones through the manager', {})
            continue
        for sub in ([list(range(len(names)))] + [[j * 6 for j in range(n)] for n in (0, 1, 2, 5, 6, 7, 40)]):
            lines = ['R %s %s' % (db, ','.join(map(str, sub)) or '-')]
            meta = []
            subset = set(sub)
            for i, zid in enumerate(ids):
                if len(sub) == len(names) or i in subset or i % 13 == 0:
                    lines.append('I %d' % zid)
                    meta.append(('I', zid, sub.index(i) if i in subset else 65535, names[i]))
            for zid in (0, 0xFFFFFFFF, 1, 0x7FFFFFFF, 0x80000000):
                if zid not in ids:
                    lines.append('I %d' % zid)
                    meta.append(('I', zid, 65535, None))
            for ix in list(range(0, len(sub) + 2)) + [65534, 65535]:
                lines.append('X %d' % ix)
                meta.append(('X', ix, ix if ix < len(sub) else 65535, names[sub[ix]] if ix < len(sub) else None))
            rc, out, err, _ = common.run_cmd([exe], input='\n'.join(lines) + '\n', env=common.san_env(), timeout=3000)
            recs = [json.loads(l) for l in out.splitlines() if l.startswith('{')]
            if len(recs) != len(meta):
                raise common.MachineryError('regdrv answered %d of %d id/index queries' % (len(recs), len(meta)))
            for (k, arg, want, name), r in zip(meta, recs):
                idq += 1
                where = '%s:by-%s:n=%d' % (db, 'id' if k == 'I' else 'index', len(sub))
                rep = {'db': db, 'registry_indices': sub if len(sub) < 50 else 'full', 'query': arg, 'got': r}
                if 'skipped' in r:
                    continue
                if 'crash' in r or r.get('budget_exceeded'):
                    chk.violation(where + ':crash', 'lookup %s %s crashed (out-of-bounds access) or did not terminate within 3 s: %s' % (k, arg, r), rep)
                elif r['res'] != want or (k == 'I' and not r['info_ok']):
                    chk.violation(where + ':inexact', 'lookup %s %s returned %s, expected %s' % (k, arg, r['res'], want), rep)
                elif (want == 65535) != (r.get('tz') == 'error') or (want != 65535 and r.get('tz') != name):
                    chk.violation(where + ':manager', 'manager created %r for %s %s (expected %r)' % (r.get('tz'), k, arg, name), rep)
    # ---- several registrars / managers of the same kind alive in one process, lookups alternating between them
    mq = 0
    for db, names in dbs.items():
        n = len(names)
        lists = []
        for size in (3, 6, 7, 12, 30):
            a = [(j * 7) % n for j in range(size)]
            lists.append([sorted(a), sorted(a)[2:] + [(a[-1] + 11) % n], list(reversed(sorted(a))), sorted(a)[1:]])
        lists.append([list(range(n)), list(range(1, n)), list(range(0, n, 2))])
        lines = ['M %s %s' % (db, ';'.join(','.join(map(str, l)) or '-' for l in ls)) for ls in lists]
        rc, out, err, _ = common.run_cmd([exe], input='\n'.join(lines) + '\n', env=common.san_env(), timeout=3000)
        recs = [json.loads(l) for l in out.splitlines() if l.startswith('{')]
        if len(recs) != len(lines):
            raise common.MachineryError('regdrv answered %d of %d multi-registrar cases: %s' % (len(recs), len(lines), err[-400:]))
        for ls, r in zip(lists, recs):
            if 'crash' in r:
                chk.violation('%s:several-registrars:crash' % db, 'lookups alternating between %d registrars crashed (status %s)' % (len(ls), r['crash']), {'db': db})
                continue
            mq += r['nq']
            if r['nbad']:
                chk.violation('%s:several-registrars:inexact' % db, 'with %d registrars of sizes %s alive in one process, %d of %d lookups are wrong; first: %s' % (len(ls), [len(x) for x in ls], r['nbad'], r['nq'], r['first']), {'db': db, 'first': r['first']})
    chk.add(lookups_alternating_between_registrars=mq)
    chk.add(states=res.distinct + live.distinct, transitions=res.generated + live.generated, traces_validated_against_impl=nq,
            name_lookups_replayed=nq, id_and_index_lookups=idq, registries=len(cases), asfound_variant_refuted=sorted(set(asf.violated)),
            rule='TLC: all sizes 0..40 x all gap positions, all permutations up to size 5, the shipped sizes and seeded shuffles (exactness, index bounds, termination as liveness); every case replayed on a real ZoneRegistrar/ZoneManager built from shipped zones with a logging comparator (probe sequence must equal the model\'s), ASan build, probe budget size+20')
    chk.sample({'registry': 'first 6 of a stride selection', 'query': 'absent name between entries', 'model': model.get(((1, 3, 5, 7, 9, 11), 4))})
    chk.assume('termination of the real code is observed through a probe budget (size + 20 comparisons) and a 3 s watchdog per lookup')
    return chk.finish()
