"""C02 -- Basic zones match the TZ rules too, and agree with Extended on shared zones."""
import os
from .. import common, tzconf, extproc

LEVEL = 'model_checking'


def run(tier):
    chk = common.Check('C02', tier, LEVEL)
    exe = common.build_binary('tzscan', ['tzscan.cpp'], 'opt')
    grid = int(os.environ.get('VERIF_GRID', 60 if tier == 'quick' else 1))
    fstride = 97 if tier == 'quick' else 7
    bimpl, bspec, bnames = tzconf.check_database(chk, exe, 'basic', os.path.join(common.REPO, 'src/ace_time/zonedb'), grid, fstride, 'zonedb')
    # hook H1: the basic processor must never need a sixth cache slot (all years 1999..2050 of every zone)
    nohook = [n for n in bnames if n in bimpl and not bimpl[n].get('hookH1')]
    if nohook:
        raise common.MachineryError('hook H1 (ACE_TIME_VERIF_HOOKS in BasicZoneProcessor::addTransition) is not compiled in')
    for n in bnames:
        if n in bimpl and bimpl[n]['dropped']:
            chk.violation('zonedb:%s:cache-overflow' % n, 'BasicZoneProcessor::addTransition dropped %d transitions (more than 5 cache slots needed)' % bimpl[n]['dropped'], {'zone': n})
    # Basic == Extended on every shared name: sweep the extended twin and compare run-length traces incl. the DST amount
    enames = tzconf.list_zones(exe, 'extended')
    shared = [n for n in bnames if n in set(enames)]
    eidx = {n: i for i, n in enumerate(enames)}
    eimpl = {}

    def one(n):
        import json
        rc, out, err, _ = common.run_cmd([exe, 'scan', 'extended', str(eidx[n]), str(eidx[n] + 1), str(max(grid, 60)), str(tzconf.T0), str(tzconf.T1), '0', 'x'], timeout=3600)
        if rc != 0:
            return n, None, err[-500:]
        return n, json.loads(out.splitlines()[0]), None
    ndiff = 0
    for n, rec, err in common.tmap(one, shared):
        if rec is None:
            chk.violation('zonedbx:%s:crash' % n, 'extended sweep crashed: %s' % err, {'zone': n})
            continue
        a, b = bimpl[n]['dpieces'], rec['dpieces']
        if a != b:
            k = next((i for i in range(min(len(a), len(b))) if a[i] != b[i]), min(len(a), len(b)))
            chk.violation('shared:%s:basic-vs-extended' % n, 'Basic and Extended differ at piece %d: basic=%s extended=%s' % (k, a[k] if k < len(a) else None, b[k] if k < len(b) else None), {'zone': n, 'at': k})
            ndiff += 1
    tzconf.check_configurations(chk, exe, 'basic', 'zonedb')
    # algorithm level: BasicProc.tla (the init(year) algorithm) bound to the real processor's cache for every zone x year
    # 1999..2050, its invariants (five slots suffice, sorted, no invalid start), and its step function judged by TzSem.tla
    extproc.check_shipped(chk, 'basic')
    chk.add(shared_zones_compared=len(shared), exhaustive=True,
            rule='every zone of zonedb swept at %d s over 2000..2049 through BasicZoneProcessor (each change bisected to the second) and judged by TzSem.tla; the same sweep through ExtendedZoneProcessor for every shared name, traces (offset, DST amount, abbreviation) compared; BasicProc.tla: the cache of BasicZoneProcessor::init(y) (start, offsets, abbreviation, year, month, dropped transitions) equals the model for every zone x y in 1999..2050, and the model refines TzSem on every zone' % grid)
    chk.assume('zic/zdump (glibc 2.36) is the oracle; TzSem.tla must accept zic traces for the same lines else exit 2')
    return chk.finish()
