// Host stand-in for <Arduino.h>.
#ifndef VERIF_HOSTSHIM_ARDUINO_H
#define VERIF_HOSTSHIM_ARDUINO_H
#include <stdint.h>
#include <stddef.h>
#include <string.h>
#include "pgmspace.h"
#include "Print.h"
extern Print VerifSerial;
#define SERIAL_PORT_MONITOR VerifSerial
// VERIF_UL: width of millis() (uint32_t in the 32-bit variant of the clock driver, see vf/clocks.py)
#ifdef VERIF_UL
#include <stdint.h>
extern "C" VERIF_UL millis();
#else
extern "C" unsigned long millis();
#endif
#endif
