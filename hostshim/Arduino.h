// Host stand-in for <Arduino.h>.
#ifndef VERIF_HOSTSHIM_ARDUINO_H
#define VERIF_HOSTSHIM_ARDUINO_H
#include <stdint.h>
#include <stddef.h>
#include <string.h>
#include "pgmspace.h"
#include "Print.h"
extern Print VerifSerial;
#define SERIAL_PORT_MONITOR VerifSerial
extern "C" unsigned long millis();
#endif
