// Host stand-in for the AceCommon library (not installed in the sandbox).
// Semantics follow AceCommon's published sources (v1.1): incrementMod,
// incrementModOffset, printPad2To, strcmp_PP, TimingStats.
#ifndef VERIF_HOSTSHIM_ACECOMMON_H
#define VERIF_HOSTSHIM_ACECOMMON_H
#include <stdint.h>
#include <string.h>
#include "Print.h"
#include "pgmspace.h"
namespace ace_common {

template <typename T>
void incrementMod(T& d, T m) {
  d++;
  if (d >= m) d = 0;
}

template <typename T>
void incrementModOffset(T& d, T m, T offset) {
  d -= offset;
  d++;
  if (d >= m) d = 0;
  d += offset;
}

inline void printPad2To(Print& printer, uint8_t n, char padChar = ' ') {
  if (n < 10) printer.print(padChar);
  printer.print(n);
}

inline int strcmp_PP(const char* a, const char* b) {
  if (a == b) return 0;
  if (a == nullptr) return -1;
  if (b == nullptr) return 1;
  return strcmp(a, b);
}

class TimingStats {
  public:
    TimingStats() { reset(); }
    void reset() { mCount = 0; mSum = 0; mMin = 65535; mMax = 0; }
    void update(uint16_t duration) {
      mCount++; mSum += duration;
      if (duration < mMin) mMin = duration;
      if (duration > mMax) mMax = duration;
    }
    uint16_t getCount() const { return mCount; }
    uint16_t getMax() const { return mMax; }
    uint16_t getMin() const { return mMin; }
  private:
    uint16_t mCount; uint32_t mSum; uint16_t mMin; uint16_t mMax;
};

}
#endif
