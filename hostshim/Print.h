// Host stand-in for Arduino's Print: appends everything to a std::string.
// Trusted base of /verif (see DESIGN.md section 9).
#ifndef VERIF_HOSTSHIM_PRINT_H
#define VERIF_HOSTSHIM_PRINT_H
#include <stdint.h>
#include <stddef.h>
#include <string.h>
#include <stdio.h>
#include <string>

class __FlashStringHelper;
#ifndef F
#define F(s) (reinterpret_cast<const __FlashStringHelper*>(s))
#endif
#ifndef FPSTR
#define FPSTR(p) (reinterpret_cast<const __FlashStringHelper*>(p))
#endif

class Print {
  public:
    virtual ~Print() {}
    virtual size_t write(uint8_t c) { buf.push_back((char) c); return 1; }
    size_t write(const char* s) { size_t n = strlen(s); buf.append(s, n); return n; }
    size_t print(const char* s) { return write(s); }
    size_t print(const __FlashStringHelper* s) { return write(reinterpret_cast<const char*>(s)); }
    size_t print(char c) { return write((uint8_t) c); }
    size_t print(unsigned char v) { return printNum((unsigned long) v); }
    size_t print(int v) { return printSigned((long) v); }
    size_t print(unsigned int v) { return printNum((unsigned long) v); }
    size_t print(long v) { return printSigned(v); }
    size_t print(unsigned long v) { return printNum(v); }
    size_t println() { return write((uint8_t) '\n'); }
    template <typename T> size_t println(T v) { size_t n = print(v); return n + println(); }
    void flush() {}
    std::string buf;
  private:
    size_t printNum(unsigned long v) { char t[32]; int n = snprintf(t, sizeof t, "%lu", v); buf.append(t, n); return n; }
    size_t printSigned(long v) { char t[32]; int n = snprintf(t, sizeof t, "%ld", v); buf.append(t, n); return n; }
};
#endif
