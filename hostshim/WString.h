#ifndef VERIF_HOSTSHIM_WSTRING_H
#define VERIF_HOSTSHIM_WSTRING_H
#include "Print.h"
#endif
