// Host stand-in for <pgmspace.h>: flash is ordinary memory.
#ifndef VERIF_HOSTSHIM_PGMSPACE_H
#define VERIF_HOSTSHIM_PGMSPACE_H
#include <stdint.h>
#include <string.h>
#define PROGMEM
#define PGM_P const char*
#define PSTR(s) (s)
#define pgm_read_byte(p) (*(const uint8_t*)(p))
#define pgm_read_word(p) (*(const uint16_t*)(p))
#define pgm_read_dword(p) (*(const uint32_t*)(p))
#define pgm_read_float(p) (*(const float*)(p))
#define pgm_read_ptr(p) (*(const void* const*)(p))
inline int strcmp_P(const char* a, const char* b) { return strcmp(a, b); }
inline size_t strlen_P(const char* a) { return strlen(a); }
inline const char* strchr_P(const char* s, int c) { return strchr(s, c); }
inline const char* strrchr_P(const char* s, int c) { return strrchr(s, c); }
inline char* strcpy_P(char* d, const char* s) { return strcpy(d, s); }
inline char* strncpy_P(char* d, const char* s, size_t n) { return strncpy(d, s, n); }
inline void* memcpy_P(void* d, const void* s, size_t n) { return memcpy(d, s, n); }
#endif
